(* C12 - bulk INSERT with RETURNING ("insertmanyvalues"): one returned row per parameter set, in
   parameter order.  Statements only; every proof is [exact <lemma>].
   Model: coq/sql/IMV.v.  P = parameter set, K = sentinel value, R = result row, X = the bound
   parameters of a parameter set that are not inside VALUES.  The database is the function
   [fetch] (rows fetched after the k-th statement); it is only assumed to return one row per VALUES
   row of a statement, in ANY order. *)
From Coq Require Import List ZArith Bool Permutation Sorted.
Import ListNotations.
From SAV.sql Require Import IMV IMVPlan IMVMerge IMVExpand IMVWhole IMVOrm IMVRun IMVRunProofs.
Open Scope Z_scope.

(* ---------------- mode decision ---------------- *)
(* total, and "downgraded" only ever together with row-at-a-time *)
Theorem c12_mode_total : forall sbo f,
  decide_mode sbo f = (true, false) \/ decide_mode sbo f = (true, true) \/ decide_mode sbo f = (false, false).
Proof. exact mode_row_or_batched. Qed.
Print Assumptions c12_mode_total.

(* batching is chosen for a sorted RETURNING only when sentinel columns exist, for upserts only
   with the VALUES counter, for DEFAULT VALUES only with the DEFAULT metavalue *)
Theorem c12_mode_batched_safe : forall sbo f dg, decide_mode sbo f = (false, dg) ->
  dg = false /\ supports_multivalues_insert f = true /\
  (is_default_expr f = true -> supports_default_metavalue f = true) /\
  (sbo = true -> result_columns f = true ->
     sentinel_columns_none f = false /\ (includes_upsert_behaviors f = true -> embed_values_counter f = true)) /\
  (has_upsert_bound_parameters f = true -> result_columns f = true -> embed_values_counter f = true).
Proof. exact mode_batched_safe. Qed.
Print Assumptions c12_mode_batched_safe.

(* ---------------- batch size ---------------- *)
(* the max_params clamp keeps the size >= 1 as long as ONE row's parameters fit under the limit *)
Theorem c12_clamp_keeps_positive : forall bs mp tot per, 1 <= bs -> 1 <= per -> tot <= mp ->
  exists bs', clamp bs mp tot per = Ok bs' /\ 1 <= bs' <= bs.
Proof. exact clamp_ge_1. Qed.
Print Assumptions c12_clamp_keeps_positive.

(* ... and otherwise yields 0 and `lenparams // 0`.  Reachable only when a single-row INSERT already
   exceeds dialect.insertmanyvalues_max_parameters: 999 on SQLite < 3.32 (tables may have 2000
   columns), not with 2099 on SQL Server (1024 columns) or the default 32700 (PostgreSQL 1600) *)
Theorem c12_clamp_nonpositive_refuted :
  exists bs mp tot per, 1 <= bs /\ 1 <= per /\ clamp bs mp tot per = Ok 0 /\
    total_batches 5 0 = Raise ZeroDivisionError.
Proof. exact clamp_nonpositive_refuted. Qed.
Print Assumptions c12_clamp_nonpositive_refuted.

(* what the clamp is for: parameters outside VALUES + size * (VALUES elements) <= max_params *)
Theorem c12_clamp_respects_limit : forall bs mp tot per bs', 1 <= per -> mp <> 0 ->
  clamp bs mp tot per = Ok bs' -> (tot - per) + bs' * per <= mp.
Proof. exact clamp_limit. Qed.
Print Assumptions c12_clamp_respects_limit.

(* in terms of bound parameters (k per VALUES row, any k): since commit e06ceea the divisor is
   max(VALUES elements, bound parameters inside VALUES), so a statement never carries more than
   max_params parameters (formerly finding C12-clamp-counts-elements) *)
Theorem c12_clamp_respects_bind_limit : forall bs mp tot elems k bs', 1 <= elems -> mp <> 0 -> 0 <= k ->
  1 <= bs' -> clamp bs mp tot (params_per_batch_expr elems k) = Ok bs' -> (tot - k) + bs' * k <= mp.
Proof. exact clamp_limit_binds_fixed. Qed.
Print Assumptions c12_clamp_respects_bind_limit.
(* one element `coalesce(:a, :b, :c)`, page size 20000, limit 32700: 10900 rows = 32700 parameters *)
Example c12_ex_clamp_multibind : clamp 20000 32700 3 (params_per_batch_expr 1 3) = Ok 10900.
Proof. reflexivity. Qed.

(* the slice-and-delete loop: for every size >= 1 and every list the chunks concatenate to the
   list, each holds 1..size elements and reports its own length as current_batch_size, all but the
   last are full, and there are exactly total_batches of them; the fuel len(l) suffices *)
Theorem c12_batches_partition : forall (A : Type) bs, 1 <= bs -> forall (l : list A),
  exists chunks, split_loop (length l) bs l = Ok chunks /\
    concat (map fst chunks) = l /\
    Forall (fun c => 1 <= Z.of_nat (length (fst c)) <= bs /\ snd c = Z.of_nat (length (fst c))) chunks /\
    full_but_last bs chunks /\
    Z.of_nat (length chunks) = total_batches_expr (Z.of_nat (length l)) bs.
Proof. intros A bs H l. exact (split_loop_spec bs H (length l) l (le_n _)). Qed.
Print Assumptions c12_batches_partition.

(* the sequence of batches the compiler-level generator yields, in every mode *)
Theorem c12_plan_partition : forall (P : Type) (c : config) (ps : list P),
  1 <= c_batch_size c -> clamp_pre c ->
  exists bl, plan c ps = Ok bl /\
    concat (map b_items bl) = ps /\
    map b_num bl = zrange 1 (length bl) /\
    Forall (batch_ok c (Z.of_nat (length bl))) bl /\
    (fst (decide_mode (c_sbo c) (c_flags c)) = true -> Forall (fun b => length (b_items b) = 1%nat) bl).
Proof. exact @plan_spec. Qed.
Print Assumptions c12_plan_partition.

(* insertmanyvalues_page_size = 0 (nothing validates the option): ZeroDivisionError *)
Theorem c12_zero_page_size_raises : forall (P : Type) (c : config) (ps : list P),
  fst (decide_mode (c_sbo c) (c_flags c)) = false -> c_batch_size c = 0 -> c_max_params c = 0 ->
  plan c ps = Raise ZeroDivisionError.
Proof. exact @plan_zero_size. Qed.
Print Assumptions c12_zero_page_size_raises.

(* a negative page size never completes: `batches[0:n] = []` stops removing anything *)
Theorem c12_negative_page_size_never_completes : forall (P : Type) (c : config) (ps : list P),
  fst (decide_mode (c_sbo c) (c_flags c)) = false -> c_batch_size c < 0 -> c_max_params c = 0 -> ps <> [] ->
  plan c ps = OutOfFuel.
Proof. exact @plan_negative_size. Qed.
Print Assumptions c12_negative_page_size_never_completes.

(* ---------------- every parameter set exactly once ---------------- *)
(* the statements sent to the database carry, concatenated in order, exactly the given parameter
   sets; an exception of the merge can only cut the sequence short; without RETURNING nothing can *)
Theorem c12_every_param_once : forall (P K R X : Type) (key_eqb : K -> K -> bool)
    (sent_of_param : P -> K) (sent_of_row : R -> K) (sort_key : R -> Z) (ext : P -> X)
    (fetch : nat -> option X -> list P -> list R) (c : config) (ps : list P),
  1 <= c_batch_size c -> clamp_pre c ->
  exists rest, ps = concat (map b_items (o_executed (execute key_eqb sent_of_param sent_of_row sort_key ext fetch c ps))) ++ rest /\
    (forall rows, o_result (execute key_eqb sent_of_param sent_of_row sort_key ext fetch c ps) = Ok rows -> rest = []) /\
    (c_is_returning c = false ->
       o_result (execute key_eqb sent_of_param sent_of_row sort_key ext fetch c ps) = Ok [] /\ rest = []).
Proof. exact @execute_every_param_once. Qed.
Print Assumptions c12_every_param_once.

(* which value the database binds to which placeholder of a rewritten statement.  Positional: the
   placeholders are consumed left to right - VALUES row i receives parameter set i's VALUES slice *)
Theorem c12_positional_values : forall (ly : layout) (items : list ptuple) (cbs : Z) b0 rest,
  items = b0 :: rest -> wf_layout ly items -> cbs = Z.of_nat (length items) ->
  let lo := lower_index (l_mask ly) in let hi := upper_index (l_mask ly) in
  exists e, expand_positional ly items cbs = Ok e /\
    e_groups e = Z.of_nat (length items) /\
    db_groups lo (hi - lo) (length items) (e_params e) = map (slice lo hi) items /\
    firstn lo (e_params e) = firstn lo b0 /\
    skipn (lo + length items * (hi - lo)) (e_params e) = skipn hi b0 /\
    (l_embed ly = true -> e_counters e = zrange 0 (length items)).
Proof. exact expand_positional_values. Qed.
Print Assumptions c12_positional_values.

(* numeric: the VALUES placeholders are renumbered lo+1, lo+2, ... without gap or repetition, i.e.
   the j-th one addresses replaced_parameters[lo + j] *)
Theorem c12_numeric_renumber_contiguous : forall (ly : layout) (items : list ptuple) (cbs : Z) b0 rest,
  items = b0 :: rest -> wf_layout ly items -> cbs = Z.of_nat (length items) -> l_numeric ly = true ->
  let lo := lower_index (l_mask ly) in let k := (upper_index (l_mask ly) - lo)%nat in
  (0 < k)%nat ->
  exists e, expand_positional ly items cbs = Ok e /\
    length (e_numbers e) = (k * length items)%nat /\
    forall j, (j < k * length items)%nat -> nth j (e_numbers e) 0 = Z.of_nat (lo + j) + 1.
Proof. exact numeric_renumber_contiguous. Qed.
Print Assumptions c12_numeric_renumber_contiguous.

(* named: "<key j>__<i>" holds parameter set i's value of key j, a key outside VALUES holds the
   FIRST parameter set's value; and no key is bound twice *)
Theorem c12_named_values : forall mask first items j oi v, In (j, oi, v) (expand_named mask first items) <->
  match oi with
  | None => nth_error mask j = Some false /\ nth_error first j = Some v
  | Some i => nth_error mask j = Some true /\ exists p, nth_error items i = Some p /\ nth_error p j = Some v
  end.
Proof. exact expand_named_spec. Qed.
Print Assumptions c12_named_values.
Theorem c12_named_keys_unique : forall mask first items j oi v v',
  In (j, oi, v) (expand_named mask first items) -> In (j, oi, v') (expand_named mask first items) -> v = v'.
Proof. exact expand_named_functional. Qed.
Print Assumptions c12_named_keys_unique.

(* ---------------- the merge ---------------- *)
(* whatever the database returned (lost, duplicated, foreign rows included): if the sentinel match
   succeeds, the n-th delivered row carries the n-th parameter set's sentinel and was fetched *)
Theorem c12_merge_sound_for_any_database : forall (P K R : Type) (key_eqb : K -> K -> bool),
  (forall a b, key_eqb a b = true <-> a = b) ->
  forall (sent_of_param : P -> K) (sent_of_row : R -> K) (sort_key : R -> Z) (c : config) (b : batch P) rows out,
  c_num_sentinel c <> 0 -> b_downgraded b = false -> c_implicit c = false ->
  merge_rows key_eqb sent_of_param sent_of_row sort_key c b rows = Ok out ->
  map sent_of_row out = map sent_of_param (b_items b) /\ incl out rows /\ length out = length (b_items b).
Proof. exact @merge_explicit_sound. Qed.
Print Assumptions c12_merge_sound_for_any_database.

(* the rowcount guard and the KeyError guard fire exactly as written *)
Theorem c12_rowcount_guard : forall (P K R : Type) (key_eqb : K -> K -> bool)
  (sent_of_param : P -> K) (sent_of_row : R -> K) (sort_key : R -> Z) (c : config) (b : batch P) rows,
  c_num_sentinel c <> 0 -> b_downgraded b = false -> c_implicit c = false -> c_has_keys c = true ->
  dict_len key_eqb sent_of_row rows <> length (b_items b) ->
  merge_rows key_eqb sent_of_param sent_of_row sort_key c b rows = Raise RowCountMismatch.
Proof. exact @merge_rowcount_guard. Qed.
Print Assumptions c12_rowcount_guard.
Theorem c12_keyerror_guard : forall (P K R : Type) (key_eqb : K -> K -> bool),
  (forall a b, key_eqb a b = true <-> a = b) ->
  forall (sent_of_param : P -> K) (sent_of_row : R -> K) (sort_key : R -> Z) (c : config) (b : batch P) rows p,
  c_num_sentinel c <> 0 -> b_downgraded b = false -> c_implicit c = false -> c_has_keys c = true ->
  dict_len key_eqb sent_of_row rows = length (b_items b) -> In p (b_items b) ->
  (forall r, In r rows -> sent_of_row r <> sent_of_param p) ->
  merge_rows key_eqb sent_of_param sent_of_row sort_key c b rows = Raise SentinelKeyError.
Proof. exact @merge_keyerror_guard. Qed.
Print Assumptions c12_keyerror_guard.

(* the implicit-sentinel sort puts any permutation of strictly increasing rows back in order *)
Theorem c12_implicit_sort_restores : forall (R : Type) (sort_key : R -> Z) (target rows : list R),
  StronglySorted (fun a b => sort_key a < sort_key b) target -> Permutation target rows ->
  sort_rows sort_key rows = target.
Proof. exact @sort_rows_restores. Qed.
Print Assumptions c12_implicit_sort_restores.

(* ---------------- the property ---------------- *)
(* RETURNING with sort_by_parameter_order: for EVERY row count, EVERY page size >= 1, EVERY mode,
   paramstyle and sentinel configuration (none - then the mode decision falls back to one row per
   statement -, client-side single or composite, implicit autoincrement) and EVERY order in which
   the database returns the rows of each statement, the n-th row of the result is the row of the
   n-th parameter set, and every parameter set was sent exactly once.
   Guard [ext_guard]: row-at-a-time mode (every statement carries one parameter set: e.g. an upsert
   whose SET clause holds a bound parameter), or the parameter sets agree on the bound parameters
   that are not inside VALUES (trivially so when there are none) - see c12_sorted_returning_refuted. *)
Theorem c12_sorted_returning_guarded : forall (P K R X : Type) (key_eqb : K -> K -> bool),
  (forall a b, key_eqb a b = true <-> a = b) ->
  forall (sent_of_param : P -> K) (sent_of_row : R -> K) (sort_key : R -> Z) (ext : P -> X)
         (fetch : nat -> option X -> list P -> list R) (row_of : option X -> P -> R),
  (forall k x items, Permutation (map (row_of x) items) (fetch k x items)) ->
  forall (c : config) (ps : list P),
  1 <= c_batch_size c -> clamp_pre c -> wf_config c ->
  c_is_returning c = true -> c_imv_sbo c = true -> result_columns (c_flags c) = true ->
  sentinel_hyp sent_of_param sent_of_row sort_key row_of c ps ->
  ext_guard ext c ps ->
  o_result (execute key_eqb sent_of_param sent_of_row sort_key ext fetch c ps)
    = Ok (map (fun p => row_of (Some (ext p)) p) ps) /\
  concat (map b_items (o_executed (execute key_eqb sent_of_param sent_of_row sort_key ext fetch c ps))) = ps.
Proof. exact @execute_sorted_guarded. Qed.
Print Assumptions c12_sorted_returning_guarded.

(* without the guard: the rows still come back in parameter order, but each is computed with the
   non-VALUES parameters of the parameter set at the head of its batch (positional paramstyles) or
   of the first parameter set of the whole call (named) *)
Theorem c12_sorted_returning_general : forall (P K R X : Type) (key_eqb : K -> K -> bool),
  (forall a b, key_eqb a b = true <-> a = b) ->
  forall (sent_of_param : P -> K) (sent_of_row : R -> K) (sort_key : R -> Z) (ext : P -> X)
         (fetch : nat -> option X -> list P -> list R) (row_of : option X -> P -> R),
  (forall k x items, Permutation (map (row_of x) items) (fetch k x items)) ->
  forall (c : config) (ps : list P),
  1 <= c_batch_size c -> clamp_pre c -> wf_config c ->
  c_is_returning c = true -> c_imv_sbo c = true -> result_columns (c_flags c) = true ->
  sentinel_hyp sent_of_param sent_of_row sort_key row_of c ps ->
  exists bl, plan c ps = Ok bl /\ concat (map b_items bl) = ps /\
    execute key_eqb sent_of_param sent_of_row sort_key ext fetch c ps
    = mkOutcome bl (Ok (concat (map (fun b => map (row_of (stmt_ext ext c ps b)) (b_items b)) bl))).
Proof. exact @execute_sorted_general. Qed.
Print Assumptions c12_sorted_returning_general.

(* finding C12-nonvalues-bind: three parameter sets with per-row values for a bound parameter of the
   RETURNING expression, page size 2: every hypothesis of the guarded theorem but the guard holds,
   and the second returned row is not the row of the second parameter set *)
Theorem c12_sorted_returning_refuted :
  exists (c : config) (mask : list bool) (rowspec : list (list Z)) (ps : list param),
    (forall k x items, Permutation (map (db_row rowspec x) items) (fetch_db rowspec [] [] k x items)) /\
    1 <= c_batch_size c /\ clamp_pre c /\ wf_config c /\ c_is_returning c = true /\ c_imv_sbo c = true /\
    result_columns (c_flags c) = true /\
    sentinel_hyp (sent_of_param [0%nat]) (sent_of_row 1) sort_key (db_row rowspec) c ps /\
    exists rows,
      o_result (execute list_eqb (sent_of_param [0%nat]) (sent_of_row 1) sort_key (ext_of mask)
                        (fetch_db rowspec [] []) c ps) = Ok rows /\
      rows <> map (fun p => db_row rowspec (Some (ext_of mask p)) p) ps.
Proof. exact sorted_returning_refuted. Qed.
Print Assumptions c12_sorted_returning_refuted.

(* RETURNING without sentinel columns (sort_by_parameter_order off): exactly one row per parameter
   set, in some order *)
Theorem c12_unsorted_one_row_per_param : forall (P K R X : Type) (key_eqb : K -> K -> bool)
    (sent_of_param : P -> K) (sent_of_row : R -> K) (sort_key : R -> Z) (ext : P -> X)
    (fetch : nat -> option X -> list P -> list R) (row_of : option X -> P -> R),
  (forall k x items, Permutation (map (row_of x) items) (fetch k x items)) ->
  forall (c : config) (ps : list P),
  1 <= c_batch_size c -> clamp_pre c -> c_is_returning c = true -> c_num_sentinel c = 0 -> ext_guard ext c ps ->
  exists rows, o_result (execute key_eqb sent_of_param sent_of_row sort_key ext fetch c ps) = Ok rows /\
    Permutation (map (fun p => row_of (Some (ext p)) p) ps) rows /\
    concat (map b_items (o_executed (execute key_eqb sent_of_param sent_of_row sort_key ext fetch c ps))) = ps.
Proof. exact @execute_unsorted_perm. Qed.
Print Assumptions c12_unsorted_one_row_per_param.

(* ---------------- ORM bulk INSERT (orm/persistence.py _emit_insert_statements) ---------------- *)
(* the records are executed in runs of equal key sets: the runs concatenate to the records *)
Theorem c12_orm_groups_partition : forall (A K : Type) (key_eqb : K -> K -> bool) (key : A -> K) (l : list A),
  concat (group_by key_eqb key l) = l /\ Forall (fun g => g <> []) (group_by key_eqb key l).
Proof. intros A K key_eqb key l. exact (conj (group_by_concat key_eqb key l) (group_by_nonempty key_eqb key l)). Qed.
Print Assumptions c12_orm_groups_partition.

(* if every group's executemany delivers its rows in parameter order (c12_sorted_returning_guarded),
   the spliced result is in parameter order for every sequence of key sets (None = no record) *)
Theorem c12_orm_bulk_in_parameter_order : forall (A K R : Type) (key_eqb : K -> K -> bool) (key : A -> K)
    (exec_group : list A -> list R) (row_of : A -> R) (records : list A),
  (forall g, In g (group_by key_eqb key records) -> exec_group g = map row_of g) ->
  orm_bulk_insert key_eqb key exec_group records
  = match records with [] => None | _ :: _ => Some (map row_of records) end.
Proof. exact @orm_bulk_in_parameter_order. Qed.
Print Assumptions c12_orm_bulk_in_parameter_order.

(* without sort_by_parameter_order: one row per record *)
Theorem c12_orm_bulk_one_row_per_record : forall (A K R : Type) (key_eqb : K -> K -> bool) (key : A -> K)
    (exec_group : list A -> list R) (row_of : A -> R) (records : list A) (rows : list R),
  (forall g, In g (group_by key_eqb key records) -> Permutation (map row_of g) (exec_group g)) ->
  orm_bulk_insert key_eqb key exec_group records = Some rows ->
  Permutation (map row_of records) rows.
Proof. exact @orm_bulk_one_row_per_record. Qed.
Print Assumptions c12_orm_bulk_one_row_per_record.

(* key sets a a b c c a: four executemany calls, rows a1 a2 b1 c1 c2 a3 *)
Example c12_ex_orm :
  group_by Z.eqb (fun r : orm_record => fst (snd r)) (orm_index 0 [1; 1; 0; 3; 3; 1] [11; 12; 21; 31; 32; 13])
  = [[(0%nat, (1, 11)); (1%nat, (1, 12))]; [(2%nat, (0, 21))]; [(3%nat, (3, 31)); (4%nat, (3, 32))]; [(5%nat, (1, 13))]]
  /\ orm_bulk_insert Z.eqb (fun r : orm_record => fst (snd r)) (orm_exec true) (orm_index 0 [1; 1; 0; 3; 3; 1] [11; 12; 21; 31; 32; 13])
  = Some [[1; 11]; [2; 12]; [3; 21]; [4; 31]; [5; 32]; [6; 13]].
Proof. vm_compute. split; reflexivity. Qed.

(* ---------------- the hypotheses are satisfiable ---------------- *)
(* the concrete database used by the correspondence check (rows of each statement sorted by
   arbitrary keys) satisfies the database hypothesis *)
Example c12_ex_database : forall rowspec keys k x items,
  Permutation (map (db_row rowspec x) items) (fetch_db rowspec keys [] k x items).
Proof. exact fetch_db_perm. Qed.
Example c12_ex_key_eqb : forall a b, list_eqb a b = true <-> a = b.
Proof. exact list_eqb_spec. Qed.

(* 5 parameter sets, page size 2, client-side integer key as sentinel, every statement's rows
   returned in reverse: three statements 2+2+1, rows back in parameter order *)
Definition ex_cfg (nsc : Z) (implicit has_keys : bool) :=
  mkConfig (mkFlags false true true true false false false false) 2 32700 2 2 2 true true nsc implicit has_keys false.
Definition ex_ps : list param :=
  [(0%nat, [7; 100]); (1%nat, [3; 101]); (2%nat, [9; 102]); (3%nat, [1; 103]); (4%nat, [5; 104])].
Example c12_ex_explicit :
  let out := execute list_eqb (sent_of_param [0%nat]) (sent_of_row 1) sort_key (ext_of [true; true])
                     (fetch_db [[1; 0]; [1; 1]; [1; 0]] [5; 4; 3; 2; 1] []) (ex_cfg 1 false true) ex_ps in
  o_result out = Ok [[7; 100; 7]; [3; 101; 3]; [9; 102; 9]; [1; 103; 1]; [5; 104; 5]] /\
  map (fun b => length (b_items b)) (o_executed out) = [2; 2; 1]%nat /\
  fetch_db [[1; 0]; [1; 1]; [1; 0]] [5; 4; 3; 2; 1] [] 0 None (firstn 2 ex_ps) = [[3; 101; 3]; [7; 100; 7]].
Proof. vm_compute. repeat split; reflexivity. Qed.
(* the same with an autoincrement key and the implicit sentinel sort *)
Example c12_ex_implicit :
  o_result (execute list_eqb (sent_of_param []) (sent_of_row 1) sort_key (ext_of [true; true])
                    (fetch_db [[0]; [1; 1]; [0]] [5; 4; 3; 2; 1] []) (ex_cfg 1 true false) ex_ps)
  = Ok [[1; 100; 1]; [2; 101; 2]; [3; 102; 3]; [4; 103; 4]; [5; 104; 5]].
Proof. vm_compute. reflexivity. Qed.
(* formerly finding C12-omitted-pk-assert: an omitted non-autoincrement integer key on SQLite.  Since
   commit 56a4cbe the compiler reports no sentinel columns for it (sentinel_columns None, 0 sentinel
   columns), the mode decision downgrades to one statement per parameter set and the rows come back
   in parameter order.  (Sentinel columns without client-side values and without implicit support -
   the configuration [sentinel_hyp] excludes - are no longer produced by the compiler.) *)
Example c12_ex_omitted_pk_downgraded :
  let c := mkConfig (mkFlags false true true true true false false false) 1000 32700 1 1 1 true true 0 false false false in
  let out := execute list_eqb (sent_of_param []) (sent_of_row 0) sort_key (ext_of [true])
                     (fetch_db [[0]; [1; 0]] [3; 2; 1] []) c [(0%nat, [100]); (1%nat, [101]); (2%nat, [102])] in
  decide_mode (c_sbo c) (c_flags c) = (true, true) /\
  o_result out = Ok [[1; 100]; [2; 101]; [3; 102]] /\ length (o_executed out) = 3%nat.
Proof. vm_compute. repeat split; reflexivity. Qed.
(* row count 0: no statement, no row *)
Example c12_ex_empty :
  execute list_eqb (sent_of_param [0%nat]) (sent_of_row 1) sort_key (ext_of [true; true])
          (fetch_db [[1; 0]; [1; 1]; [1; 0]] [] []) (ex_cfg 1 false true) []
  = mkOutcome [] (Ok []).
Proof. vm_compute. reflexivity. Qed.
(* a lost row trips the rowcount guard, a foreign sentinel the KeyError guard *)
Example c12_ex_guards :
  o_result (execute list_eqb (sent_of_param [0%nat]) (sent_of_row 1) sort_key (ext_of [true; true])
                    (fetch_db [[1; 0]; [1; 1]; [1; 0]] [] [1; 3; 0]) (ex_cfg 1 false true) ex_ps) = Raise RowCountMismatch /\
  o_result (execute list_eqb (sent_of_param [0%nat]) (sent_of_row 1) sort_key (ext_of [true; true])
                    (fetch_db [[1; 0]; [1; 1]; [1; 0]] [] [2; 3; 77]) (ex_cfg 1 false true) ex_ps) = Raise SentinelKeyError.
Proof. vm_compute. split; reflexivity. Qed.
(* numeric paramstyle with one parameter left of VALUES: ($1 outside) VALUES ($2, $3), ($4, $5) *)
Example c12_ex_numeric :
  expand_positional (mkLayout [false; true; true] 2 true false) [[50; 7; 100]; [60; 3; 101]] 2
  = Ok (mkExpanded [50; 7; 100; 3; 101] 2 [2; 3; 4; 5] []).
Proof. vm_compute. reflexivity. Qed.
Example c12_ex_wf_layout : wf_layout (mkLayout [false; true; true] 2 true false) [[50; 7; 100]; [60; 3; 101]].
Proof. split; [repeat constructor|reflexivity]. Qed.
(* the guard of the property theorem holds, e.g., whenever nothing is bound outside VALUES *)
Example c12_ex_ext_guard : ext_guard (ext_of [true; true]) (ex_cfg 1 false true) ex_ps.
Proof. right. intros p q _ _. unfold ext_of. destruct p as [i [|a [|b t]]], q as [j [|a' [|b' t']]]; reflexivity. Qed.
(* an upsert whose SET clause holds a per-row bound parameter runs row-at-a-time: every row is
   computed with its own SET value (rows [id; new value]), here for rows that all existed before *)
Example c12_ex_upsert_rowmode :
  let c := mkConfig (mkFlags false true true true true true false true) 1000 32700 3 2 3 true false 0 false false false in
  fst (decide_mode (c_sbo c) (c_flags c)) = true /\
  o_result (execute list_eqb (sent_of_param []) (sent_of_row 0) sort_key (ext_of [true; true; false])
                    (fetch_db [[1; 0]; [4]] [] []) c [(0%nat, [7; 100; 41]); (1%nat, [3; 101; 42]); (2%nat, [9; 102; 43])])
  = Ok [[7; 41]; [3; 42]; [9; 43]].
Proof. vm_compute. split; reflexivity. Qed.
Example c12_ex_sentinel_hyp :
  sentinel_hyp (sent_of_param [0%nat]) (sent_of_row 1) sort_key (db_row [[1; 0]; [1; 1]; [1; 0]]) (ex_cfg 1 false true) ex_ps.
Proof. right. left. repeat split. cbn. repeat constructor; cbn; intuition discriminate. Qed.
(* (the division of the clamp has no guard of its own; a batched statement always has >= 1 VALUES element) *)
Example c12_ex_clamp_zero_elements : clamp 1000 32700 3 0 = Raise ZeroDivisionError.
Proof. reflexivity. Qed.
