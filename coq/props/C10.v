(* C10 - Result objects deliver exactly the underlying rows under any access pattern.
   Statements only; every proof is [exact <lemma>].

   [run_impl strategy w rows ops]  the Gallina transcription of CursorResult (CursorFetchStrategy,
       BufferedRowCursorFetchStrategy, FullyBufferedCursorFetchStrategy) / IteratorResult with Result,
       ScalarResult, MappingResult, the memoised row getters, unique, columns, yield_per, close, freeze,
       run on an ARBITRARY list of calls; one observation (return value or exception, result.closed) per call.
   [run_spec w rows ops]  the list model: remaining rows + seen-sets.
   [guard]  excludes exactly two defects of the implementation (D1, D2, each refuted below) and sizes < 1.
            (A third one, stale memoised getters after ScalarResult/MappingResult.unique(), was repaired.) *)
From Coq Require Import List ZArith Bool Arith.
Import ListNotations.
From SAV.engine Require Import ResultModel ResultSpec ResultFetchProofs ResultViewProofs ResultOnlyOneProofs
  ResultRefine ResultCorollaries ResultRefuted.

(* ---- the fetch strategies refine a plain list ([remaining] = _rowbuffer ++ cursor), whatever the buffer
        sizes and growth factor are ---- *)
Theorem c10_strategy_fetchone_refines : forall hard f, hardc f = false ->
  match remaining f with
  | [] => exists f', fetchone_impl hard f = (f', Ok None) /\ remaining f' = [] /\ fwf f' /\
                     hardc f' = (hard && negb (softc f))
  | r :: t => exists f', fetchone_impl hard f = (f', Ok (Some r)) /\ remaining f' = t /\
                         hardc f' = false /\ softc f' = false
  end.
Proof. exact fetchone_open. Qed.
Print Assumptions c10_strategy_fetchone_refines.

Theorem c10_strategy_fetchmany_refines : forall n f, hardc f = false -> 1 <= n ->
  exists f', fetchmany_impl (Some n) f = (f', Ok (firstn n (remaining f))) /\
             remaining f' = skipn n (remaining f) /\ hardc f' = false.
Proof. exact fetchmany_open. Qed.
Print Assumptions c10_strategy_fetchmany_refines.

Theorem c10_strategy_fetchall_refines : forall f, hardc f = false ->
  exists f', fetchall_impl f = (f', Ok (remaining f)) /\ remaining f' = [] /\ hardc f' = false.
Proof. exact fetchall_open. Qed.
Print Assumptions c10_strategy_fetchall_refines.

(* the uniquing fetchmany loop (re-fetching num - len(collect) rows) delivers the first n new rows and
   reads no row beyond them *)
Theorem c10_manyrows_refetch_loop : forall cu ypv c n f h d r h',
  hardc f = false -> 1 <= n -> u_ok h cu -> adeliver cu c n (remaining f) h = (d, r, h') ->
  exists f', manyrows cu ypv c (Some n) f h = (f', h', Ok d) /\ remaining f' = r /\ hardc f' = false.
Proof. exact manyrows_some_ok. Qed.
Print Assumptions c10_manyrows_refetch_loop.

(* ---- one call: same observation, related states ---- *)
Theorem c10_step_refines : forall i s o, R i s -> op_ok i o = true ->
  snd (istep i o) = snd (sstep s o) /\ R (fst (istep i o)) (fst (sstep s o)).
Proof. exact step_sim. Qed.
Print Assumptions c10_step_refines.

(* ---- MAIN: any sequence of calls, any strategy, any rows ---- *)
Theorem c10_all_sequences_guarded : forall strategy w rows ops,
  guard strategy w rows ops = true -> run_impl strategy w rows ops = run_spec w rows ops.
Proof. exact all_sequences_guarded. Qed.
Print Assumptions c10_all_sequences_guarded.

(* the unguarded statement is false for the code as it is *)
Theorem c10_all_sequences_refuted : exists strategy w rows ops,
  run_impl strategy w rows ops <> run_spec w rows ops.
Proof. exact all_sequences_refuted. Qed.
Print Assumptions c10_all_sequences_refuted.

(* D1 *)
Theorem c10_only_one_row_ignores_seen_refuted :
  run_impl StDirect 2 rows3 [Unique KRow; FetchOne; OnlyOne First] =
    [(OUnit, false); (OItem (IRow r20), false); (OItem (IRow r20), true)] /\
  run_spec 2 rows3 [Unique KRow; FetchOne; OnlyOne First] =
    [(OUnit, false); (OItem (IRow r20), false); (OItem (IRow r21), true)].
Proof. exact only_one_row_ignores_seen. Qed.
Print Assumptions c10_only_one_row_ignores_seen_refuted.

Theorem c10_one_or_none_spurious_multiple_refuted :
  run_impl StDirect 2 rows3 [Unique KRow; FetchOne; OnlyOne OneOrNone] =
    [(OUnit, false); (OItem (IRow r20), false); (OErr MultipleResultsFound, true)] /\
  run_spec 2 rows3 [Unique KRow; FetchOne; OnlyOne OneOrNone] =
    [(OUnit, false); (OItem (IRow r20), false); (OItem (IRow r21), true)].
Proof. exact one_or_none_spurious_multiple. Qed.
Print Assumptions c10_one_or_none_spurious_multiple_refuted.

(* D2 *)
Theorem c10_only_one_row_on_exhausted_cursor_not_closed_refuted :
  run_impl StDirect 1 [[VI 1]] [All; OnlyOne First; FetchOne] =
    [(OItems [IRow [VI 1]], false); (ONoRow, false); (ONoRow, false)] /\
  run_spec 1 [[VI 1]] [All; OnlyOne First; FetchOne] =
    [(OItems [IRow [VI 1]], false); (ONoRow, true); (OErr ResourceClosed, true)] /\
  run_impl StIter 1 [[VI 1]] [All; OnlyOne First; FetchOne] = run_spec 1 [[VI 1]] [All; OnlyOne First; FetchOne].
Proof. exact only_one_row_on_exhausted_cursor_not_closed. Qed.
Print Assumptions c10_only_one_row_on_exhausted_cursor_not_closed_refuted.

(* formerly D3, repaired by 386c857 (ScalarResult/MappingResult.unique are @_generative): unique() after a
   fetch on a scalars() view is honoured by every getter *)
Example c10_ex_filter_unique_after_fetch_honoured :
  run_impl StDirect 1 [[VI 2]; [VI 2]; [VI 2]; [VI 2]] [Scalars 0; Next; Unique KRow; Next; Next; FetchMany (Some 2)] =
    [(OUnit, false); (OItem (IScalar (VI 2)), false); (OUnit, false);
     (OItem (IScalar (VI 2)), false); (OStop, false); (OItems [], false)] /\
  run_spec 1 [[VI 2]; [VI 2]; [VI 2]; [VI 2]] [Scalars 0; Next; Unique KRow; Next; Next; FetchMany (Some 2)] =
    [(OUnit, false); (OItem (IScalar (VI 2)), false); (OUnit, false);
     (OItem (IScalar (VI 2)), false); (OStop, false); (OItems [], false)].
Proof. exact filter_unique_after_fetch_honoured. Qed.

(* fuel exhaustion of the model's loops is unreachable *)
Theorem c10_fuel_suffices : forall strategy w rows ops,
  guard strategy w rows ops = true -> ~ In OFuel (map fst (run_impl strategy w rows ops)).
Proof. exact fuel_suffices. Qed.
Print Assumptions c10_fuel_suffices.

(* ---- corollaries: any mix of fetchone/next/iteration/fetchmany/partitions, then all() ---- *)
Theorem c10_no_row_lost_or_duplicated : forall strategy w rows ops,
  forallb plain_op ops = true -> Forall (fun r => length r = w) rows ->
  delivered (run_impl strategy w rows (ops ++ [All])) = rows.
Proof. exact no_row_lost_or_duplicated. Qed.
Print Assumptions c10_no_row_lost_or_duplicated.

Theorem c10_unique_delivers_first_occurrences : forall strategy w rows k ops,
  forallb plain_op ops = true -> Forall (fun r => length r = w) rows ->
  delivered (run_impl strategy w rows (Unique k :: ops ++ [All])) = dedup k rows.
Proof. exact unique_delivers_first_occurrences. Qed.
Print Assumptions c10_unique_delivers_first_occurrences.

(* [dedup]: every key represented, only input rows, no key twice *)
Theorem c10_dedup_complete : forall k rows p,
  In p rows -> mem (key_of k p) (map (key_of k) (dedup k rows)) = true.
Proof. exact dedup_complete. Qed.
Print Assumptions c10_dedup_complete.
Theorem c10_dedup_incl : forall k rows p, In p (dedup k rows) -> In p rows.
Proof. exact dedup_incl. Qed.
Print Assumptions c10_dedup_incl.
Theorem c10_dedup_nodup : forall k rows l1 p l2,
  dedup k rows = l1 ++ p :: l2 -> mem (key_of k p) (map (key_of k) l1) = false.
Proof. exact dedup_nodup. Qed.
Print Assumptions c10_dedup_nodup.

(* ---- non-vacuity: the guard rejects the defect witnesses and accepts their neighbours ---- *)
Example c10_ex_guard_rejects :
  guard StDirect 2 rows3 [Unique KRow; FetchOne; OnlyOne First] = false /\
  guard StDirect 2 rows3 [Unique KRow; FetchOne; OnlyOne OneOrNone] = false /\
  guard StDirect 1 [[VI 1]] [All; OnlyOne First; FetchOne] = false /\
  guard (StBuffered 2) 1 [[VI 1]] [FetchMany (Some 2); OnlyOne First; FetchOne] = false.
Proof. exact guard_rejects_witnesses. Qed.
Example c10_ex_guard_accepts :
  guard StDirect 2 rows3 [Unique KRow; OnlyOne One] = true /\
  guard StIter 1 [[VI 1]] [All; OnlyOne First; FetchOne] = true /\
  guard StDirect 1 [[VI 1]] [FetchMany (Some 2); OnlyOne First; FetchOne] = true /\
  guard StDirect 1 [[VI 2]; [VI 2]; [VI 2]] [Scalars 0; Unique KRow; Next; Next] = true /\
  guard StDirect 1 [[VI 2]; [VI 2]; [VI 2]; [VI 2]] [Scalars 0; Next; Unique KRow; Next; Next; FetchMany (Some 2)] = true /\
  guard StDirect 2 rows3 [FetchOne; Unique KRow; FetchOne; FetchOne] = true /\
  guard (StBuffered 2) 2 (rows3 ++ rows3 ++ [[VI 0; VI 0]])
    [YieldPer 3; Unique KFirst; FetchMany None; Mappings; Columns [1; 0]; Partitions (Some 1) 2; ToRoot;
     IterFor 2; Scalars 1; Unique KRow; FetchMany (Some 2); Freeze; OnlyOne ScalarOne; Close; All] = true.
Proof. exact guard_accepts_neighbours. Qed.
Example c10_ex_closure_depends_on_strategy :
  run_impl StDirect 1 [[VI 1]] [FetchMany (Some 2); OnlyOne First; FetchOne] =
  run_spec 1 [[VI 1]] [FetchMany (Some 2); OnlyOne First; FetchOne] /\
  run_impl (StBuffered 2) 1 [[VI 1]] [FetchMany (Some 2); OnlyOne First; FetchOne] <>
  run_spec 1 [[VI 1]] [FetchMany (Some 2); OnlyOne First; FetchOne].
Proof. exact closure_depends_on_strategy. Qed.
(* buffer growth 5 -> 7 (max_row_buffer 7) and a uniquing fetchmany that needs three cursor round trips *)
Example c10_ex_buffered_run :
  run_impl (StBuffered 7) 1 (map (fun z => [VI z]) [1; 1; 2; 2; 3; 3; 4; 4; 5]%Z)
    [Unique KRow; FetchMany (Some 3); Scalars 0; Next; All] =
  [(OUnit, false); (OItems [IRow [VI 1]; IRow [VI 2]; IRow [VI 3]], false); (OUnit, false);
   (OItem (IScalar (VI 4)), false); (OItems [IScalar (VI 5)], false)]%Z.
Proof. vm_compute; reflexivity. Qed.
(* outside the property: a size-less fetchmany() without yield_per returns the strategy's default chunk *)
Example c10_ex_sizeless_chunk_is_strategy_specific :
  run_impl StDirect 1 [[VI 1]; [VI 2]; [VI 3]] [FetchMany None] = [(OItems [IRow [VI 1]], false)] /\
  run_impl (StBuffered 5) 1 [[VI 1]; [VI 2]; [VI 3]] [FetchMany None] =
    [(OItems [IRow [VI 1]; IRow [VI 2]; IRow [VI 3]], false)] /\
  run_impl StDirect 1 [[VI 1]; [VI 1]; [VI 3]] [Unique KRow; FetchMany None] = [(OUnit, false); (OItems [IRow [VI 1]], false)] /\
  run_impl StDirect 1 [[VI 1]; [VI 2]; [VI 3]] [YieldPer 2; FetchMany None] =
    [(OUnit, false); (OItems [IRow [VI 1]; IRow [VI 2]], false)].
Proof. exact sizeless_chunk_is_strategy_specific. Qed.
