(* C36 - attribute history reports exactly the net change since load.
   Statements only; every proof is [exact <lemma>].  Model: orm/History.v; spec side: orm/HistorySpec.v. *)
From Coq Require Import List NArith Bool.
Import ListNotations.
From SAV.orm Require Import History HistorySpec HistoryProofs HistoryWf HistoryTrack HistoryFlush
  HistoryFail HistoryMain.
Open Scope N_scope.

(* the three History constructors implement the documented conventions ([net_diff_...] is the
   declarative difference; [Unknown] = the previous value was not loaded) *)
Theorem c36_constructors_follow_conventions :
  (forall p cur, from_scalar (CVal p) cur = net_diff_scalar (Known p) cur) /\
  (forall o cur, is_nostate o = true -> from_scalar o cur = net_diff_scalar Unknown cur) /\
  (forall p cur, from_object (CVal p) cur = net_diff_object (Known p) cur) /\
  (forall o cur, is_nostate o = true -> from_object o cur = net_diff_object Unknown cur) /\
  (forall o cur, from_collection (CVal o) cur = net_diff_coll (Known o) cur).
Proof.
  exact (conj from_scalar_known (conj from_scalar_unknown (conj from_object_known
          (conj from_object_unknown from_collection_known)))).
Qed.
Print Assumptions c36_constructors_follow_conventions.

(* history_is_net_diff: an attribute loaded with value v0 ([tracks_x]: present and clean, or already
   captured) reports, after ANY sequence of assignments, deletions, reads and collection mutations
   on any attribute (no flush / expire in between), exactly diff(v0, current) *)
Theorem c36_history_is_net_diff_scalar : forall k ops s0 v0,
  wf s0 -> tracks_x v0 s0 -> nosync ops = true ->
  let s := fst (run k ops s0) in hist_x s = net_diff_scalar (Known v0) (x_d s).
Proof. exact net_diff_scalar_run. Qed.
Print Assumptions c36_history_is_net_diff_scalar.

Theorem c36_history_is_net_diff_object : forall k ops s0 v0,
  tracks_b v0 s0 -> nosync ops = true ->
  let s := fst (run k ops s0) in hist_b s = net_diff_object (Known v0) (b_d s).
Proof. exact net_diff_object_run. Qed.
Print Assumptions c36_history_is_net_diff_object.

(* collections: identity-based difference against the collection as loaded, for list, set and dict *)
Theorem c36_history_is_net_diff_collection : forall k ops s0 l0,
  tracks_c l0 s0 -> nosync ops = true ->
  let s := fst (run k ops s0) in hist_c s = net_diff_coll (Known l0) (c_d s).
Proof. exact net_diff_coll_run. Qed.
Print Assumptions c36_history_is_net_diff_collection.

(* the missing-previous-value cases: the first change found the attribute unloaded (NO_VALUE /
   PASSIVE_NO_RESULT captured); nothing is ever reported deleted *)
Theorem c36_history_missing_previous_scalar : forall k ops s0,
  is_nostate (x_c s0) = true -> nosync ops = true ->
  let s := fst (run k ops s0) in hist_x s = net_diff_scalar Unknown (x_d s).
Proof. exact unknown_scalar_run. Qed.
Print Assumptions c36_history_missing_previous_scalar.

Theorem c36_history_missing_previous_object : forall k ops s0,
  b_c s0 = CNoResult -> nosync ops = true ->
  let s := fst (run k ops s0) in hist_b s = net_diff_object Unknown (b_d s).
Proof. exact unknown_object_nr_run. Qed.
Print Assumptions c36_history_missing_previous_object.

(* with NO_VALUE captured for a related object a deletion is reported as nothing at all; a later
   read may load the attribute, after which the difference is against the database value *)
Theorem c36_history_never_set_object : forall k ops s0,
  wf s0 -> b_c s0 = CNoValue -> nosync ops = true ->
  let s := fst (run k ops s0) in
  hist_b s = match b_d s with Some c => ([c], [], []) | None => blank end \/
  hist_b s = net_diff_object (Known (db_b s0)) (b_d s).
Proof. exact unknown_object_nv_run. Qed.
Print Assumptions c36_history_never_set_object.

(* set_back_restores_unchanged *)
Theorem c36_set_back_restores_unchanged_scalar : forall k ops s0 v0,
  wf s0 -> tracks_x v0 s0 -> nosync ops = true ->
  let s := fst (run k ops s0) in x_d s = Some v0 -> hist_x s = ([], [v0], []).
Proof. exact set_back_scalar. Qed.
Print Assumptions c36_set_back_restores_unchanged_scalar.

Theorem c36_set_back_restores_unchanged_object : forall k ops s0 v0,
  tracks_b v0 s0 -> nosync ops = true ->
  let s := fst (run k ops s0) in b_d s = Some v0 -> hist_b s = ([], [v0], []).
Proof. exact set_back_object. Qed.
Print Assumptions c36_set_back_restores_unchanged_object.

Theorem c36_set_back_restores_unchanged_collection : forall k ops s0 l0,
  tracks_c l0 s0 -> nosync ops = true ->
  let s := fst (run k ops s0) in
  forall l, c_d s = Some l -> same_set l l0 -> changes (hist_c s) = ([], []).
Proof. exact set_back_coll. Qed.
Print Assumptions c36_set_back_restores_unchanged_collection.

(* across synchronisation points: in every reachable state (any operations, flush and expire
   included, from a new / loaded / partially loaded object) a captured value IS the database value
   and a clean loaded value IS the database value - so "v0" above is the committed value *)
Theorem c36_committed_value_is_database_value : forall ok x0 b0 c0 k ops,
  let s := fst (run k ops (init ok x0 b0 c0)) in
  (forall p, x_c s = CVal p -> p = db_x s) /\ (forall v, x_c s = NoHist -> x_d s = Some v -> v = db_x s) /\
  (forall p, b_c s = CVal p -> p = db_b s) /\ (forall v, b_c s = NoHist -> b_d s = Some v -> v = db_b s) /\
  (forall l, c_c s = CVal l -> same_set l (db_c s)) /\
  (forall l, c_c s = NoHist -> c_d s = Some l -> same_set l (db_c s)).
Proof.
  intros ok x0 b0 c0 k ops s.
  exact (let W := wf_reachable ok x0 b0 c0 k ops in
         conj (wf_x_comm _ W) (conj (wf_x_clean _ W) (conj (wf_b_comm _ W) (conj (wf_b_clean _ W)
           (conj (wf_c_comm _ W) (wf_c_clean _ W)))))).
Qed.
Print Assumptions c36_committed_value_is_database_value.

(* flush (_commit_all) resets the history *)
Theorem c36_flush_resets_history : forall s s' r, wf s -> flush s = (s', Done r) ->
  modified s' = false /\
  changes (hist_x s') = ([], []) /\ changes (hist_b s') = ([], []) /\ changes (hist_c s') = ([], []).
Proof. exact flush_resets_history. Qed.
Print Assumptions c36_flush_resets_history.

(* a flush persists exactly the difference: afterwards the row holds the current value of every
   changed attribute ([exp_...], NULL for a deleted one) and the old value of every unchanged one.
   One defective region remains (a deleted collection attribute, below); the KeyError after
   [del a.x] was repaired in f879cdb and that guard clause is gone *)
Theorem c36_flush_persists_current_guarded : forall s, wf s -> flush_guard s = true ->
  exists s', flush s = (s', Done (RDb (exp_x s) (exp_b s) (db_c s'))) /\
             db_x s' = exp_x s /\ db_b s' = exp_b s /\ same_set (db_c s') (exp_c s).
Proof. exact flush_persists_guarded. Qed.
Print Assumptions c36_flush_persists_current_guarded.

Theorem c36_flush_never_raises : forall s, failed (snd (flush s)) = false.
Proof. exact flush_never_fails. Qed.
Print Assumptions c36_flush_never_raises.

(* still a defect: loaded collection [c1; c2], [del a.cs]: the attribute reads as empty, the history is
   blank and the flush leaves both rows attached *)
Theorem c36_flush_persists_current_refuted_del_collection :
  let s := fst (run KList [CDel] (init OLoaded 5 1 [1; 2])) in
  wf s /\ snd (c_get s) = Done (RColl None) /\ exp_c s = [] /\ hist_c s = blank /\
  snd (flush s) = Done (RDb 5 1 [1; 2]).
Proof. exact flush_after_coll_del_keeps_rows. Qed.
Print Assumptions c36_flush_persists_current_refuted_del_collection.

(* an operation that raises leaves the reported changes alone - for EVERY operation and state
   (the [del a.x] exception was repaired in 09dadee; with b1144f3 a failing list.remove fires no
   event any more, so the deleted-collection guard is not needed either) *)
Theorem c36_failed_op_keeps_history : forall k o s s' e,
  wf s -> step k o s = (s', Fail e) ->
  changes (hist_x s') = changes (hist_x s) /\ changes (hist_b s') = changes (hist_b s) /\
  changes (hist_c s') = changes (hist_c s).
Proof. exact failed_op_keeps_changes. Qed.
Print Assumptions c36_failed_op_keeps_history.

(* totality: the "unreachable" result of the model is never produced *)
Theorem c36_model_total : forall k ops s, wf s ->
  forall o, In o (snd (run k ops s)) -> o_res o <> Fail Unreachable.
Proof. exact run_never_unreachable. Qed.
Print Assumptions c36_model_total.

(* ---- non-vacuity ---- *)
Example c36_ex_tracked : let s0 := init OLoaded 5 1 [1; 2] in
  wf s0 /\ tracks_x 5 s0 /\ tracks_b 1 s0 /\ tracks_c [1; 2] s0.
Proof. split; [apply init_wf|]. cbn. unfold tracks_x, tracks_b, tracks_c. cbn. auto. Qed.
Example c36_ex_sequence :
  let ops := [SetX 6; CRem 1; SetB 2; GetX; CAdd 3; SetX 5; DelB; CAdd 1] in
  let s := fst (run KList ops (init OLoaded 5 1 [1; 2])) in
  nosync ops = true /\ hist_x s = ([], [5], []) /\ hist_b s = ([], [], [1]) /\
  hist_c s = ([3], [2; 1], []).
Proof. vm_compute. auto. Qed.
Example c36_ex_unknown :
  let s0 := fst (run KList [Expire; SetX 6; SetB 2] (init OLoaded 5 1 [])) in
  is_nostate (x_c s0) = true /\ b_c s0 = CNoResult /\
  hist_x (fst (run KList [DelX] s0)) = ([0], [], []).
Proof. vm_compute. auto. Qed.
Example c36_ex_never_set : b_c (fst (run KList [SetB 2] (init ONew 0 0 []))) = CNoValue.
Proof. vm_compute. reflexivity. Qed.
Example c36_ex_flush :
  let s := fst (run KSet [SetX 6; SetB 0; CReplace [2; 3]] (init OLoaded 5 1 [1; 2])) in
  flush_guard s = true /\ snd (flush s) = Done (RDb 6 0 [2; 3]).
Proof. vm_compute. auto. Qed.
(* keyed dict: pop / popitem / del d[k] / setdefault / update / clear as FIRST mutation after load *)
Example c36_ex_dict_first_mutation :
  let s0 := init OLoaded 5 1 [1; 2] in
  hist_c (fst (run KDict [CPop 1] s0)) = ([], [2], [1]) /\
  hist_c (fst (run KDict [CPopD 2] s0)) = ([], [1], [2]) /\
  hist_c (fst (run KDict [CPopItem] s0)) = ([], [1], [2]) /\
  hist_c (fst (run KDict [CDelKey 1] s0)) = ([], [2], [1]) /\
  hist_c (fst (run KDict [CSetDefault 4] s0)) = ([4], [1; 2], []) /\
  hist_c (fst (run KDict [CUpdate [3; 2]] s0)) = ([3], [2], [1]) /\
  hist_c (fst (run KDict [CClear] s0)) = ([], [], [1; 2]) /\
  snd (flush (fst (run KDict [CPop 1] s0))) = Done (RDb 5 1 [2]).
Proof. vm_compute. repeat split; reflexivity. Qed.
(* formerly refuted, now positive: a failed [del a.x] changes nothing; flush after [del a.x] writes NULL *)
Example c36_ex_failed_delete_keeps_state :
  let s := init ONew 0 0 [] in
  wf s /\ step KList DelX s = (s, Fail AttributeError) /\
  hist_x (fst (step KList DelX s)) = blank /\ modified (fst (step KList DelX s)) = false.
Proof. exact failed_del_keeps_state. Qed.
Example c36_ex_flush_after_del_persists_null :
  let s := fst (run KList [DelX] (init OLoaded 5 1 [1; 2])) in
  wf s /\ hist_x s = ([], [], [5]) /\ snd (flush s) = Done (RDb 0 1 [1; 2]).
Proof. exact flush_after_del_persists_null. Qed.
Example c36_ex_failed_op : snd (step KList (CRem 3) (init OLoaded 5 1 [1; 2])) = Fail ValueError.
Proof. vm_compute. reflexivity. Qed.
