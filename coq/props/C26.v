(* C26 - the pool recovers from any fault without leaking or reusing dead connections.
   Statements only; every proof is [exact <lemma>] or a closed computation on a witness.
   Model: engine/PoolSeq.v (sequential record/fairy life cycle of the five pool classes, every DBAPI
   call consulting a fault script). *)
From Coq Require Import List ZArith Bool Arith.
Import ListNotations.
From SAV.engine Require Import PoolSeq PoolSeqFrame PoolSeqLeakProofs PoolSeqAccProofs PoolSeqAcc2Proofs PoolSeqKernelProofs.
Open Scope Z_scope.

(* ---------------------------------------------------------------- no_leak
   every pool class, every configuration, every history of harness operations, every fault script
   (Exception and BaseException faults at connect, ping, checkout listener, rollback/commit and close):
   once every holder has dropped its reference no record is checked out - unless a BaseException
   escaped close() INSIDE the `except BaseException` handler of _finalize_fairy (its
   connection_record.invalidate(e)) while that ran as weakref callback (ghost taint_gc).  Since commits
   51edfd0 / 356c0aa / d50803e this is the only excluded region. *)
Theorem c26_no_leak : forall cf fl ops,
  let s := run cf ops (init cf fl) in
  taint_gc s = false -> all_released s -> inuse_count s = O.
Proof. exact no_leak. Qed.
Print Assumptions c26_no_leak.

(* the excluded region is real: the garbage collector finalises a dropped checkout, the rollback
   raises, the handler's invalidate() calls close(), which raises BaseException: the check-in (and
   everything else in the handler) is skipped and the interpreter swallows the error *)
Theorem c26_no_leak_refuted_baseexception_from_close_in_gc_handler : exists cf fl ops,
  let s := run cf ops (init cf fl) in
  all_released s /\ inuse_count s = 1%nat /\ checkedout cf s = 1.
Proof.
  exists (mkcfg KQueue 1 1 false (-1) false false RRollback true), [0; 1; 2], [(OConnect, 1); (ODel 0, 1)].
  vm_compute. repeat split; auto. intros h [H|[]]; auto.
Qed.
Print Assumptions c26_no_leak_refuted_baseexception_from_close_in_gc_handler.

(* fixed regions (former refutation witnesses): BaseException out of the rollback run by the weakref
   callback (51edfd0); two BaseExceptions out of close() during one checkout (d50803e) *)
Example c26_ex_fixed_leaks :
  (let cf := mkcfg KQueue 1 1 false (-1) false false RRollback true in
   let s := run cf [(OConnect, 1); (ODel 0, 1)] (init cf [0; 2]) in
   all_released s /\ inuse_count s = O /\ checkedout cf s = 0) /\
  (let cf := mkcfg KQueue 1 (-1) true 0 true false RCommit true in
   let s := run cf [(OConnect, 1)] (init cf [0; 2; 2]) in
   all_released s /\ inuse_count s = O /\ checkedout cf s = 0).
Proof. vm_compute. repeat split; auto; intros h []; auto; contradiction. Qed.

(* ---------------------------------------------------------------- overflow_consistent (QueuePool)
   on every path (connect failures, failing pre-ping / checkout listener, errors during reset and
   close, invalidation, detach, garbage-collected checkouts) the increments and decrements of the
   overflow counter balance: checkedout() is exactly the number of records in use, idle records never
   exceed pool_size, overflow stays within [-pool_size, max_overflow] - unless a BaseException has
   escaped a DBAPI close() ([taint] = taint_close || taint_gc; taint_gc is only ever set together with
   taint_close).  The guard is coarser than what still fails: the remaining defect is the one of the
   refutation below. *)
Theorem c26_overflow_consistent : forall cf, kind cf = KQueue -> 0 <= psize cf -> -1 <= maxov cf ->
  forall fl ops, let s := run cf ops (init cf fl) in
  taint s = false ->
  checkedout cf s = Z.of_nat (inuse_count s) /\
  (0 < psize cf -> checkedin s <= psize cf) /\
  - psize cf <= overflow s /\ (0 <= maxov cf -> overflow s <= maxov cf).
Proof. intros cf KQ PS MO. exact (overflow_consistent cf KQ PS MO). Qed.
Print Assumptions c26_overflow_consistent.

(* consequence of the two: all holders released => checkedout() = 0 *)
Theorem c26_no_leak_checkedout : forall cf, kind cf = KQueue -> 0 <= psize cf -> -1 <= maxov cf ->
  forall fl ops, let s := run cf ops (init cf fl) in
  taint s = false -> all_released s -> checkedout cf s = 0.
Proof. intros cf KQ PS MO. exact (no_leak_checkedout cf KQ PS MO). Qed.
Print Assumptions c26_no_leak_checkedout.

(* what still fails: the queue is full, so returning the second connection closes it; close() raises a
   BaseException out of connection_record.checkin() at the end of _finalize_fairy, the lines that detach
   the fairy are skipped; detach() through the stale fairy returns the (discarded) record again *)
Theorem c26_overflow_refuted_baseexception_from_close_at_checkin : exists cf fl ops,
  kind cf = KQueue /\ 0 <= psize cf /\ -1 <= maxov cf /\
  let s := run cf ops (init cf fl) in
  inuse_count s = O /\ checkedout cf s = -1.
Proof.
  exists (mkcfg KQueue 1 1 false (-1) false false RRollback true), [0; 0; 0; 0; 2],
    [(OConnect, 1); (OConnect, 1); (OClose 0, 1); (OClose 1, 1); (ODetach 1, 1)].
  vm_compute. repeat split; auto; try easy.
Qed.
Print Assumptions c26_overflow_refuted_baseexception_from_close_at_checkin.

(* fixed region (356c0aa): BaseException out of the rollback of an explicit close(), then detach() *)
Example c26_ex_fixed_stale_fairy :
  let cf := mkcfg KQueue 1 1 false (-1) false false RRollback true in
  let s := run cf [(OConnect, 1); (OClose 0, 1); (ODetach 0, 1)] (init cf [0; 2]) in
  taint s = false /\ inuse_count s = O /\ checkedout cf s = 0.
Proof. vm_compute. auto. Qed.

(* ---------------------------------------------------------------- no_dead_reuse
   PARTIAL: only the decision kernel is proved for all states: whenever get_connection hands back the
   connection the record already holds (no new DBAPI connection is made), none of the three staleness
   tests fired, i.e. it is not older than the pool's invalidation stamp, not soft-invalidated after its
   start, and within the recycle time.  Missing: the invariant that lifts this to whole histories (the
   record's start stamp is the connection's creation stamp; a closed connection is in no record; every
   pool-wide invalidation / soft invalidation leaves a stamp strictly greater than the start stamps of
   the connections it concerns under a strictly increasing clock) - see LEVEL_NOTE.  The refutation
   below shows the region where the full statement fails (equal time stamps). *)
Theorem c26_no_dead_reuse_kernel_partial : forall cf r s c s',
  get_connection cf r s = (Ok c, s') -> nconns s' = nconns s ->
  r_dbc s r = Some c /\ r_dbc s' r = Some c /\
  ~ (r_start s' r < inv_time s') /\ ~ (r_start s' r < r_soft s' r) /\
  (-1 < recycle cf -> clock s' - r_start s' r <= recycle cf).
Proof. exact get_connection_kernel. Qed.
Print Assumptions c26_no_dead_reuse_kernel_partial.

(* fixed region (d50803e; former refutation witness): the checkout listener raises InvalidatePoolError,
   the invalidation's close() raises BaseException; the next checkout no longer gets that connection *)
Example c26_ex_fixed_closed_connection_not_reused :
  let cf := mkcfg KQueue 2 0 false (-1) true true RRollback true in
  exists c s', step cf OConnect 1 (run cf [(OConnect, 1)] (init cf [0; 4; 2])) = (Ok (Z.of_nat c), s') /\
               c_nclose s' c = 0 /\ c_nclose s' 0 = 1.
Proof. eexists 1%nat. eexists. split; [vm_compute; reflexivity|vm_compute; auto]. Qed.

(* equal time stamps (the clock does not advance between the state changes): a soft-invalidated
   connection, and one older than a pool-wide invalidation, are handed out again - the weakness the
   comment in get_connection concedes *)
Theorem c26_equal_stamp_reuse_possible :
  (exists cf fl ops c s', tick cf = false /\
     step cf OConnect 1 (run cf ops (init cf fl)) = (Ok (Z.of_nat c), s') /\
     c_soft s' c = true /\ c_nclose s' c = 0) /\
  (exists cf fl ops c s', tick cf = false /\
     step cf OConnect 1 (run cf ops (init cf fl)) = (Ok (Z.of_nat c), s') /\
     c_mark s' c = true /\ c_nclose s' c = 0).
Proof.
  split.
  - exists (mkcfg KQueue 1 0 false (-1) false false RRollback false), [],
      [(OConnect, 1); (OInvalidate 0 true, 0); (OClose 0, 1)], 0%nat.
    eexists. split; [reflexivity|]. split; [vm_compute; reflexivity|]. split; vm_compute; reflexivity.
  - exists (mkcfg KQueue 2 0 false (-1) false false RRollback false), [],
      [(OConnect, 1); (OConnect, 0); (OClose 1, 0); (OPoolInvalidate 0, 0)], 1%nat.
    eexists. split; [reflexivity|]. split; [vm_compute; reflexivity|]. split; vm_compute; reflexivity.
Qed.
Print Assumptions c26_equal_stamp_reuse_possible.

(* StaticPool drops its record when it finds it soft-invalidated (or older than a pool invalidation)
   and never closes the connection the record still holds: open, not idle, not held *)
Theorem c26_ledger_refuted_staticpool : exists cf fl ops,
  kind cf = KStatic /\
  let s := run cf ops (init cf fl) in
  taint s = false /\ c_nclose s 0 = 0 /\ c_det s 0 = false /\
  (forall r, (r < nrecs s)%nat -> r_dbc s r = Some 0%nat -> static s <> Some r /\ r_fairy s r = None).
Proof.
  exists (mkcfg KStatic 1 0 false (-1) false false RRollback true), [],
    [(OConnect, 1); (OInvalidate 0 true, 1); (OClose 0, 1); (OConnect, 1)].
  split; [reflexivity|]. cbv zeta.
  split; [vm_compute; reflexivity|]. split; [vm_compute; reflexivity|]. split; [vm_compute; reflexivity|].
  intros r Hr Hd. destruct r as [|[|r]].
  - vm_compute. split; [discriminate|reflexivity].
  - vm_compute in Hd. discriminate.
  - vm_compute in Hr. exfalso. apply le_S_n, le_S_n in Hr. inversion Hr.
Qed.
Print Assumptions c26_ledger_refuted_staticpool.

(* ---------------------------------------------------------------- non-vacuity *)
(* an untainted history with faults at connect, reset, ping and the listener, every holder released *)
Example c26_ex_history :
  let cf := mkcfg KQueue 1 1 false 3 true true RRollback true in
  let s := run cf [(OConnect, 1); (OConnect, 1); (OClose 0, 5); (OConnect, 1); (ODel 1, 1); (OClose 2, 1); (ODel 0, 1); (ODel 2, 1)]
               (init cf [0; 3; 0; 0; 1; 0; 4; 0; 0; 1]) in
  taint s = false /\ all_released s /\ (nconns s = 4)%nat /\ checkedout cf s = 0.
Proof.
  vm_compute. repeat split; auto. intros h Hin.
  repeat (destruct Hin as [Hin|Hin]; [symmetry; exact Hin|]). destruct Hin.
Qed.
