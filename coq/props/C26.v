(* C26 - placeholder while the model is being tied to the code *)
From Coq Require Import List ZArith Bool.
Import ListNotations.
From SAV.engine Require Import PoolSeq.
Example c26_placeholder : kind (mkcfg KQueue 1 0 false (-1) false false RRollback true) = KQueue.
Proof. reflexivity. Qed.
