(* C16 - schema_translate_map renders the mapped schemas regardless of cache state.
   Statements only; every proof is [exact <lemma>] or a computation on a concrete witness.
   [quote] (IdentifierPreparer.quote) and [dflt] (dialect.default_schema_name) are universally
   quantified.  Guards (boolean, see sql/SchemaTr.v): marker_free - the SQL text around the schema
   prefixes does not contain "__[SCHEMA"; names_ok - no translatable schema is called "_none" or "";
   map_ok - the map has no key "_none"; force_ok - an explicit quoted_name(quote=...) flag only on schemas
   the map translates.  Each guard excludes a region where the implementation deviates (the _refuted
   theorems below give the witnesses). *)
From Coq Require Import List ZArith Bool.
Import ListNotations.
From SAV.sql Require Import SchemaTr SchemaTrScanProofs SchemaTrProofs SchemaTrHistProofs SchemaTrWitness.
Open Scope Z_scope.

(* translate_eq_direct: rendering the symbolic compilation with the map it was compiled for gives the
   SQL of the construct whose tables carry the translated schema names *)
Theorem c16_translate_eq_direct_guarded : forall quote dflt m s text,
  marker_free quote (has_none m) s = true -> names_ok s = true -> force_ok m s = true -> map_ok m = true ->
  compile_sym quote (has_none m) s = Ok text ->
  render_translates quote dflt (has_none m) m text = direct quote dflt m s.
Proof. exact render_sym_direct. Qed.
Print Assumptions c16_translate_eq_direct_guarded.

(* ... and with a compilation made when the None key was [inc]: the documented errors when the presence
   of the None key differs, the translated construct otherwise *)
Theorem c16_render_any_compilation_guarded : forall quote dflt inc m s text,
  marker_free quote inc s = true -> names_ok s = true -> force_ok m s = true -> map_ok m = true ->
  compile_sym quote inc s = Ok text ->
  render_translates quote dflt inc m text =
    if has_none m && negb inc then Err ENoneAdded
    else bind (direct_inc dflt inc m s) (fun s' => Ok (compile_plain quote s')).
Proof. exact render_sym_general. Qed.
Print Assumptions c16_render_any_compilation_guarded.

(* cache_history_transparent: in ANY history of executions, DDL executions, pre-executed defaults and
   evictions over one compiled cache, an execution of statement [sid] with map [m] yields what the
   specification says for the compilation that governs it: the first one with a non-empty map since the
   statement was last evicted ([gov_flag]) *)
Theorem c16_cache_history_transparent_guarded : forall quote dflt stmts,
  (forall sid, stmt_ok quote (stmts sid) = true) ->
  forall pre sid m post, op_ok stmts (Exec sid m) = true ->
  nth (length pre) (run_hist quote dflt stmts [] (pre ++ Exec sid m :: post)) None
  = Some (spec_exec quote dflt (gov_flag stmts pre sid m) m (stmts sid)).
Proof. exact history_exec. Qed.
Print Assumptions c16_cache_history_transparent_guarded.

(* when the maps used with the statement so far agree with [m] on the presence of the None key, the
   execution yields the directly translated construct, whatever the cache holds *)
Theorem c16_consistent_history_is_direct_guarded : forall quote dflt stmts,
  (forall sid, stmt_ok quote (stmts sid) = true) ->
  forall pre sid m post, op_ok stmts (Exec sid m) = true ->
  forallb (agrees sid (has_none m)) pre = true ->
  nth (length pre) (run_hist quote dflt stmts [] (pre ++ Exec sid m :: post)) None
  = Some (spec_exec quote dflt (has_none m) m (stmts sid)).
Proof. exact history_consistent. Qed.
Print Assumptions c16_consistent_history_is_direct_guarded.

Theorem c16_spec_consistent_is_direct : forall quote dflt m s, is_empty m = false -> bracketed s = false ->
  spec_exec quote dflt (has_none m) m s = direct quote dflt m s.
Proof. exact spec_exec_consistent. Qed.
Print Assumptions c16_spec_consistent_is_direct.

(* DDL is compiled on every execution: always the translated construct *)
Theorem c16_ddl_history_guarded : forall quote dflt stmts,
  (forall sid, stmt_ok quote (stmts sid) = true) ->
  forall pre sid m post, op_ok stmts (Ddl sid m) = true ->
  nth (length pre) (run_hist quote dflt stmts [] (pre ++ Ddl sid m :: post)) None
  = Some (spec_exec quote dflt (has_none m) m (stmts sid)).
Proof. exact history_ddl. Qed.
Print Assumptions c16_ddl_history_guarded.

(* bracket_names_rejected *)
Theorem c16_bracket_names_rejected : forall quote inc s,
  bracketed s = true <-> compile_sym quote inc s = Err EBracket.
Proof. exact bracket_rejected. Qed.
Print Assumptions c16_bracket_names_rejected.

(* the scanner: a token is replaced where it starts and the replacement is never rescanned *)
Theorem c16_scan_token : forall repl n r, n <> [] -> no_rb n = true ->
  scan repl (token n ++ r) = bind (repl n) (fun t => bind (scan repl r) (fun u => Ok (t ++ u))).
Proof. exact scan_token. Qed.
Print Assumptions c16_scan_token.
Theorem c16_scan_marker_free_text : forall repl t, occurs marker t = false -> scan repl t = Ok t.
Proof. exact scan_plain. Qed.
Print Assumptions c16_scan_marker_free_text.

(* an entry "_none" in a map that also has a None key is never consulted: the current None entry wins.
   (Before fix a436594 rendering wrote such an entry into the CALLER's dict; it is now made in a copy.) *)
Theorem c16_stale_alias_ignored : forall quote dflt d v name, has_none d = true ->
  replace quote dflt ((Some none_name, v) :: d) name = replace quote dflt d name.
Proof. exact stale_alias_ignored. Qed.
Print Assumptions c16_stale_alias_ignored.

(* ---- a None (falsy) target: the default schema is named explicitly; the documentation says
   "will render with no schema" ---- *)
Theorem c16_none_target_doc_refuted : exists quote dflt m s text,
  marker_free quote (has_none m) s = true /\ names_ok s = true /\ force_ok m s = true /\ map_ok m = true /\
  compile_sym quote (has_none m) s = Ok text /\
  render_translates quote dflt (has_none m) m text <> Ok (compile_plain quote (subst_doc m s)).
Proof. exists wq, wmain, w_to_none, w_one, w_txt0. vm_compute.
  repeat split; discriminate. Qed.
Print Assumptions c16_none_target_doc_refuted.
Theorem c16_none_target_doc_guarded : forall quote dflt m s, targets_truthy m = true ->
  direct quote dflt m s = Ok (compile_plain quote (subst_doc m s)).
Proof. exact direct_eq_doc. Qed.
Print Assumptions c16_none_target_doc_guarded.

(* ---- the defective regions excluded by the guards ---- *)
(* names_ok / map_ok: a schema called "_none" shares the token of the schema-less tables *)
Theorem c16_none_name_collision_refuted : exists quote dflt m s text,
  marker_free quote (has_none m) s = true /\ force_ok m s = true /\
  compile_sym quote (has_none m) s = Ok text /\
  render_translates quote dflt (has_none m) m text <> direct quote dflt m s.
Proof. exists wq, wmain, w_none_map, w_none_name, w_txt1.
  vm_compute. repeat split; discriminate. Qed.
Print Assumptions c16_none_name_collision_refuted.
(* map_ok: a key "_none" stands in for a removed None key instead of the documented error *)
Theorem c16_none_key_name_refuted : exists quote dflt stmts pre sid m post,
  (forall sid, stmt_ok quote (stmts sid) = true) /\ force_ok m (stmts sid) = true /\
  nth (length pre) (run_hist quote dflt stmts [] (pre ++ Exec sid m :: post)) None
  <> Some (spec_exec quote dflt (gov_flag stmts pre sid m) m (stmts sid)).
Proof. exists wq, wmain, w_stmts, [Exec 0 w_s1], 0%nat, w_key_none_name, [].
  split; [intros [|[|[|[|n]]]]; vm_compute; reflexivity|]. vm_compute. split; [reflexivity|discriminate]. Qed.
Print Assumptions c16_none_key_name_refuted.
(* marker_free: text that looks like a token is rewritten *)
Theorem c16_marker_in_text_refuted : exists quote dflt m s text,
  names_ok s = true /\ force_ok m s = true /\ map_ok m = true /\
  compile_sym quote (has_none m) s = Ok text /\
  render_translates quote dflt (has_none m) m text <> direct quote dflt m s.
Proof. exists wq, wmain, w_ab, w_marker, w_txt2.
  vm_compute. repeat split; discriminate. Qed.
Print Assumptions c16_marker_in_text_refuted.
(* force_ok: the quote flag of a schema the map does not mention is lost *)
Theorem c16_quote_flag_lost_refuted : exists quote dflt m s text,
  marker_free quote (has_none m) s = true /\ names_ok s = true /\ map_ok m = true /\
  compile_sym quote (has_none m) s = Ok text /\
  render_translates quote dflt (has_none m) m text <> direct quote dflt m s.
Proof. exists wq, wmain, w_xy, w_forced, w_txt0.
  vm_compute. repeat split; discriminate. Qed.
Print Assumptions c16_quote_flag_lost_refuted.

(* ---- a pre-executed SQL default (DefaultExecutionContext._exec_default_clause_element) is compiled with
   the map in effect (fix d3878ef) and rendered by _execute_scalar: it is emitted translated, whatever the
   cache holds for the parent statement; only the "None now present" check is the parent's ---- *)
Theorem c16_scalar_default_translated_guarded : forall quote dflt stmts,
  (forall sid, stmt_ok quote (stmts sid) = true) ->
  forall pre sid dsid m post, op_ok stmts (ScalarDefault sid dsid m) = true ->
  nth (length pre) (run_hist quote dflt stmts [] (pre ++ ScalarDefault sid dsid m :: post)) None
  = Some (spec_scalar_default quote dflt (gov_flag stmts pre sid m) m (stmts sid) (stmts dsid)).
Proof. exact history_scalar_default. Qed.
Print Assumptions c16_scalar_default_translated_guarded.
Theorem c16_untranslated_is_direct : forall quote dflt m s, untranslated m s = true ->
  direct quote dflt m s = Ok (compile_plain quote s).
Proof. exact direct_untranslated. Qed.
Print Assumptions c16_untranslated_is_direct.
(* formerly c16_scalar_default_refuted: the default's SELECT is now the directly translated construct *)
Example c16_ex_scalar_default_translated :
  nth 0 (run_hist wq wmain w_stmts [] [ScalarDefault 1 2 w_ab]) None = Some (direct wq wmain w_ab (w_stmts 2)) /\
  direct wq wmain w_ab (w_stmts 2) = Ok w_txt_default.
Proof. vm_compute. split; reflexivity. Qed.

(* ---- non-vacuity ---- *)
(* a chained map a -> b -> c does not cascade; the table() clause keeps its schema; None -> n *)
Example c16_ex_chain :
  stmt_ok wq w_join = true /\ force_ok w_chain w_join = true /\ map_ok w_chain = true /\
  compile_sym wq true w_join
    = Ok w_txt3 /\
  direct wq wmain w_chain w_join = Ok w_txt4.
Proof. vm_compute. repeat split; reflexivity. Qed.
(* a history: compile with {None: s1}, then a map without None (documented error), evict, again *)
Example c16_ex_history :
  run_hist wq wmain w_stmts [] [Exec 0 w_s1; Exec 0 w_ab; Exec 0 []; Evict [0%nat]; Exec 0 w_ab; Exec 0 w_s1;
                                 Ddl 0 w_s1; Exec 3 w_ab]
  = [Some (Ok w_txt5); Some (Err ENoneRemoved); Some (Ok w_txt6); None;
     Some (Ok w_txt6); Some (Err ENoneAdded); Some (Ok w_txt5);
     Some (Err EBracket)].
Proof. vm_compute. reflexivity. Qed.
Example c16_ex_bracketed : bracketed (w_stmts 3) = true.
Proof. vm_compute. reflexivity. Qed.
Example c16_ex_none_target : direct wq wmain w_to_none w_one = Ok w_txt7.
Proof. vm_compute. reflexivity. Qed.
