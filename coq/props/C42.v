(* C42 - polymorphic queries return each row as its most specific class.
   Statements only; every proof is [exact <lemma>].  Model: coq/orm/Poly.v. *)
From Coq Require Import List ZArith Bool Arith Permutation Sorted.
Import ListNotations.
From SAV.orm Require Import Poly PolyTree PolyStore PolyProofs.

(* the executable well-formedness check used by the correspondence implies the hypothesis of the theorems *)
Theorem c42_wf_hierb_ok : forall h, wf_hierb h = true -> wf_hier h.
Proof. exact wf_hierb_ok. Qed.
Print Assumptions c42_wf_hierb_ok.

(* For every hierarchy (any depth / width, any mix of single- and joined-table classes), every set of stored
   objects, every queried class and every with_polymorphic / selectin_polymorphic option: the query does not
   raise and returns exactly the objects of the queried subtree (multiset of primary keys), ordered by id. *)
Theorem c42_rows_exactly_subtree : forall h objs C o,
  wf_hier h -> wf_objs h objs -> C < length h ->
  exists res, exec h (store h objs) C o = Ok res /\
    Permutation (map o_pk res) (map s_pk (filter (fun s => isa h (s_cls s) C) objs)) /\
    StronglySorted Z.le (map o_pk res).
Proof. exact rows_exactly_subtree. Qed.
Print Assumptions c42_rows_exactly_subtree.

(* Whatever the tables contain: a returned object has the class that polymorphic_map assigns to the
   discriminator of its row, and that class is the queried class or one of its subclasses. *)
Theorem c42_most_specific_class : forall h d C o res, exec h d C o = Ok res ->
  forall x, In x res ->
  exists r dv, In r (tbl d 0) /\ rpk r = o_pk x /\ rdisc r = Some dv /\ pmap h dv = Some (o_cls x) /\
               (o_cls x = C \/ isa h (o_cls x) C = true).
Proof. exact most_specific_any_db. Qed.
Print Assumptions c42_most_specific_class.

(* Stored objects come back as the class they were stored as, and every attribute of that class (own and
   inherited) has the stored value - whether the query loaded it, an IN load did, or the access did. *)
Theorem c42_attributes_correct_under_any_option : forall h objs C o res,
  wf_hier h -> wf_objs h objs -> C < length h ->
  exec h (store h objs) C o = Ok res ->
  forall x, In x res -> exists s, In s objs /\ s_pk s = o_pk x /\ o_cls x = s_cls s /\
    ident h (o_cls x) = ident h (s_cls s) /\
    o_vals x = map (fun a => (a, s_val s a)) (path h (s_cls s)).
Proof. exact most_specific_class_stored. Qed.
Print Assumptions c42_attributes_correct_under_any_option.

(* what the options change is only when an attribute is loaded *)
Theorem c42_wp_star_loads_everything : forall h d C sel res,
  wf_hier h -> C < length h ->
  exec h d C {| o_wp := WpStar; o_sel := sel |} = Ok res ->
  forall x, In x res -> o_loaded x = path h (o_cls x).
Proof. exact wp_star_loads_everything. Qed.
Print Assumptions c42_wp_star_loads_everything.

Theorem c42_plain_query_loads_base_attributes : forall h d C res,
  exec h d C {| o_wp := WpNone; o_sel := [] |} = Ok res ->
  forall x, In x res -> o_loaded x = filter (fun a => isa h C a) (path h (o_cls x)).
Proof. exact plain_query_loads_base_attributes. Qed.
Print Assumptions c42_plain_query_loads_base_attributes.

(* a query raises only when a row of the root table has a discriminator that cannot be dispatched
   (NULL, unknown identity, or a class outside the queried subtree) *)
Theorem c42_raises_only_on_bad_discriminator : forall h d C o e, exec h d C o = Raise e ->
  exists r, In r (tbl d 0) /\ classify1 h C r = Raise e.
Proof. exact raises_only_on_bad_discriminator. Qed.
Print Assumptions c42_raises_only_on_bad_discriminator.

(* ---- non-vacuity ---- *)
(* root 0 (joined) <- 1 (joined) <- 2 (single onto t1) <- 3 (joined); 4 single-table child of the root *)
Definition ex_h : hier :=
  [ {| cparent := None;   cident := 10%Z; cjoined := true |};
    {| cparent := Some 0; cident := 11%Z; cjoined := true |};
    {| cparent := Some 1; cident := 12%Z; cjoined := false |};
    {| cparent := Some 2; cident := 13%Z; cjoined := true |};
    {| cparent := Some 0; cident := 14%Z; cjoined := false |} ].
Definition ex_objs : list sobj :=
  [ {| s_pk := 5%Z; s_cls := 3; s_val := fun a => Some (Z.of_nat a + 50)%Z |};
    {| s_pk := 2%Z; s_cls := 1; s_val := fun a => Some (Z.of_nat a + 20)%Z |};
    {| s_pk := 7%Z; s_cls := 4; s_val := fun _ => None |};
    {| s_pk := 3%Z; s_cls := 2; s_val := fun a => Some (Z.of_nat a + 30)%Z |} ].

Example c42_ex_wf : wf_hier ex_h /\ wf_objs ex_h ex_objs.
Proof.
  split; [apply wf_hierb_ok; vm_compute; reflexivity|]. split.
  - cbn. repeat constructor; cbn; intuition discriminate.
  - intros o [H|[H|[H|[H|[]]]]]; subst; cbn; repeat constructor.
Qed.

(* query of the root with selectin_polymorphic(C0, [C1]): the class-3 object (two levels below C1) is
   handed to the IN loader of C1 because rows of class 1 / 2 were processed before it *)
Example c42_ex_query :
  exec ex_h (store ex_h ex_objs) 0 {| o_wp := WpNone; o_sel := [1] |} =
  Ok [ {| o_pk := 2%Z; o_cls := 1; o_loaded := [0; 1]; o_vals := [(0, Some 20%Z); (1, Some 21%Z)] |};
       {| o_pk := 3%Z; o_cls := 2; o_loaded := [0; 1]; o_vals := [(0, Some 30%Z); (1, Some 31%Z); (2, Some 32%Z)] |};
       {| o_pk := 5%Z; o_cls := 3; o_loaded := [0; 1];
          o_vals := [(0, Some 50%Z); (1, Some 51%Z); (2, Some 52%Z); (3, Some 53%Z)] |};
       {| o_pk := 7%Z; o_cls := 4; o_loaded := [0]; o_vals := [(0, None); (4, None)] |} ].
Proof. vm_compute; reflexivity. Qed.

(* the eager set of selectin_polymorphic depends on the rows: without a class-1 / class-2 row before it the
   class-3 object is not handed to the IN loader of C1 (its attributes are still correct, loaded on access) *)
Example c42_ex_selectin_row_order :
  exec ex_h (store ex_h (filter (fun s => Z.ltb 4 (s_pk s)) ex_objs)) 0 {| o_wp := WpNone; o_sel := [1] |} =
  Ok [ {| o_pk := 5%Z; o_cls := 3; o_loaded := [0];
          o_vals := [(0, Some 50%Z); (1, Some 51%Z); (2, Some 52%Z); (3, Some 53%Z)] |};
       {| o_pk := 7%Z; o_cls := 4; o_loaded := [0]; o_vals := [(0, None); (4, None)] |} ].
Proof. vm_compute; reflexivity. Qed.

(* the error branches are reachable on tables that are not the image of stored objects *)
Example c42_ex_raises :
  exec ex_h [(0, [ {| rpk := 1%Z; rdisc := None; rvals := [] |} ])] 0 {| o_wp := WpNone; o_sel := [] |} = Raise EInvalidRequest /\
  exec ex_h [(0, [ {| rpk := 1%Z; rdisc := Some 99%Z; rvals := [] |} ])] 0 {| o_wp := WpStar; o_sel := [] |} = Raise EAssertion /\
  exec ex_h [(0, [ {| rpk := 1%Z; rdisc := Some 14%Z; rvals := [] |} ]); (1, [ {| rpk := 1%Z; rdisc := None; rvals := [] |} ])]
       1 {| o_wp := WpNone; o_sel := [] |} = Raise EInvalidRequest.
Proof. repeat split; vm_compute; reflexivity. Qed.
