(* C48 - pending changes survive the application dropping its references.
   Statements only; every proof is [exact <lemma>] / a one-line application.

   [reachable (start rows n) s]: s is reached from a fresh Session on a table holding [rows] by any
   history of operations (get, new, set val, set w, in-place change + flag_modified, partial expire of one
   attribute, drop, gc.collect, flush, commit, expire, expire_all, delete, link) interleaved with ANY runs [collect l] of a collector that frees only unreachable objects
   (CPython's reference counting after every operation is one such interleaving: c48_cpython_run). *)
From Coq Require Import List ZArith NArith Bool.
Import ListNotations.
From SAV.orm Require Import WeakRef WeakRefBase WeakRefInv WeakRefFlush WeakRefMain WeakRefThm.

(* an object of the session that carries an unflushed change is never freed and keeps the change,
   whatever references the application drops (or ties into cycles) and however often any collector runs *)
Theorem c48_modified_never_collected : forall rows n s, reachable (start rows n) s ->
  forall w o k v, pending w s o k v -> forall h : list refop, pending w (ref_run h s) o k v.
Proof.
  intros rows n s R w o k v P h.
  exact (proj1 (modified_never_collected w h s o k v (reachable_inv _ s (inv_start rows n) R) P)).
Qed.
Print Assumptions c48_modified_never_collected.

(* ... hence the next flush (or commit) writes it, references or not; no collection can lose it *)
Theorem c48_flush_writes_dropped_changes : forall rows n s, reachable (start rows n) s ->
  forall w o k v, pending w s o k v -> forall h : list refop,
  option_map (col w) (db_get k (db (flush (ref_run h s)))) = Some v /\
  option_map (col w) (db_get k (db (fst (step_cpy Flush (ref_run h s))))) = Some v /\
  option_map (col w) (db_get k (db (fst (step_cpy Commit (ref_run h s))))) = Some v.
Proof.
  intros rows n s R w o k v P h.
  exact (flush_writes_dropped_changes w h s o k v (reachable_inv _ s (inv_start rows n) R) P).
Qed.
Print Assumptions c48_flush_writes_dropped_changes.

(* every attribute change made through a reference to an object of the session - a set of val or w, or an
   in-place change of val registered with flag_modified (what sqlalchemy.ext.mutable does) - is such a
   pending change *)
Theorem c48_set_makes_pending : forall rows n s, reachable (start rows n) s ->
  forall i o, slot_get s i = Some o -> in_del (heap s o) = false ->
  (in_new (heap s o) = true \/ in_map (heap s o) = true) ->
  pending false (fst (step (SetV i) s)) o (pk (heap s o)) (next_val s) /\
  pending true (fst (step (SetW i) s)) o (pk (heap s o)) (next_val s) /\
  (in_val (heap s o) = true -> pending false (fst (step (Mut i) s)) o (pk (heap s o)) (next_val s)).
Proof. intros rows n s R i o. exact (set_makes_pending s i o (reachable_inv _ s (inv_start rows n) R)). Qed.
Print Assumptions c48_set_makes_pending.

Theorem c48_new_is_pending : forall s i, pending false (fst (step (New i) s)) (nobj s) (next_pk s) (next_val s).
Proof. exact new_is_pending. Qed.
Print Assumptions c48_new_is_pending.

(* a partial expire (session.expire(obj, [attr])) discards the change of the named attribute only; the change
   to the other attribute stays pending - and, being pending, pins the object (c48_modified_never_collected) *)
Theorem c48_partial_expire_keeps_other_change : forall rows n s, reachable (start rows n) s ->
  forall w i o k v, slot_get s i = Some o -> pending w s o k v ->
  pending w (fst (step (ExpireAttr i (negb w)) s)) o k v.
Proof.
  intros rows n s R w i o k v. exact (partial_expire_keeps_other w s i o k v (reachable_inv _ s (inv_start rows n) R)).
Qed.
Print Assumptions c48_partial_expire_keeps_other_change.

(* the invariant behind it, for every operation incl. partial expire and flag_modified: a live state of the
   session with state.modified set holds the strong reference _strong_obj *)
Theorem c48_modified_implies_strong_reference : forall rows n s, reachable (start rows n) s ->
  forall o, alive (heap s o) = true -> sess (heap s o) = true -> modified (heap s o) = true -> strong (heap s o) = true.
Proof.
  intros rows n s R o A S M. exact (okb_modified_strong _ (i_ok s (reachable_inv _ s (inv_start rows n) R) o) A S M).
Qed.
Print Assumptions c48_modified_implies_strong_reference.

(* while the change is pending, get() returns that very object *)
Theorem c48_pending_identity_stable : forall rows n s, reachable (start rows n) s ->
  forall w o k v, pending w s o k v -> in_map (heap s o) = true -> lookup k s = Some o.
Proof. intros rows n s R w o k v. exact (pending_identity_stable w s o k v (reachable_inv _ s (inv_start rows n) R)). Qed.
Print Assumptions c48_pending_identity_stable.

(* the identity map stays consistent: every entry is a live object, is the only entry of its primary key
   and has a row; and no flush ever fails (the exceptional results of the model are unreachable) *)
Theorem c48_identity_map_consistent : forall rows n s, reachable (start rows n) s ->
  forall o, in_map (heap s o) = true ->
  alive (heap s o) = true /\ db_get (pk (heap s o)) (db s) <> None /\ lookup (pk (heap s o)) s = Some o.
Proof. intros rows n s R o. exact (map_consistent s o (reachable_inv _ s (inv_start rows n) R)). Qed.
Print Assumptions c48_identity_map_consistent.

Theorem c48_flush_never_fails : forall rows n s, reachable (start rows n) s -> failed s = false.
Proof. intros rows n s R. exact (i_failed s (reachable_inv _ s (inv_start rows n) R)). Qed.
Print Assumptions c48_flush_never_fails.

(* an unmodified persistent object that neither the application nor a live object references may be
   released: a collector run on it is a legal step, frees it and removes its identity-map entry; nothing
   else changes and the result is again a reachable (hence consistent) state.  Permitted, not required. *)
Theorem c48_unmodified_unreferenced_may_be_released : forall rows n s, reachable (start rows n) s ->
  forall o, in_map (heap s o) = true -> modified (heap s o) = false -> in_del (heap s o) = false ->
  app_ref s o = false -> (forall p, alive (heap s p) = true -> link (heap s p) <> Some o) ->
  let s' := collect [o] s in
  reachable (start rows n) s' /\
  alive (heap s' o) = false /\ in_map (heap s' o) = false /\ lookup (pk (heap s o)) s' = None /\
  db s' = db s /\ (forall p, p <> o -> heap s' p = heap s p).
Proof.
  intros rows n s R o M Md D A NL s'. split; [exact (r_collect _ s [o] R)|].
  destruct (unmodified_unreferenced_may_be_released s o (reachable_inv _ s (inv_start rows n) R) M Md D A NL)
    as (H1 & H2 & H3 & H4 & H5 & _). exact (conj H1 (conj H2 (conj H3 (conj H4 H5)))).
Qed.
Print Assumptions c48_unmodified_unreferenced_may_be_released.

(* CPython is an instance: an object whose reference count is zero is unreachable (so the guard of
   [collect] never blocks reference counting), and the states the executable run visits are reachable *)
Theorem c48_refcount_zero_is_unreachable : forall rows n s, reachable (start rows n) s ->
  forall o, alive (heap s o) = true -> refcount s o = 0 -> ~ In o (reach s).
Proof. intros rows n s R o. exact (rc_zero_unreachable s o (reachable_inv _ s (inv_start rows n) R)). Qed.
Print Assumptions c48_refcount_zero_is_unreachable.

Theorem c48_cpython_run : forall rows n ops, reachable (start rows n) (run_cpy ops (start rows n)).
Proof. intros rows n ops. exact (reachable_run_cpy _ ops _ (r_init _)). Qed.
Print Assumptions c48_cpython_run.

(* ---- non-vacuity ---- *)
(* load row 1, modify, drop the reference, tie nothing, collect: the object (0) is alive and pending;
   the flush writes the value 100 *)
Definition ex1 := run_cpy [Load 0 1; SetV 0; Drop 0; Gc] (start [(1%N, (10%Z, 5%Z))] 1).
Example c48_ex_pending : pending false ex1 0 1%N 100%Z /\ app_ref ex1 0 = false.
Proof. vm_compute. repeat split; auto. Qed.
Example c48_ex_flush : db_get 1%N (db (fst (step_cpy Flush ex1))) = Some (100%Z, 5%Z)
                       /\ alive (heap (fst (step_cpy Flush ex1)) 0) = false.
Proof. vm_compute. split; reflexivity. Qed.
(* an unmodified object on an unreachable cycle is held until gc.collect(), then released *)
Definition ex2 := run_cpy [Load 0 1; Link 0 0; Drop 0] (start [(1%N, (10%Z, 5%Z))] 1).
Example c48_ex_release : alive (heap ex2 0) = true /\ in_map (heap ex2 0) = true /\ modified (heap ex2 0) = false /\
  alive (heap (fst (step_cpy Gc ex2)) 0) = false /\ lookup 1%N (fst (step_cpy Gc ex2)) = None.
Proof. vm_compute. repeat split; reflexivity. Qed.
(* a deleted and modified object is an unreachable cycle after the flush (nothing pending is lost) *)
Example c48_ex_deleted_cycle :
  let s := run_cpy [Load 0 1; SetV 0; Delete 0; Flush; Drop 0] (start [(1%N, (10%Z, 5%Z))] 1) in
  alive (heap s 0) = true /\ refcount s 0 = 1 /\ rooted s 0 = false /\ db s = [].
Proof. vm_compute. repeat split; reflexivity. Qed.
(* the only pending change is an in-place one (flag_modified) / two attributes changed and one expired again:
   the object survives the loss of every reference and the flush writes the remaining change *)
Example c48_ex_inplace :
  let s := run_cpy [Load 0 1; Mut 0; Drop 0; Gc] (start [(1%N, (10%Z, 5%Z))] 1) in
  pending false s 0 1%N 100%Z /\ db (fst (step_cpy Flush s)) = [(1%N, (100%Z, 5%Z))].
Proof. vm_compute. repeat split; auto. Qed.
Example c48_ex_partial_expire :
  let s := run_cpy [Load 0 1; SetV 0; SetW 0; ExpireAttr 0 true; Drop 0; Gc] (start [(1%N, (10%Z, 5%Z))] 1) in
  pending false s 0 1%N 100%Z /\ pendw (heap s 0) = None /\ db (fst (step_cpy Flush s)) = [(1%N, (100%Z, 5%Z))].
Proof. vm_compute. repeat split; auto. Qed.
