From Coq Require Import List ZArith.
From SAV.orm Require Import Version.
Example c44_placeholder : init [] = init []. Proof. reflexivity. Qed.
