(* C44 - version counters prevent lost updates.
   Model: coq/orm/Version.v - any number of Sessions (index i), any history of get / set / delete / flush / commit /
   rollback operations interleaved in any order on one reference database; [reach ... r0 s] = s is reached from the
   initial rows r0 by some history.  Arguments: server (server-side version generation), sane_multi
   (dialect.supports_sane_multi_rowcount), eoc (expire_on_commit per session), g (the version generator, any strictly
   increasing function); dialect.supports_sane_rowcount = true except in the refutation at the end. *)
From Coq Require Import List ZArith NArith Bool Arith.
Import ListNotations.
From SAV.orm Require Import Version VersionInv VersionTheorems VersionWitness VersionMain.
Open Scope Z_scope.

(* clause 1.  Session i holds an instance it is about to UPDATE (stale_upd) or DELETE (stale_del) whose loaded version
   is not the version of the current row (or the row is gone).  Then flush / commit returns an error - StaleDataError,
   unless the database itself refuses the write first ("database is locked") - and nothing is changed: committed rows
   and change counter are as before, session i holds no write transaction afterwards (nothing of its transaction can
   be committed later), its identity map is expired, every other session and its transaction are untouched.
   GUARDED for DELETE: supports_sane_multi_rowcount, or a single deleted object in the flush (see the refutation). *)
Theorem c44_stale_flush_fails_and_changes_nothing_guarded :
  forall server sane_multi eoc g, (forall v, v < g v) -> forall r0 s i o,
  reach server true sane_multi eoc g r0 s -> is_flush o ->
  stale_upd s i \/ (stale_del s i /\ (sane_multi = true \/ n_dels s i = 1%nat)) ->
  let s' := fst (step server true sane_multi eoc g i o s) in
  let r := snd (step server true sane_multi eoc g i o s) in
  (r = RStale \/ r = RBusy) /\
  (begin_write (sdb s) i (snap (sget i (sss s))) <> None -> r = RStale) /\
  com (sdb s') = com (sdb s) /\ gen (sdb s') = gen (sdb s) /\
  writer_is (sdb s') i = None /\ sget i (sss s') = empty_sess /\
  forall j, j <> i -> sget j (sss s') = sget j (sss s) /\ writer_is (sdb s') j = writer_is (sdb s) j.
Proof. intros server sane_multi eoc g Hg r0. exact (main_stale server sane_multi eoc g Hg r0). Qed.
Print Assumptions c44_stale_flush_fails_and_changes_nothing_guarded.

(* the defect region: dialect without supports_sane_multi_rowcount (psycopg2, asyncpg, pyodbc, mysql base), two
   objects deleted in one flush, one of them stale: the commit succeeds and the stale row survives *)
Theorem c44_stale_multi_delete_refuted :
  exists s i, reach false true false no_eoc Z.succ rows12 s /\ stale_del s i /\ n_dels s i = 2%nat /\
    snd (step false true false no_eoc Z.succ i Commit s) = ROk /\
    lookup 1 (com (sdb (fst (step false true false no_eoc Z.succ i Commit s)))) = Some {| rx := (5, 0); rv := 2 |}.
Proof. exact main_multi_delete_refuted. Qed.
Print Assumptions c44_stale_multi_delete_refuted.

(* clause 2, history form.  Between any two points of any history: no committed row is re-created, its version does
   not decrease, and an unchanged version means unchanged content - i.e. every committed change of a row increased
   its version *)
Theorem c44_version_strictly_increases :
  forall server sane_multi eoc g, (forall v, v < g v) -> forall r0 s l,
  reach server true sane_multi eoc g r0 s ->
  forall k b, lookup k (com (sdb (run server true sane_multi eoc g l s))) = Some b ->
  exists a, lookup k (com (sdb s)) = Some a /\ rv a <= rv b /\ (rv a = rv b -> rx a = rx b).
Proof. intros server sane_multi eoc g Hg r0. exact (main_monotone server sane_multi eoc g Hg r0). Qed.
Print Assumptions c44_version_strictly_increases.

(* clause 3 (and clause 2, step form).  A successful flush / commit of session i: every instance it UPDATEd had loaded
   exactly the then-current row (content ex e and version ev e), and the row afterwards carries the pending value and
   version g(loaded) > loaded; every instance it DELETEd (guard as above) had loaded exactly the then-current row,
   which is gone afterwards.  [cur_rows] = the rows session i's statements work on (its open write transaction, else
   the committed rows); [after_rows] = the same after a flush, the committed rows after a commit *)
Theorem c44_no_lost_update :
  forall server sane_multi eoc g, (forall v, v < g v) -> forall r0 s i o,
  reach server true sane_multi eoc g r0 s -> is_flush o ->
  snd (step server true sane_multi eoc g i o s) = ROk ->
  forall k e, In (k, e) (sents (sget i (sss s))) ->
  (is_upd e = true ->
     lookup k (cur_rows (sdb s) i) = Some {| rx := ex e; rv := ev e |} /\
     lookup k (after_rows o (fst (step server true sane_multi eoc g i o s)) i) =
       Some {| rx := pend_of e; rv := g (ev e) |} /\ ev e < g (ev e)) /\
  (edel e = true -> (sane_multi = true \/ n_dels s i = 1%nat) ->
     lookup k (cur_rows (sdb s) i) = Some {| rx := ex e; rv := ev e |} /\
     lookup k (after_rows o (fst (step server true sane_multi eoc g i o s)) i) = None).
Proof. intros server sane_multi eoc g Hg r0. exact (main_no_lost_update server sane_multi eoc g Hg r0). Qed.
Print Assumptions c44_no_lost_update.

(* an operation of one session never touches what another session holds *)
Theorem c44_other_sessions_untouched :
  forall server sane_multi eoc g, (forall v, v < g v) -> forall r0 s i o j,
  reach server true sane_multi eoc g r0 s -> j <> i ->
  sget j (sss (fst (step server true sane_multi eoc g i o s))) = sget j (sss s).
Proof. intros server sane_multi eoc g Hg r0. exact (main_other_sessions server sane_multi eoc g Hg r0). Qed.
Print Assumptions c44_other_sessions_untouched.

(* the invariant behind the three clauses holds in every reachable state *)
Theorem c44_invariant :
  forall server sane_multi eoc g, (forall v, v < g v) -> forall r0 s,
  reach server true sane_multi eoc g r0 s -> Inv s.
Proof. intros server sane_multi eoc g Hg. exact (VersionStep.reach_inv server sane_multi eoc g Hg). Qed.
Print Assumptions c44_invariant.

(* why the property is conditional on supports_sane_rowcount: without it the stale UPDATE matches nothing, nothing is
   verified (the implementation warns) and the flush succeeds *)
Theorem c44_no_sane_rowcount_refuted :
  exists s i, reach false false false no_eoc Z.succ rows12 s /\ stale_upd s i /\
    snd (step false false false no_eoc Z.succ i Commit s) = ROk.
Proof. exact main_no_sane_rowcount_refuted. Qed.
Print Assumptions c44_no_sane_rowcount_refuted.

(* non-vacuity: reachable states satisfying the hypotheses, with each outcome *)
Example c44_ex_stale_update : stale_upd (st_upd true true) 0 /\
  snd (step false true true no_eoc Z.succ 0 Commit (st_upd true true)) = RStale.
Proof. split; [apply st_upd_stale|exact stale_update_fails]. Qed.
Example c44_ex_stale_delete_checked : stale_del (st_del true true) 0 /\
  snd (step false true true no_eoc Z.succ 0 Commit (st_del true true)) = RStale.
Proof. split; [apply st_del_stale|apply multi_delete_checked]. Qed.
Example c44_ex_database_refuses :
  snd (step false true true no_eoc Z.succ 0 Commit (run false true true no_eoc Z.succ w_busy (init rows12))) = RBusy.
Proof. exact busy_example. Qed.
Example c44_ex_successful_update :
  let s := run false true true no_eoc Z.succ [(0%nat, SetX 1 false 7)] (init rows12) in
  snd (step false true true no_eoc Z.succ 0 Commit s) = ROk /\
  In (1, {| ex := (0, 0); ev := 1; epend := Some (7, 0); edel := false |}) (sents (sget 0 (sss s))) /\
  com (sdb (fst (step false true true no_eoc Z.succ 0 Commit s))) = [(1, {| rx := (7, 0); rv := 2 |}); (2, {| rx := (0, 0); rv := 1 |})].
Proof. exact ok_example. Qed.
Example c44_ex_generator : forall v, v < Z.succ v.
Proof. exact succ_increasing. Qed.
