(* C03 - statements are immutable values (generative methods never change the statement they were
   called on).  Heap model: a generative call works on a SHALLOW copy; its effects either rebind a
   field of the copy to a fresh cell or mutate a cell in place.  [rebind_only m] is the side condition
   checked by vm_compute on the effect lists regenerated from the source of every @_generative
   method on each run. *)
From Coq Require Import List Arith Bool.
Import ListNotations.
From SAV.sql Require Import Generative GenerativeProofs.

(* one call: every cell that existed before the call keeps its content *)
Theorem c03_method_frame : forall h o m, rebind_only m = true -> wf h o ->
  let (h', o') := run_method h o m in
  length h <= length h' /\ (forall k, k < length h -> nth k h' 0 = nth k h 0) /\ wf h' o'.
Proof. exact method_frame. Qed.
Print Assumptions c03_method_frame.

(* any chain of any length: every object of the chain, observed at the very end, is exactly what it was
   when it was created *)
Theorem c03_generative_frame : forall ms h o, Forall (fun m => rebind_only m = true) ms -> wf h o ->
  let (hn, os) := chain h o ms in
  let hs := chain_heaps h o ms in
  (length os = length hs) /\
  (forall i oi hi, nth_error os i = Some oi -> nth_error hs i = Some hi -> observe hn oi = observe hi oi).
Proof. exact chain_frame. Qed.
Print Assumptions c03_generative_frame.

(* the side condition is necessary: an in-place mutation of a field that was not rebound first changes
   the statement the method was called on (this is what with_dialect_options() did before e79bc61) *)
Theorem c03_shared_mutation_refuted :
  exists h o m, wf h o /\ rebind_only m = false /\
    let (h', _) := run_method h o m in observe h' o <> observe h o.
Proof.
  exists [7], [(0, 0)], [Mutate 0 9]. split; [intros p [<-|[]]; cbn; auto|]. split; [reflexivity|].
  cbn. discriminate.
Qed.
Print Assumptions c03_shared_mutation_refuted.

(* non-vacuity: rebind-then-mutate (Query.add_columns: self._raw_columns = list(...); .extend(...)) *)
Example c03_ex_rebind_then_mutate :
  rebind_only [Rebind 1 5; Mutate 1 6] = true /\
  let (h', o') := run_method [7; 8] [(0, 0); (1, 1)] [Rebind 1 5; Mutate 1 6] in
  observe h' [(0, 0); (1, 1)] = [(0, 7); (1, 8)] /\ observe h' o' = [(0, 7); (1, 6)].
Proof. split; [reflexivity|]. cbn. split; reflexivity. Qed.
