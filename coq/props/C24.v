(* C24 - pooled connections carry no state from a previous checkout.
   Statements only.  Model: engine/ResetSeq.v (one pooled DBAPI connection used by a sequence of users
   through the engine-level Connection API; reset-on-return, characteristic finalisers, GC path). *)
From Coq Require Import List ZArith Bool.
Import ListNotations.
From SAV.engine Require Import ResetSeq ResetSeqProofs.
Open Scope Z_scope.

(* clean_on_checkout fails on the unchanged code: a COMMIT that raises an ordinary DBAPI error leaves
   the RootTransaction attached but inactive; Connection.close() then closes it without a rollback
   and passes transaction_reset=True, so _reset emits nothing either: the next checkout gets the
   connection with the transaction still open and the uncommitted rows in it *)
Theorem c24_clean_on_checkout_refuted : exists kind us fl,
  let s := run RRollback kind us (init fl) in
  pristine (next_checkout s) = false /\ in_txn (next_checkout s) = true /\ dirty (next_checkout s) = true /\
  bad_close s = true.
Proof. exists PQueue, [[OWrite; OCommit; OClose]], [1]. vm_compute. auto. Qed.
Print Assumptions c24_clean_on_checkout_refuted.

(* the same on SQLite, where the failing COMMIT is a deferred foreign-key violation *)
Theorem c24_clean_on_checkout_refuted_sqlite : exists kind us,
  pristine (next_checkout (run RRollback kind us (init []))) = false.
Proof. exists PQueue, [[OFkWrite; OCommit; OClose]]. vm_compute. auto. Qed.
Print Assumptions c24_clean_on_checkout_refuted_sqlite.

(* outside exactly that region: for reset_on_return = rollback or commit, every pool class, every
   history of users (commit, rollback, nothing, failing statements, failing commit / rollback,
   dropped references, isolation-level / autocommit changes, invalidation) and every fault script the
   connection handed to the next checkout has no open transaction, no uncommitted writes and the
   default isolation level / autocommit setting *)
Theorem c24_clean_on_checkout_guarded : forall reset kind, reset <> RNone -> forall us fl,
  let s := run reset kind us (init fl) in
  bad_close s = false -> pristine (next_checkout s) = true.
Proof. exact clean_on_checkout_guarded. Qed.
Print Assumptions c24_clean_on_checkout_guarded.

(* reset_exactly_once_or_skipped_soundly: transaction_was_reset=True reaches _ConnectionFairy._reset
   while the DBAPI transaction is still open only in the defective region (and there it does) *)
Theorem c24_reset_skipped_soundly_guarded : forall reset kind us fl,
  let s := run reset kind us (init fl) in
  twr_unsound s = true -> bad_close s = true.
Proof. exact reset_skipped_soundly. Qed.
Print Assumptions c24_reset_skipped_soundly_guarded.

Theorem c24_reset_skipped_soundly_refuted : exists kind us fl,
  twr_unsound (run RRollback kind us (init fl)) = true.
Proof. exists PQueue, [[OWrite; OCommit; OClose]], [1]. vm_compute. auto. Qed.
Print Assumptions c24_reset_skipped_soundly_refuted.

(* characteristics_restored: unconditionally (every reset style incl. None, also in the defective
   region) the next checkout sees the default isolation level and autocommit setting ... *)
Theorem c24_characteristics_restored : forall reset kind us fl,
  iso (next_checkout (run reset kind us (init fl))) = 0 /\ autoc (next_checkout (run reset kind us (init fl))) = false.
Proof. exact characteristics_restored. Qed.
Print Assumptions c24_characteristics_restored.

(* ... because during a checkout every characteristic that was set has a pending finaliser *)
Theorem c24_finaliser_pending : forall reset kind ops d s codes c s',
  iso d = 0 /\ autoc d = false -> (dirty d = true -> in_txn d = true) ->
  do_ops reset kind ops (mkcst d None O false) s [] = (codes, c, s') ->
  nfin c = O -> iso (cdb c) = 0 /\ autoc (cdb c) = false.
Proof. exact finaliser_pending. Qed.
Print Assumptions c24_finaliser_pending.

(* non-vacuity: a history with a failing rollback at close, dropped references with pending
   characteristics and a user that never returns its connection stays outside the defective region
   and ends pristine on the same DBAPI connection *)
Example c24_ex_history :
  let s := run RRollback PQueue [[OIso; OWrite; OClose; ODrop]; [OAutoc; OWrite; OBegin; ODrop]; [OWrite; ORollback; OWrite]] (init [1]) in
  bad_close s = false /\ pristine (next_checkout s) = true /\ nconn s = 1.
Proof. vm_compute. auto. Qed.
