(* C24 - pooled connections carry no state from a previous checkout.
   Statements only.  Model: engine/ResetSeq.v (one pooled DBAPI connection used by a sequence of users
   through the engine-level Connection API; reset-on-return, characteristic finalisers, GC path),
   transcribing the code as of commit 4102dab (Connection.close() skips the pool's reset only when
   it rolled an ACTIVE transaction back itself). *)
From Coq Require Import List ZArith Bool.
Import ListNotations.
From SAV.engine Require Import ResetSeq ResetSeqProofs.
Open Scope Z_scope.

(* clean_on_checkout: for reset_on_return = rollback or commit, every pool class, every history of
   users (commit, rollback, nothing, failing statements, failing commit / rollback, dropped references,
   isolation-level / autocommit changes, invalidation, never returning the connection) and every fault
   script, the connection handed to the next checkout has no open transaction, no uncommitted writes
   and the default isolation level / autocommit setting *)
Theorem c24_clean_on_checkout : forall reset kind, reset <> RNone -> forall us fl,
  pristine (next_checkout (run reset kind us (init fl))) = true.
Proof. exact clean_on_checkout. Qed.
Print Assumptions c24_clean_on_checkout.

(* reset_exactly_once_or_skipped_soundly: transaction_was_reset=True never reaches
   _ConnectionFairy._reset while the DBAPI transaction is still open *)
Theorem c24_reset_skipped_soundly : forall reset kind us fl,
  twr_unsound (run reset kind us (init fl)) = false.
Proof. exact reset_skipped_soundly. Qed.
Print Assumptions c24_reset_skipped_soundly.

(* characteristics_restored: unconditionally (every reset style incl. None) the next checkout sees the
   default isolation level and autocommit setting ... *)
Theorem c24_characteristics_restored : forall reset kind us fl,
  iso (next_checkout (run reset kind us (init fl))) = 0 /\ autoc (next_checkout (run reset kind us (init fl))) = false.
Proof. exact characteristics_restored. Qed.
Print Assumptions c24_characteristics_restored.

(* ... because during a checkout every characteristic that was set has a pending finaliser *)
Theorem c24_finaliser_pending : forall reset kind ops d s codes c s',
  iso d = 0 /\ autoc d = false -> (dirty d = true -> in_txn d = true) ->
  do_ops reset kind ops (mkcst d None O false) s [] = (codes, c, s') ->
  nfin c = O -> iso (cdb c) = 0 /\ autoc (cdb c) = false.
Proof. exact finaliser_pending. Qed.
Print Assumptions c24_finaliser_pending.

(* the former refutation witnesses (failed COMMIT followed by close(), fixed by commit 4102dab): the
   pool's reset now rolls the transaction back; fake DBAPI and SQLite (deferred foreign key) *)
Example c24_ex_failed_commit_then_close :
  pristine (next_checkout (run RRollback PQueue [[OWrite; OCommit; OClose]] (init [1]))) = true /\
  pristine (next_checkout (run RRollback PQueue [[OFkWrite; OCommit; OClose]] (init []))) = true /\
  log (run RRollback PQueue [[OWrite; OCommit; OClose]] (init [1])) = [1; 2].
Proof. vm_compute. auto. Qed.

(* non-vacuity: a history with a failing rollback at close, dropped references with pending
   characteristics and a user that never returns its connection ends pristine on the same connection *)
Example c24_ex_history :
  let s := run RRollback PQueue [[OIso; OWrite; OClose; ODrop]; [OAutoc; OWrite; OBegin; ODrop]; [OWrite; ORollback; OWrite]] (init [1]) in
  pristine (next_checkout s) = true /\ nconn s = 1.
Proof. vm_compute. auto. Qed.
