(* C24 - pooled connections carry no state from a previous checkout.
   Statements only.  Model: engine/ResetSeq.v (one pooled DBAPI connection used by a sequence of users
   through the engine-level Connection API: transactions, savepoints, execution_options calls naming
   any subset of isolation_level / logging_token / other options, option engines; reset-on-return, the
   characteristic finalisers of the pool record, GC path), transcribing the code as of commit 4102dab. *)
From Coq Require Import List ZArith Bool.
Import ListNotations.
From SAV.engine Require Import ResetSeq ResetSeqProofs.
Open Scope Z_scope.

(* clean_on_checkout: for reset_on_return = rollback or commit, every pool class, with or without the
   BEGIN-emitting listener and an option engine, every history of users - commit, rollback, nothing,
   failing statements, failing commit / rollback, begin_nested() and commit / rollback / close of
   savepoints, close() or drop with savepoints open, any sequence of execution_options calls,
   invalidation, never returning the connection - and every fault script: the connection handed to the
   next checkout has no open transaction, no uncommitted writes and the default isolation level /
   autocommit setting *)
Theorem c24_clean_on_checkout : forall reset kind begin_emits engine_iso, reset <> RNone -> forall us fl,
  pristine (next_checkout (run reset kind begin_emits engine_iso us (init fl))) = true.
Proof. exact clean_on_checkout. Qed.
Print Assumptions c24_clean_on_checkout.

(* reset_exactly_once_or_skipped_soundly: transaction_was_reset=True never reaches
   _ConnectionFairy._reset while the DBAPI transaction is still open *)
Theorem c24_reset_skipped_soundly : forall reset kind begin_emits engine_iso us fl,
  twr_unsound (run reset kind begin_emits engine_iso us (init fl)) = false.
Proof. exact reset_skipped_soundly. Qed.
Print Assumptions c24_reset_skipped_soundly.

(* characteristics_restored: unconditionally (every reset style incl. None, any list of option calls
   per checkout - several options in one call, several calls, an option engine on top) the next
   checkout sees the default isolation level and autocommit setting ... *)
Theorem c24_characteristics_restored : forall reset kind begin_emits engine_iso us fl,
  let d := next_checkout (run reset kind begin_emits engine_iso us (init fl)) in
  iso d = 0 /\ autoc d = false.
Proof. exact characteristics_restored. Qed.
Print Assumptions c24_characteristics_restored.

(* ... because while a connection is checked out, a non-default isolation level / autocommit setting
   always has a pending finaliser that resets the isolation level *)
Theorem c24_finaliser_pending : forall reset kind begin_emits engine_iso ops d s c0 s0 codes c s',
  iso d = 0 /\ autoc d = false ->
  (dirty d = true -> in_txn d = true) /\ (forall e, In e (sp d) -> fst e = true -> in_txn d = true) ->
  connect engine_iso d s = (c0, s0) ->
  do_ops reset kind begin_emits ops c0 s0 [] = (codes, c, s') -> done c = false ->
  (iso (cdb c) = 0 /\ autoc (cdb c) = false) \/ In true (fins c).
Proof. exact finaliser_pending. Qed.
Print Assumptions c24_finaliser_pending.

(* the former refutation witnesses (failed COMMIT followed by close(), fixed by commit 4102dab) *)
Example c24_ex_failed_commit_then_close :
  pristine (next_checkout (run RRollback PQueue false 0 [[OWrite; OCommit; OClose]] (init [1]))) = true /\
  pristine (next_checkout (run RRollback PQueue true 0 [[OFkWrite; OCommit; OClose]] (init []))) = true /\
  log (run RRollback PQueue false 0 [[OWrite; OCommit; OClose]] (init [1])) = [1; 2].
Proof. vm_compute. auto. Qed.

(* non-vacuity: option engine (AUTOCOMMIT) + a token-only call + a call naming both, close() with a
   savepoint open, rollback to a savepoint that had captured a deferred violation *)
Example c24_ex_history :
  let s := run RRollback PQueue false 2
             [[OOpts 0 true false; OWrite; ONBegin; OWrite; OClose]; [OOpts 1 true true; OOpts 0 true false]] (init []) in
  pristine (next_checkout s) = true /\ nconn s = 1 /\
  let s2 := run RRollback PQueue true 1 [[OWrite; ONBegin; OFkWrite; ONRollback; ONBegin; OWrite; OCommit]; [OWrite]] (init []) in
  pristine (next_checkout s2) = true /\ log s2 = [3; 7; 2; 3].
Proof. vm_compute. auto. Qed.
