(* C04 - bound parameters reach the right placeholders in every paramstyle.
   Statements only; every proof is [exact <lemma>] or a computation on a concrete witness.

   run tab lit empty proc ps inp = the (statement tokens, parameters) pair handed to cursor.execute under paramstyle ps
   inline ps ts fp            = what a PEP-249 driver of that paramstyle makes of it (each placeholder replaced
                                by the parameter it designates: next one / k-th / the one called so)
   inline_spec lit empty proc inp = the statement with every bind replaced by the value given for ITS name,
                                converted once by ITS bind processor (proc p : the processor of a typed bind)
   guard tab inp              = escaped names of distinct binds are distinct, names created for expanding binds
                                are new, values have the bind's shape *)
From Coq Require Import List NArith ZArith Bool.
Import ListNotations.
From SAV.sql Require Import Params ParamsDict ParamsEscape ParamsGuard ParamsFinal ParamsPos ParamsNum ParamsRun ParamsMain.

(* for every token list, bind order, classification, parameter dictionary (lists of any length, also empty,
   for expanding binds) and each of the six paramstyles: the driver substitutes, for every placeholder, the value
   of the bind that placeholder stands for *)
Theorem c04_all_styles_guarded : forall tab lit empty proc ps inp, guard tab inp = true ->
  exists ts fp sp, run tab lit empty proc ps inp = Ok (ts, fp) /\
                   inline_spec lit empty proc inp = Some sp /\ inline ps ts fp = Some sp.
Proof. exact all_styles. Qed.
Print Assumptions c04_all_styles_guarded.

(* qmark / format: the sequence handed to the driver is, in text order, the value of each bind; an expanding
   bind contributes its elements in order, a literal_execute bind nothing (expansion preserves order) *)
Theorem c04_expand_preserves_order : forall tab lit empty proc ps inp, guard tab inp = true ->
  positional ps = true -> numeric ps = false ->
  exists ts, run tab lit empty proc ps inp = Ok (ts, FPos (flat_map (tok_vals proc inp) (i_toks inp))).
Proof. exact positional_sequence. Qed.
Print Assumptions c04_expand_preserves_order.

(* _process_positional: every placeholder becomes positional and positiontup is the text order of the binds
   (original, unescaped names) *)
Theorem c04_positiontup_in_text_order : forall tab ps inp, guard tab inp = true ->
  process_positional (ebn_of tab (i_order inp)) (carrier tab ps (i_toks inp)) =
  Ok (map (ctok tab ps (fun _ => OPos)) (i_toks inp), names_of (i_toks inp)).
Proof. exact positiontup_text_order. Qed.
Print Assumptions c04_positiontup_in_text_order.

(* _process_numeric: every bind exactly once in positiontup; the plain binds get the numbers 1..n in that
   order (a bijection onto a contiguous range), next_numeric_pos = n + 1 *)
Theorem c04_numeric_is_permutation : forall tab ps inp, guard tab inp = true ->
  exists ptup,
    let plain := filter (fun n => is_plain (kind_of inp n)) ptup in
    process_numeric inp (ebn_of tab (i_order inp)) (carrier tab ps (i_toks inp)) =
      Ok (map (ctok tab ps (fun n => ONum (1 + N.of_nat (index_of n plain)))) (i_toks inp),
          ptup, (1 + N.of_nat (length plain))%N) /\
    NoDup ptup /\ (forall k, In k ptup <-> In k (i_order inp)).
Proof. exact numeric_is_permutation. Qed.
Print Assumptions c04_numeric_is_permutation.

(* reverse_escape o escape = id on the binds of the statement, and the source's assertion
   len(escaped_bind_names) == len(reverse_escape) holds *)
Theorem c04_reverse_escape_after_escape : forall tab inp, guard tab inp = true ->
  forall n, In n (i_order inp) ->
  dget_or_key (reverse_dict (ebn_of tab (i_order inp))) (dget_or_key (ebn_of tab (i_order inp)) n) = n.
Proof. exact reverse_escape_id. Qed.
Print Assumptions c04_reverse_escape_after_escape.

Theorem c04_escape_assertion_holds : forall tab inp, guard tab inp = true ->
  length (reverse_dict (ebn_of tab (i_order inp))) = length (ebn_of tab (i_order inp)).
Proof. exact escape_assertion_holds. Qed.
Print Assumptions c04_escape_assertion_holds.

(* for every escape table none of whose replacement characters is itself escaped (checked on the live table on
   every run): an escaped name contains no character that needs escaping *)
Theorem c04_escaped_name_needs_no_escape : forall tab, table_closed tab = true ->
  forall n, needs_esc tab (esc tab n) = false.
Proof. exact needs_esc_esc. Qed.
Print Assumptions c04_escaped_name_needs_no_escape.

(* ... and such a table can never be injective on names: two different bind names with the same escaped name *)
Theorem c04_escape_not_injective_refuted : forall tab, table_closed tab = true -> table_nontrivial tab = true ->
  exists a b, a <> b /\ esc tab a = esc tab b.
Proof. exact esc_not_injective. Qed.
Print Assumptions c04_escape_not_injective_refuted.

(* ---- outside the guard the code delivers wrong values or fails ---- *)
(* binds "a.b" = 1 and "a b" = 2: both are rendered :a_b; the named styles silently deliver 2 to both
   placeholders, the positional styles fail the assertion of _process_positional / _process_numeric *)
Theorem c04_escape_collision_refuted :
  guard sa_tab w_esc = false /\
  inline_spec lit_dec empty0 run_proc w_esc = Some [Val 1; Ch 32; Ch 65; Ch 78; Ch 68; Ch 32; Val 2] /\
  map (fun ps => delivered ps w_esc) [Named; Pyformat] =
    [Ok (Some [Val 2; Ch 32; Ch 65; Ch 78; Ch 68; Ch 32; Val 2]); Ok (Some [Val 2; Ch 32; Ch 65; Ch 78; Ch 68; Ch 32; Val 2])] /\
  map (fun ps => delivered ps w_esc) [Qmark; Format; Numeric; NumericDollar] =
    [Raise AssertionError; Raise AssertionError; Raise AssertionError; Raise AssertionError].
Proof. vm_compute. repeat split; reflexivity. Qed.
Print Assumptions c04_escape_collision_refuted.

(* binds "a.b" = 1 and "a_b" = 2: the assertion of _process_positional passes and qmark / format silently
   deliver 1 to both placeholders (positiontup = [a.b, a.b]) *)
Theorem c04_escape_collision_positional_refuted :
  guard sa_tab w_esc2 = false /\
  inline_spec lit_dec empty0 run_proc w_esc2 = Some [Val 1; Ch 32; Ch 65; Ch 78; Ch 68; Ch 32; Val 2] /\
  map (fun ps => delivered ps w_esc2) [Qmark; Format] =
    [Ok (Some [Val 1; Ch 32; Ch 65; Ch 78; Ch 68; Ch 32; Val 1]); Ok (Some [Val 1; Ch 32; Ch 65; Ch 78; Ch 68; Ch 32; Val 1])].
Proof. vm_compute. repeat split; reflexivity. Qed.
Print Assumptions c04_escape_collision_positional_refuted.

(* x IN (expanding "x" = [1, 2]) AND ... = bind "x_1" = 7: the expansion creates the names x_1, x_2 and
   overwrites the value of the other bind: every paramstyle delivers 1 where 7 was meant *)
Theorem c04_expanded_name_collision_refuted :
  guard sa_tab w_exp = false /\
  exists pre, inline_spec lit_dec empty0 run_proc w_exp = Some (pre ++ [Val 7]) /\
              forall ps, delivered ps w_exp = Ok (Some (pre ++ [Val 1])).
Proof.
  split; [vm_compute; reflexivity|].
  exists [Ch 32; Ch 73; Ch 78; Ch 32; Ch 40; Val 1; Ch 44; Ch 32; Val 2; Ch 41; Ch 32; Ch 65; Ch 78; Ch 68; Ch 32].
  split; [vm_compute; reflexivity|]. intros []; vm_compute; reflexivity.
Qed.
Print Assumptions c04_expanded_name_collision_refuted.

(* a literal_execute bind called "a b" = 5 (repaired by 47bdcc8: the parameter is popped by its un-escaped name;
   before, every paramstyle raised KeyError): inside the guard, inlined under every paramstyle *)
Example c04_ex_literal_execute_escaped_name :
  guard sa_tab w_lit = true /\
  forall ps, delivered ps w_lit = Ok (inline_spec lit_dec empty0 run_proc w_lit).
Proof. split; [vm_compute; reflexivity|]. intros []; vm_compute; reflexivity. Qed.

(* two bind objects share the name "p" and only the second is literal_execute: the first occurrence
   keeps its placeholder but its value is removed from the parameters (numeric even renders an empty string),
   so no driver can bind the statement *)
Theorem c04_mixed_literal_execute_refuted :
  guard sa_tab w_mix = false /\
  inline_spec lit_dec empty0 run_proc w_mix = Some [Val 3; Ch 32; Ch 65; Ch 78; Ch 68; Ch 32; Ch 51] /\
  (forall ps, numeric ps = false -> delivered ps w_mix = Ok None) /\
  (forall ps, numeric ps = true -> delivered ps w_mix = Ok (Some [Ch 32; Ch 65; Ch 78; Ch 68; Ch 32; Ch 51])).
Proof.
  split; [vm_compute; reflexivity|]. split; [vm_compute; reflexivity|].
  split; intros [] H; try discriminate H; vm_compute; reflexivity.
Qed.
Print Assumptions c04_mixed_literal_execute_refuted.

(* ---- the hypotheses are satisfiable: a statement with an escaped name used twice (typed: processor 1 sends
   v to 10 v + 1), two expanding binds (one empty, the other typed with processor 2), a literal_execute bind, a
   percent sign and the insertmanyvalues ordering of numeric ---- *)
Example c04_ex_guard : guard sa_tab ex_good = true.
Proof. vm_compute; reflexivity. Qed.
Example c04_ex_numeric :
  match run sa_tab lit_dec empty0 run_proc Numeric ex_good with
  | Ok (ts, fp) => fp = FPos [PS 9; PS 41; PS 12; PS 22; PS 32] /\
                   filter (fun t => match t with ONum _ => true | _ => false end) ts =
                   [ONum 2; ONum 3; ONum 4; ONum 5; ONum 1; ONum 2]
  | Raise _ => False
  end.
Proof. vm_compute. split; reflexivity. Qed.
Example c04_ex_qmark :
  match run sa_tab lit_dec empty0 run_proc Qmark ex_good with
  | Ok (ts, fp) => fp = FPos [PS 41; PS 12; PS 22; PS 32; PS 9; PS 41]
  | Raise _ => False
  end.
Proof. vm_compute. reflexivity. Qed.
Example c04_ex_table : table_closed sa_tab = true /\ table_nontrivial sa_tab = true.
Proof. vm_compute. split; reflexivity. Qed.
