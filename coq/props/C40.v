(* C40 - loader strategies change how data is loaded, never what is loaded.
   Statements only; every proof is [exact <lemma>].

   [load nestf asg u t0 jstep path] is the model of what the ORM does for the root query [u] on table [t0]
   (PJoin/PAny going through relationship [jstep]) with loader strategy [asg_i] on the i-th relationship
   of [path]; [load_spec] is the relational meaning.  [nestf] is the subquery-wrapping decision
   ([should_nest] = context.py _should_nest_selectable). *)
From Coq Require Import List ZArith Bool.
Import ListNotations.
From SAV.orm Require Import Loaders LoadersBase LoadersJoin LoadersStmt LoadersSrc LoadersOne LoadersAttach LoadersSubq LoadersMain LoadersTheorems LoadersKeys LoadersIdent.
Open Scope Z_scope.

(* THE property: every assignment of strategies along the path - lazy, joined, subquery, immediate,
   selectin with any chunk size >= 1, mixed freely - loads exactly the relational meaning: same primary
   entities in the same order, same members of every collection in relationship order, for every data
   set; by induction on the path.  It holds for every wrapping decision that wraps at least where
   _should_nest_selectable does.  [guard] excludes exactly the region of the subquery-load defect below. *)
Theorem c40_all_strategies_agree : forall nestf asg u t0 jstep path,
  nest_covers nestf -> wf_query u t0 jstep path -> length asg = length path -> guard u jstep path asg = true ->
  load nestf asg u t0 jstep path = load_spec u t0 jstep path.
Proof. exact all_strategies_agree. Qed.
Print Assumptions c40_all_strategies_agree.

(* with the implementation's own wrapping decision *)
Theorem c40_all_strategies_agree_impl : forall asg u t0 jstep path,
  wf_query u t0 jstep path -> length asg = length path -> guard u jstep path asg = true ->
  load should_nest asg u t0 jstep path = load_spec u t0 jstep path.
Proof. exact all_strategies_agree_impl. Qed.
Print Assumptions c40_all_strategies_agree_impl.

(* hence any two assignments agree with one another *)
Theorem c40_any_two_assignments_agree : forall asg1 asg2 u t0 jstep path,
  wf_query u t0 jstep path -> length asg1 = length path -> length asg2 = length path ->
  guard u jstep path asg1 = true -> guard u jstep path asg2 = true ->
  load should_nest asg1 u t0 jstep path = load should_nest asg2 u t0 jstep path.
Proof.
  intros asg1 asg2 u t0 jstep path W L1 L2 G1 G2.
  exact (eq_trans (all_strategies_agree_impl asg1 u t0 jstep path W L1 G1)
                  (eq_sym (all_strategies_agree_impl asg2 u t0 jstep path W L2 G2))).
Qed.
Print Assumptions c40_any_two_assignments_agree.

(* the guard is vacuous unless a subquery load re-issues the user's own statement *)
Theorem c40_guard_only_for_root_subquery : forall u jstep path asg,
  root_subq asg = false -> guard u jstep path asg = true.
Proof. exact guard_no_root_subq. Qed.
Print Assumptions c40_guard_only_for_root_subquery.

(* the uniform assignments *)
Theorem c40_joined_eq_spec : forall u t0 jstep path, wf_query u t0 jstep path ->
  load should_nest (repeat SJoined (length path)) u t0 jstep path = load_spec u t0 jstep path.
Proof. exact joined_eq_spec. Qed.
Print Assumptions c40_joined_eq_spec.

Theorem c40_lazy_eq_spec : forall u t0 jstep path, wf_query u t0 jstep path ->
  load should_nest (repeat SLazy (length path)) u t0 jstep path = load_spec u t0 jstep path.
Proof. exact lazy_eq_spec. Qed.
Print Assumptions c40_lazy_eq_spec.

Theorem c40_immediate_eq_spec : forall u t0 jstep path, wf_query u t0 jstep path ->
  load should_nest (repeat SImmediate (length path)) u t0 jstep path = load_spec u t0 jstep path.
Proof. exact immediate_eq_spec. Qed.
Print Assumptions c40_immediate_eq_spec.

(* selectin: any chunk sizes >= 1 ([SSelectin n] = IN-lists of at most n+1 keys), one per level *)
Theorem c40_selectin_eq_spec : forall (chunks_minus_1 : list nat) u t0 jstep path,
  wf_query u t0 jstep path -> length chunks_minus_1 = length path ->
  load should_nest (map SSelectin chunks_minus_1) u t0 jstep path = load_spec u t0 jstep path.
Proof. exact selectin_eq_spec. Qed.
Print Assumptions c40_selectin_eq_spec.

Theorem c40_subquery_eq_spec_guarded : forall u t0 jstep path, wf_query u t0 jstep path ->
  guard u jstep path (repeat SSubquery (length path)) = true ->
  load should_nest (repeat SSubquery (length path)) u t0 jstep path = load_spec u t0 jstep path.
Proof. exact subquery_eq_spec_guarded. Qed.
Print Assumptions c40_subquery_eq_spec_guarded.

(* DEFECT (reproduced on the implementation): subqueryload of a many-to-one relationship re-issues the
   user's statement as SELECT DISTINCT <fk>, <order columns>; with a duplicating JOIN and an OFFSET the
   DISTINCT shifts the window, the parent row falls outside it and the attribute is loaded as None.
   The witness is outside [guard]; selectin loads it correctly. *)
Theorem c40_subquery_m2o_distinct_offset_refuted :
  exists u t0 jstep path, wf_query u t0 jstep path /\ guard u jstep path [SSubquery] = false /\
    load should_nest [SSubquery] u t0 jstep path <> load_spec u t0 jstep path /\
    load should_nest [SSelectin 0] u t0 jstep path = load_spec u t0 jstep path.
Proof. exact subquery_m2o_distinct_offset_refuted. Qed.
Print Assumptions c40_subquery_m2o_distinct_offset_refuted.

(* key lemma: grouping the ordered rows of parents LEFT OUTER JOIN children by parent identity recovers
   each parent's children in relationship order (for ANY sorted arrangement of the joined rows) *)
Theorem c40_left_join_group_roundtrip : forall s attach o0 (H : list tagged) rows,
  wf_step s -> tag_inj H -> o0 <> ONone -> sorted (hkey o0) H ->
  eqset rows (ljoin_rows [s] H) -> sorted (jkey o0 [s]) rows ->
  proc [s] attach rows =
  map (fun h => (fst h, Node (snd h) (map (fun c => Node c (attach c)) (related s (snd h))))) (uniq_by tagged_id H).
Proof. exact left_join_group_roundtrip. Qed.
Print Assumptions c40_left_join_group_roundtrip.

(* ... through any depth of eager-joined levels *)
Theorem c40_joined_chain_roundtrip : forall chain attach e tails, Forall wf_step chain ->
  eqset tails (ljoin_chain chain (Some e)) -> sorted (tail_key chain) tails ->
  build chain attach e tails = gchain chain attach e.
Proof. exact build_correct. Qed.
Print Assumptions c40_joined_chain_roundtrip.

(* LIMIT commutes with the eager join only with the wrap: without it (the un-wrapped form) joined
   loading is refuted; c40_all_strategies_agree shows that wrapping wherever _should_nest_selectable
   asks for it suffices *)
Theorem c40_limit_commutes_only_with_wrap_refuted :
  exists u t0 jstep path, wf_query u t0 jstep path /\
    load never_nest [SJoined] u t0 jstep path <> load_spec u t0 jstep path.
Proof. exact limit_commutes_only_with_wrap_refuted. Qed.
Print Assumptions c40_limit_commutes_only_with_wrap_refuted.

(* either statement form returns an ordered version of (primary rows) LEFT OUTER JOIN (eager chain) *)
Theorem c40_statement_rows : forall nestf src chain, nest_covers nestf -> Forall wf_step chain ->
  sorted (jkey (src_order src) chain) (eval_stmt nestf src chain) /\
  eqset (eval_stmt nestf src chain) (ljoin_rows chain (stmt_heads src)).
Proof. exact eval_stmt_char. Qed.
Print Assumptions c40_statement_rows.

Theorem c40_should_nest_spec : forall e m l o d don g,
  should_nest e m l o d don g = true <->
  e = true /\ ((l = true \/ o = true) /\ m = true \/ d = true \/ don = true \/ g = true).
Proof. exact should_nest_spec. Qed.
Print Assumptions c40_should_nest_spec.

(* the plan: all-joined is one statement; IN chunks partition the keys *)
Theorem c40_plan_joined_single_statement : forall nestf u t0 jstep path,
  plan nestf (repeat SJoined (length path)) u t0 jstep path = [(SrcUser u t0 jstep, path)].
Proof. exact plan_joined_single_statement. Qed.
Print Assumptions c40_plan_joined_single_statement.

Theorem c40_chunks_partition : forall (n : nat) (l : list Z), (1 <= n)%nat ->
  concat (chunks n l) = l /\ forall ch, In ch (chunks n l) -> ch <> [] /\ (length ch <= n)%nat.
Proof. exact (@chunks_partition Z). Qed.
Print Assumptions c40_chunks_partition.

(* composite keys: selectin groups the fetched rows by the FK columns listed by walking the parent's primary
   key; for EVERY order in which the join condition lists the column pairs, that key tuple equals the parent's
   identity key exactly when the join condition holds, so the collection / scalar is the related rows *)
Theorem c40_selectin_key_order_any_permutation : forall pairs pk p c, wf_pairs pairs pk -> pk_not_null pk p ->
  key_eqb (map (colval c) (fk_cols pairs pk)) (map (colval p) pk) = joined_on pairs p c.
Proof. exact key_match_iff_joined. Qed.
Print Assumptions c40_selectin_key_order_any_permutation.

Theorem c40_selectin_composite_down_eq_spec : forall pairs pk parents children, wf_pairs pairs pk ->
  Forall (pk_not_null pk) parents ->
  selectin_down (fk_cols pairs pk) pk parents children = spec_down pairs parents children.
Proof. exact selectin_down_eq_spec. Qed.
Print Assumptions c40_selectin_composite_down_eq_spec.

Theorem c40_selectin_composite_up_eq_spec : forall pairs pk parents children, wf_pairs pairs pk ->
  Forall (pk_not_null pk) parents ->
  selectin_up (fk_cols pairs pk) pk parents children = spec_up pairs parents children.
Proof. exact selectin_up_eq_spec. Qed.
Print Assumptions c40_selectin_composite_up_eq_spec.

(* ... and listing them in the join condition's own order is refuted (mirrored keys (1,2)/(2,1)) *)
Theorem c40_selectin_key_dict_order_refuted : exists pairs pk parents children,
  wf_pairs pairs pk /\ Forall (pk_not_null pk) parents /\
  selectin_down (fk_cols_dict_order pairs pk) pk parents children <> spec_down pairs parents children.
Proof. exact dict_order_refuted. Qed.
Print Assumptions c40_selectin_key_dict_order_refuted.

(* the identity-map shortcut of lazy / immediate many-to-one loading (loading.get_from_identity): an object
   found in the Session is used only if its class IS-A the relationship's target; then the result is the
   relational meaning whatever is already in the Session, for every class hierarchy *)
Theorem c40_m2o_lazy_history_independent : forall isa idmap db target fk, idmap_ok idmap db ->
  m2o_lazy isa isa idmap db target fk = m2o_spec isa db target fk.
Proof. exact m2o_lazy_history_independent. Qed.
Print Assumptions c40_m2o_lazy_history_independent.

(* accepting an object of an ANCESTOR class as well is refuted - and only with a pre-loaded Session *)
Theorem c40_m2o_lazy_accept_ancestors_refuted : exists (h : hierarchy) idmap db target fk,
  idmap_ok idmap db /\
  m2o_lazy (accept_ancestors (isa_fuel h 3)) (isa_fuel h 3) idmap db target fk <> m2o_spec (isa_fuel h 3) db target fk /\
  m2o_lazy (accept_ancestors (isa_fuel h 3)) (isa_fuel h 3) [] db target fk = m2o_spec (isa_fuel h 3) db target fk.
Proof. exact m2o_lazy_accept_ancestors_refuted. Qed.
Print Assumptions c40_m2o_lazy_accept_ancestors_refuted.

(* non-vacuity: a well-formed three-level example (one-to-many then many-to-one, NULL foreign keys,
   LIMIT/OFFSET, duplicating join + DISTINCT) on which mixed assignments are computed *)
Definition ex_p : list row := [mkRow 2 None None 1; mkRow 1 None None 0; mkRow 3 None None 1].
Definition ex_c : list row :=
  [mkRow 1 (Some 1) (Some 2) 2; mkRow 2 (Some 1) None 1; mkRow 3 (Some 3) (Some 2) 0; mkRow 4 None (Some 1) 0; mkRow 5 (Some 3) (Some 1) 2].
Definition ex_t : list row := [mkRow 1 None None 0; mkRow 2 None None 1].
Definition ex_path : list step := [mkStep Down OValId 1 ex_c; mkStep Up ONone 2 ex_t].
Definition ex_u : uquery := mkU (PJoin 1) true false OValDescId (Some 2%nat) (Some 0%nat).

Example c40_ex_wf : wf_query ex_u ex_p (hd_error ex_path) ex_path /\
                    guard ex_u (hd_error ex_path) ex_path [SSubquery; SJoined] = true.
Proof.
  assert (W : Forall wf_step ex_path).
  { constructor; [|constructor; [|constructor]];
      (split; [unfold wf_table; cbn; repeat constructor; cbn; intuition; discriminate|cbn; try discriminate; reflexivity]). }
  split; [|reflexivity]. split; [|split; [discriminate|split; [|exact W]]].
  - unfold wf_table. cbn. repeat constructor; cbn; intuition; discriminate.
  - intros s E. inversion E; subst. inversion W; auto.
Qed.
Example c40_ex_loads :
  load should_nest [SJoined; SSelectin 0] ex_u ex_p (hd_error ex_path) ex_path = load_spec ex_u ex_p (hd_error ex_path) ex_path /\
  load should_nest [SSubquery; SJoined] ex_u ex_p (hd_error ex_path) ex_path = load_spec ex_u ex_p (hd_error ex_path) ex_path /\
  length (load_spec ex_u ex_p (hd_error ex_path) ex_path) = 2%nat.
Proof. vm_compute. auto. Qed.
