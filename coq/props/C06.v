(* C06 - identifier quoting round-trips every representable name.
   Statements only; every proof is [exact <lemma>].  The theorems hold for EVERY dialect table [p] and
   backend grammar [b] that satisfy the boolean side conditions [wf_prep p] and [compat p b]; the check
   evaluates these side conditions on the tables regenerated from the current source on every run
   (build/C06/C06_obl.v on C06_tables.v: wf_<dialect>, compat_<dialect>, reserved_complete_sqlite, and the instances
   quote_lexes_back_<dialect>, unformat_format_<dialect>[_guarded/_refuted], quote_nl_<dialect>). *)
From Coq Require Import List NArith Bool.
Import ListNotations.
From SAV.sql Require Import Ident IdentProofs.
Open Scope N_scope.

(* What quote() emits for a non-empty name is read back by the backend (after the DBAPI driver's "%%"
   collapsing, [lex_sent]) as exactly one identifier: the name itself when it was delimited, the backend's folding
   of it when it was left bare.  (Unguarded since fix 67008c4: LEGAL_CHARACTERS is anchored with \Z.) *)
Theorem c06_quote_lexes_back : forall p b, wf_prep p = true -> compat p b = true ->
  forall name, name <> [] ->
  exists text, quote p name = Ok text /\ lex_sent b text = Some (stored p b name).
Proof. exact quote_lexes_back. Qed.
Print Assumptions c06_quote_lexes_back.

(* ... and whenever quoting is skipped the folding of the backend does not change the name
   (backends that fold to lower case or not at all: all modelled ones but Oracle) *)
Theorem c06_stored_is_name : forall p b, wf_prep p = true -> compat p b = true ->
  b_fold b <> FoldUpper -> forall name, stored p b name = name.
Proof. intros p b Hw Hc Hf name. exact (stored_identity p b Hw Hc name Hf). Qed.
Print Assumptions c06_stored_is_name.

(* ... while on a backend that folds bare identifiers to upper case (Oracle) the stored name is the name
   up to ASCII case: lower-casing what is stored gives the name back (the convention normalize_name implements) *)
Theorem c06_stored_upper_is_name_ignoring_case : forall p b, wf_prep p = true -> compat p b = true ->
  forall name, requires_quotes p name = Ok false -> map ascii_lower1 (map ascii_upper1 name) = name.
Proof. exact bare_fold_upper_lower. Qed.
Print Assumptions c06_stored_upper_is_name_ignoring_case.

(* formerly c06_quote_lexes_back_refuted (a name of legal characters plus one final newline was emitted
   bare: "$" matched before the newline); repaired by 67008c4, now a positive example *)
Example c06_ex_final_newline_is_quoted :
  quote sample_prep [97; 10] = Ok [34; 97; 10; 34] /\ lex_sent sample_backend [34; 97; 10; 34] = Some [97; 10].
Proof. vm_compute. split; reflexivity. Qed.

(* forced quoting (quoted_name(..., quote=True)) always reads back as the name, the empty name included *)
Theorem c06_quote_identifier_lexes_back : forall p b, wf_prep p = true -> compat p b = true ->
  forall name, lex_sent b (quote_identifier p name) = Some name.
Proof. exact quote_identifier_lexes_back. Qed.
Print Assumptions c06_quote_identifier_lexes_back.

(* the result of _requires_quotes does not depend on str.lower() outside the legal character class *)
Theorem c06_not_legal_is_quoted : forall p name, name <> [] -> legal_match p name = false ->
  requires_quotes p name = Ok true.
Proof. exact requires_quotes_not_legal. Qed.
Print Assumptions c06_not_legal_is_quoted.

(* EXACT description of unformat_identifiers(format(...)): every component comes back, with each "%"
   doubled when the dialect doubles percent signs ([pctd]) *)
Theorem c06_unformat_format_exact : forall p, wf_prep p = true -> forall names text,
  format_path p names = Ok text -> Forall (fun v => v <> []) names ->
  unformat p text = Some (map (pctd p) names).
Proof. exact unformat_format_exact. Qed.
Print Assumptions c06_unformat_format_exact.

(* splitting a formatted dotted identifier recovers the components.  Guard: "%" doubling is off, or no
   component contains "%" *)
Theorem c06_unformat_format_guarded : forall p, wf_prep p = true -> forall names text,
  format_path p names = Ok text ->
  (p_esc_pct p = false \/ Forall (fun v => ~ In pct v) names) ->
  Forall (fun v => v <> []) names ->
  unformat p text = Some names.
Proof. exact unformat_format_guarded. Qed.
Print Assumptions c06_unformat_format_guarded.

(* DEFECT (format/pyformat dialects): _unescape_identifier does not undo the "%%" of _escape_identifier *)
Theorem c06_unformat_format_refuted : exists p names text,
  wf_prep p = true /\ Forall (fun v => v <> []) names /\
  format_path p names = Ok text /\ unformat p text = Some [[97; 37; 37; 98]] /\ names = [[97; 37; 98]].
Proof.
  exists sample_prep, [[97; 37; 98]], [34; 97; 37; 37; 98; 34]. vm_compute.
  repeat split. constructor; [discriminate|constructor].
Qed.
Print Assumptions c06_unformat_format_refuted.

(* ... and the guard is exact: whenever the dialect doubles "%" and some component contains one, the
   components are NOT recovered *)
Theorem c06_unformat_format_refuted_all : forall p, wf_prep p = true -> forall names text,
  format_path p names = Ok text -> Forall (fun v => v <> []) names ->
  p_esc_pct p = true -> Exists (fun v => In pct v) names -> unformat p text <> Some names.
Proof. exact unformat_format_refuted_all. Qed.
Print Assumptions c06_unformat_format_refuted_all.

(* format_table / format_column (schema.table.column) are such dotted forms *)
Theorem c06_format_column_unformat_guarded : forall p, wf_prep p = true -> forall s t c text,
  s <> [] -> t <> [] -> c <> [] ->
  format_column p (Some s) t c = Ok text ->
  (p_esc_pct p = false \/ Forall (fun v => ~ In pct v) [s; t; c]) ->
  unformat p text = Some [s; t; c].
Proof. exact format_column_unformat_guarded. Qed.
Print Assumptions c06_format_column_unformat_guarded.

Theorem c06_format_table_unformat_guarded : forall p, wf_prep p = true -> forall s t text,
  s <> [] -> t <> [] ->
  format_table p (Some s) t = Ok text ->
  (p_esc_pct p = false \/ Forall (fun v => ~ In pct v) [s; t]) ->
  unformat p text = Some [s; t].
Proof. exact format_table_unformat_guarded. Qed.
Print Assumptions c06_format_table_unformat_guarded.

(* DDLCompiler._prepared_index_name (CREATE INDEX / DROP INDEX): the schema-qualified index name is
   quote(schema) "." quote(index name) ... *)
Theorem c06_prepared_index_name_components : forall p s i text, s <> [] ->
  prepared_index_name p true (Some s) i = Ok text ->
  exists qs qi, quote p s = Ok qs /\ quote p i = Ok qi /\ text = qs ++ dot :: qi.
Proof. exact prepared_index_name_components. Qed.
Print Assumptions c06_prepared_index_name_components.

(* ... so the backend reads both components back as the stored names ... *)
Theorem c06_prepared_index_name_lexes_back : forall p b, wf_prep p = true -> compat p b = true ->
  forall s i, s <> [] -> i <> [] ->
  exists qs qi, prepared_index_name p true (Some s) i = Ok (qs ++ dot :: qi) /\
                lex_sent b qs = Some (stored p b s) /\ lex_sent b qi = Some (stored p b i).
Proof. exact prepared_index_name_lexes_back. Qed.
Print Assumptions c06_prepared_index_name_lexes_back.

(* ... and unformat_identifiers splits it into schema and index name (guard: the percent defect) *)
Theorem c06_prepared_index_name_unformat_guarded : forall p, wf_prep p = true -> forall s i text,
  s <> [] -> i <> [] -> prepared_index_name p true (Some s) i = Ok text ->
  (p_esc_pct p = false \/ Forall (fun v => ~ In pct v) [s; i]) ->
  unformat p text = Some [s; i].
Proof. exact prepared_index_name_unformat_guarded. Qed.
Print Assumptions c06_prepared_index_name_unformat_guarded.

(* the splitter (findall of _r_identifiers) terminates on every text: the fuel of the model suffices *)
Theorem c06_unformat_total : forall p text, unformat p text <> None.
Proof. exact unformat_total. Qed.
Print Assumptions c06_unformat_total.

(* the "%%" of a format/pyformat statement is undone by the driver, whatever text follows *)
Theorem c06_driver_undoes_percent_doubling : forall s t u, undouble_strict pct t = Some u ->
  undouble_strict pct (double pct s ++ t) = Some (s ++ u).
Proof. exact (undouble_strict_double_app pct). Qed.
Print Assumptions c06_driver_undoes_percent_doubling.

(* finite keyword check lifted: if the boolean check passes, every listed keyword is reserved *)
Theorem c06_reserved_complete : forall kw reserved,
  forallb (fun w => mem_str w reserved) kw = true -> forall w, In w kw -> In w reserved.
Proof. exact reserved_complete. Qed.
Print Assumptions c06_reserved_complete.

(* the empty name is outside the property: quote("") raises IndexError (value[0]) *)
Theorem c06_empty_name_index_error : forall p, wf_prep p = true -> quote p [] = RaiseIndexError.
Proof. exact empty_name_index_error. Qed.
Print Assumptions c06_empty_name_index_error.

(* non-vacuity: the side conditions are satisfiable, and each path of quote() is taken *)
Example c06_ex_side_conditions : wf_prep sample_prep = true /\ compat sample_prep sample_backend = true.
Proof. vm_compute. split; reflexivity. Qed.
Example c06_ex_paths :
  quote sample_prep [97; 98] = Ok [97; 98] /\                                   (* ab: bare *)
  quote sample_prep [65; 98] = Ok [34; 65; 98; 34] /\                           (* Ab: mixed case *)
  quote sample_prep [115; 101; 108; 101; 99; 116] = Ok [34; 115; 101; 108; 101; 99; 116; 34] /\  (* select *)
  quote sample_prep [49; 97] = Ok [34; 49; 97; 34] /\                           (* 1a: illegal initial *)
  quote sample_prep [97; 34; 37] = Ok [34; 97; 34; 34; 37; 37; 34] /\           (* a, double quote, percent: both escapes *)
  lex_sent sample_backend [34; 97; 34; 34; 37; 37; 34] = Some [97; 34; 37] /\
  lex_sent sample_backend [34; 97; 37; 98; 34] = None /\                       (* a lone percent sign: rejected by the driver *)
  lex_ident sample_backend [115; 101; 108; 101; 99; 116] = None /\
  unformat sample_prep [34; 97; 46; 98; 34; 46; 99] = Some [[97; 46; 98]; [99]] /\
  prepared_index_name sample_prep true (Some [97; 32; 98]) [105] = Ok [34; 97; 32; 98; 34; 46; 105] /\
  prepared_index_name sample_prep false (Some [97; 32; 98]) [105] = Ok [105].
Proof. vm_compute. repeat split; reflexivity. Qed.
