(* C34 - the identity map holds at most one object per row (identity key).
   Statements only; every proof is [exact <lemma>].

   Model: SAV.orm.IdMap (one Session; queries by several routes incl. populate_existing / yield_per /
   identity tokens, get, refresh, merge, expunge, add, primary-key change, flush, commit, rollback, delete;
   database rows and attribute-level state are inputs of each operation and universally quantified here).
   [imap st k i]: the identity map of state [st] maps identity key [k] to object number [i]. *)
From Coq Require Import List ZArith Bool.
Import ListNotations.
From SAV.orm Require Import IdMap IdMapSpec IdMapLemmas IdMapProofs IdMapMain IdMapPartial.
Open Scope Z_scope.

(* functional: in every reachable state (every history, every environment) an identity key is mapped to
   at most one object *)
Theorem c34_identity_map_functional : forall eoc pks h k i j,
  imap (run h (init eoc pks)) k i -> imap (run h (init eoc pks)) k j -> i = j.
Proof. intros eoc pks h. exact (reachable_functional eoc pks h). Qed.
Print Assumptions c34_identity_map_functional.

(* key_consistent, the part that holds unconditionally: what the map holds carries an identity key (the key
   it is mapped under, by definition of [imap]); what is pending has none *)
Theorem c34_mapped_objects_have_their_key : forall eoc pks h k o,
  nth_error (objs (run h (init eoc pks))) k = Some o ->
  (iimap o = true -> okey o <> None) /\ (inew o = true -> okey o = None).
Proof. exact reachable_keyed. Qed.
Print Assumptions c34_mapped_objects_have_their_key.

(* the invariant behind both is preserved by every single operation from every state satisfying it *)
Theorem c34_every_operation_preserves_the_invariant : forall e o st, Inv st -> Inv (rst (step e o st)).
Proof. exact step_inv. Qed.
Print Assumptions c34_every_operation_preserves_the_invariant.

(* query_returns_mapped_object: a query that does not raise returns, row by row (primary keys [rws] in
   order), the object that the identity map holds for (pk, token) afterwards *)
Theorem c34_query_returns_mapped_object : forall e tok st,
  rerr (do_query e tok st) = 0 ->
  exists rws, Forall2 (fun pk h => imap (rst (do_query e tok st)) (pk, tok) h) rws (robjs (do_query e tok st)).
Proof. exact query_returns_mapped. Qed.
Print Assumptions c34_query_returns_mapped_object.

(* get_no_sql_when_present_and_unexpired: the mapped object is returned, no SQL is emitted, nothing changes *)
Theorem c34_get_no_sql_when_present_and_unexpired : forall e k st h,
  functional st -> imap st k h -> eexp e h = false ->
  do_get e k st = mkRes st 0 [h] true.
Proof. exact get_present_unexpired. Qed.
Print Assumptions c34_get_no_sql_when_present_and_unexpired.

(* refuted: "get returns the mapped object" - the object looked up before the autoflush is returned although
   the flush has deleted it and mapped another object under the identity *)
Theorem c34_get_returns_mapped_object_refuted : exists e k st,
  let r := step e (Get (fst k) (snd k)) st in
  rerr r = 0 /\ robjs r = [1%nat] /\ holder k (rst r) = Some 0%nat /\ persistent (get (rst r) 1) = false.
Proof. exists (env_of [1] true false), (1, 0), (run h_get_stale (init true [1; 1])). exact get_stale. Qed.
Print Assumptions c34_get_returns_mapped_object_refuted.

(* refuted: "what the map holds is attached to the session" (key_consistent, left to right) *)
Theorem c34_mapped_is_attached_refuted : exists eoc pks h,
  mapped_attached (run h (init eoc pks)) = false.
Proof. exists false, [1], h_detached_mapped. exact (proj1 detached_mapped). Qed.
Print Assumptions c34_mapped_is_attached_refuted.

(* refuted: "a persistent object is the mapped one / one persistent object per identity" (key_consistent,
   right to left), when a row vanishes behind the session ... *)
Theorem c34_one_object_per_identity_refuted : exists eoc pks h,
  one_persistent_per_key (run h (init eoc pks)) = false /\ persistent_mapped (run h (init eoc pks)) = false.
Proof. exists true, [1], h_row_vanished. exact row_vanished. Qed.
Print Assumptions c34_one_object_per_identity_refuted.

(* ... and without any outside interference: two pending objects with the primary key of an object deleted
   in the same flush are both turned into row switches *)
Theorem c34_double_row_switch_refuted :
  let e := env_of [] false false in let e1 := env_of [1] false false in
  let s1 := rst (step e Commit (rst (step e (Add 0) (init true [1; 1; 1])))) in
  let s2 := rst (step e1 (Add 2) (rst (step e1 (Add 1) (rst (step e1 (Delete 0) s1))))) in
  let st := rst (step e1 Flush s2) in
  one_persistent_per_key st = false /\ persistent_mapped st = false.
Proof. exact double_row_switch. Qed.
Print Assumptions c34_double_row_switch_refuted.

(* key_consistent, right to left ("a persistent object is the mapped one"), PARTIAL: proved per step of the
   model, not lifted to histories.  Every per-object step keeps it, and so does identity_map.replace() when
   it evicts nobody; what is missing is a guard on histories ("no replace() ever evicts another object")
   and the induction under it - the refutations above are exactly histories with such an eviction. *)
Theorem c34_persistent_is_mapped_partial :
  (forall h t, keeps pb (expunge_obj h t)) /\ (forall h, keeps pb (restore_expunge_obj h)) /\
  (forall h, keeps pb (newly_deleted_obj h)) /\ keeps pb expire_obj /\ keeps pb end_tx_obj /\
  (forall v, keeps pb (set_pk v)) /\ keeps pb revert_obj /\ (forall h k, keeps pb (register_obj h k)) /\
  keeps pb (fun o => set_sess true (set_iimap true (set_isdel false o))) /\
  keeps pb (fun o => set_isdel true (set_sess true (set_iimap true o))) /\
  (forall o, okey o = None -> pb (set_sess true (set_inew true o)) = true) /\
  (forall i k g st, Inv st -> (holder k st = None \/ holder k st = Some i) -> keeps pb g ->
     SP (fun _ => pb) st -> SP (fun _ => pb) (app_all (claiming i k g) st)).
Proof.
  exact (conj keeps_pb_expunge (conj keeps_pb_restore_expunge (conj keeps_pb_newly_deleted (conj keeps_pb_expire
        (conj keeps_pb_end_tx (conj keeps_pb_set_pk (conj keeps_pb_revert (conj keeps_pb_register (conj keeps_pb_update
        (conj keeps_pb_delete (conj keeps_pb_save (claiming_without_eviction pb)))))))))))).
Qed.
Print Assumptions c34_persistent_is_mapped_partial.

(* key_consistent, left to right ("what the map holds is attached"), PARTIAL in the same sense: every
   per-object step keeps it except the two with a side condition - the key-switch restore of
   _restore_snapshot needs the state to be attached (the refutation above), the commit-time detach of
   transaction._deleted needs its members to be out of the map *)
Theorem c34_mapped_is_attached_partial :
  (forall h t, keeps ab (expunge_obj h t)) /\ (forall h, keeps ab (restore_expunge_obj h)) /\
  (forall h, keeps ab (newly_deleted_obj h)) /\ keeps ab expire_obj /\ keeps ab end_tx_obj /\
  (forall v, keeps ab (set_pk v)) /\ keeps ab revert_obj /\ keeps ab (set_iimap false) /\
  (forall h k o, jb o = true -> ab o = true -> implb (inew o) (osess o) = true -> inew o || iimap o = true ->
     ab (register_obj h k o) = true) /\
  (forall old o, osess o = true -> ab (set_iimap true (set_key (Some old) o)) = true) /\
  (forall o, ab o = true -> implb (itdel o) (negb (iimap o)) = true ->
     ab (let o1 := if iimap o then expire_obj o else o in if itdel o1 then detach_obj false o1 else o1) = true).
Proof.
  exact (conj keeps_ab_expunge (conj keeps_ab_restore_expunge (conj keeps_ab_newly_deleted (conj keeps_ab_expire
        (conj keeps_ab_end_tx (conj keeps_ab_set_pk (conj keeps_ab_revert (conj keeps_ab_evict (conj keeps_ab_register
        (conj keeps_ab_unswitch keeps_ab_commit)))))))))).
Qed.
Print Assumptions c34_mapped_is_attached_partial.

(* the consistency predicates are satisfiable on a history through loads and mutations *)
Example c34_ex_consistent : let st := run h_good (init true [5]) in
  mapped_attached st = true /\ persistent_mapped st = true /\ one_persistent_per_key st = true /\
  length (objs st) = 4%nat.
Proof. exact good_consistent. Qed.
Example c34_ex_imap : imap (run h_good (init true [5])) (1, 0) 1.
Proof. eexists. split; [vm_compute; reflexivity|split; reflexivity]. Qed.
