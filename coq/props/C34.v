(* C34 - the identity map holds at most one object per row (identity key).
   Statements only; every proof is [exact <lemma>].

   Model: SAV.orm.IdMap (one Session; queries by several routes incl. populate_existing / yield_per /
   identity tokens, get, refresh, merge, expunge, add, primary-key change, flush, commit, rollback, delete;
   database rows and attribute-level state are inputs of each operation and universally quantified here).
   [imap st k i]: the identity map of state [st] maps identity key [k] to object number [i]. *)
From Coq Require Import List ZArith Bool.
Import ListNotations.
From SAV.orm Require Import IdMap IdMapSpec IdMapLemmas IdMapProofs IdMapMain IdMapGuarded.
Open Scope Z_scope.

(* functional: in every reachable state (every history, every environment) an identity key is mapped to
   at most one object *)
Theorem c34_identity_map_functional : forall eoc pks h k i j,
  imap (run h (init eoc pks)) k i -> imap (run h (init eoc pks)) k j -> i = j.
Proof. intros eoc pks h. exact (reachable_functional eoc pks h). Qed.
Print Assumptions c34_identity_map_functional.

(* key_consistent, the part that holds unconditionally: what the map holds carries an identity key (the key
   it is mapped under, by definition of [imap]); what is pending has none *)
Theorem c34_mapped_objects_have_their_key : forall eoc pks h k o,
  nth_error (objs (run h (init eoc pks))) k = Some o ->
  (iimap o = true -> okey o <> None) /\ (inew o = true -> okey o = None).
Proof. exact reachable_keyed. Qed.
Print Assumptions c34_mapped_objects_have_their_key.

(* the invariant behind both is preserved by every single operation from every state satisfying it *)
Theorem c34_every_operation_preserves_the_invariant : forall e o st, Inv st -> Inv (rst (step e o st)).
Proof. exact step_inv. Qed.
Print Assumptions c34_every_operation_preserves_the_invariant.

(* key_consistent in both directions, and "never more than one object for a given identity key", on the
   guarded region.  The guard is the ghost flag [bad] of the model (never read by it): it is raised when an
   identity_map.replace() evicts another object, when _restore_snapshot re-maps a state that is not attached,
   when was_already_deleted() / get() find the row of a mapped object gone, and when Session.delete() is
   given a state carrying the _deleted flag.  For every history after which the flag is still down (every
   length, every environment): each persistent object is the mapped one, everything mapped is attached, and
   two persistent objects never share an identity key *)
Theorem c34_key_consistent_guarded : forall eoc pks h, bad (run h (init eoc pks)) = false ->
  let st := run h (init eoc pks) in
  persistent_mapped st = true /\ mapped_attached st = true /\
  (forall i j oi oj, nth_error (objs st) i = Some oi -> nth_error (objs st) j = Some oj ->
     persistent oi = true -> persistent oj = true -> okey oi = okey oj -> i = j).
Proof. exact guarded_consistent. Qed.
Print Assumptions c34_key_consistent_guarded.

(* query_returns_mapped_object: a query that does not raise returns, row by row (primary keys [rws] in
   order), the object that the identity map holds for (pk, token) afterwards *)
Theorem c34_query_returns_mapped_object : forall e tok st,
  rerr (do_query e tok st) = 0 ->
  exists rws, Forall2 (fun pk h => imap (rst (do_query e tok st)) (pk, tok) h) rws (robjs (do_query e tok st)).
Proof. exact query_returns_mapped. Qed.
Print Assumptions c34_query_returns_mapped_object.

(* get_no_sql_when_present_and_unexpired: the mapped object is returned, no SQL is emitted, nothing changes *)
Theorem c34_get_no_sql_when_present_and_unexpired : forall e k st h,
  functional st -> imap st k h -> eexp e h = false ->
  do_get e k st = mkRes st 0 [h] true.
Proof. exact get_present_unexpired. Qed.
Print Assumptions c34_get_no_sql_when_present_and_unexpired.

(* refuted outside the guard: "what the map holds is attached to the session" (key_consistent, left to right) *)
Theorem c34_mapped_is_attached_refuted : exists eoc pks h,
  mapped_attached (run h (init eoc pks)) = false /\ bad (run h (init eoc pks)) = true.
Proof. exists false, [1], h_detached_mapped. exact (conj (proj1 detached_mapped) (proj2 (proj2 (proj2 detached_mapped)))). Qed.
Print Assumptions c34_mapped_is_attached_refuted.

(* refuted outside the guard: "a persistent object is the mapped one / one persistent object per identity"
   (key_consistent, right to left), when a row vanishes behind the session ... *)
Theorem c34_one_object_per_identity_refuted : exists eoc pks h,
  one_persistent_per_key (run h (init eoc pks)) = false /\ persistent_mapped (run h (init eoc pks)) = false /\
  bad (run h (init eoc pks)) = true.
Proof. exists true, [1], h_row_vanished. exact row_vanished. Qed.
Print Assumptions c34_one_object_per_identity_refuted.

(* ... and without any outside interference: two pending objects with the primary key of an object deleted
   in the same flush are both turned into row switches *)
Theorem c34_double_row_switch_refuted :
  let e := env_of [] false false in let e1 := env_of [1] false false in
  let s1 := rst (step e Commit (rst (step e (Add 0) (init true [1; 1; 1])))) in
  let s2 := rst (step e1 (Add 2) (rst (step e1 (Add 1) (rst (step e1 (Delete 0) s1))))) in
  let st := rst (step e1 Flush s2) in
  one_persistent_per_key st = false /\ persistent_mapped st = false /\ bad st = true.
Proof. exact double_row_switch. Qed.
Print Assumptions c34_double_row_switch_refuted.

(* formerly refuted, repaired in /repo 69ec57b: when the autoflush inside get() deletes the looked-up instance and
   maps a pending object with the same primary key, get() returns that mapped object (number 0), not the deleted one *)
Example c34_ex_get_returns_mapped_after_row_switch :
  let r := step (env_of [1] true false) (Get 1 0) (run h_get_stale (init true [1; 1])) in
  rerr r = 0 /\ robjs r = [0%nat] /\ holder (1, 0) (rst r) = Some 0%nat /\ persistent (get (rst r) 1) = false.
Proof. exact get_after_row_switch. Qed.
(* the consistency predicates are satisfiable on a history through loads and mutations *)
Example c34_ex_consistent : let st := run h_good (init true [5]) in
  mapped_attached st = true /\ persistent_mapped st = true /\ one_persistent_per_key st = true /\
  length (objs st) = 4%nat /\ bad st = false.
Proof. exact good_consistent. Qed.
Example c34_ex_imap : imap (run h_good (init true [5])) (1, 0) 1.
Proof. eexists. split; [vm_compute; reflexivity|split; reflexivity]. Qed.
