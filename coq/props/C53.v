(* C53 - horizontal sharding routes reads and writes per the shard choosers.
   Statements only; every proof is [exact <lemma>].  Model: coq/orm/Shard.v.
   All theorems hold for ALL chooser functions [sc] (shard_chooser), [ic] (identity_chooser),
   [ec] (execute_chooser), every initial content [d0] of the shard databases with unique primary keys per
   shard, and every program (list of session operations) - [reachable sc ic ec d0 st] says that [st] is
   the state after some program that raised no error. *)
From Coq Require Import List ZArith NArith Bool Permutation.
Import ListNotations.
From SAV.orm Require Import Shard ShardDb ShardInv ShardFlush ShardLoad ShardOps ShardDelete ShardThm ShardSticky.
Open Scope Z_scope.

(* ---------- clause 1: every flushed object is written to the shard its shard chooser selects ---------- *)

(* each pending object is INSERTed by the flush into the shard chosen for it - its preset identity token if
   it has one, otherwise shard_chooser applied to its attribute values at flush time -, becomes persistent
   with that shard as identity token, and its row is then stored in that shard *)
Theorem c53_write_goes_to_chosen_shard :
  forall (sc : row -> N) (ic : Z -> list N) (ec : qry -> list N) (d0 : dbs), wf_db d0 ->
  forall st st', reachable sc ic ec d0 st -> flush sc st = Ok st' ->
  forall o i, nth_error (insts st) o = Some i -> i_life i = Pending ->
  let s := match i_tok i with Some t => t | None => sc (i_cur i) end in
  exists i', nth_error (insts st') o = Some i' /\ i_life i' = Persistent /\ i_tok i' = Some s /\
             i_cur i' = i_cur i /\ In (i_cur i) (db st' s).
Proof. exact write_goes_to_chosen_shard. Qed.
Print Assumptions c53_write_goes_to_chosen_shard.

(* every statement written by any operation is routed: an INSERT goes to the preset token /
   shard_chooser(row) of a pending object with exactly these attribute values; an UPDATE or DELETE goes to the
   identity token of a persistent object with that primary key *)
Theorem c53_writes_are_routed :
  forall (sc : row -> N) (ic : Z -> list N) (ec : qry -> list N) (d0 : dbs), wf_db d0 ->
  forall st o st' r, reachable sc ic ec d0 st -> step sc ic ec st o = Ok (st', r) ->
  exists delta, wlog st' = wlog st ++ delta /\ Forall (routed sc (insts st)) delta.
Proof. exact writes_are_routed. Qed.
Print Assumptions c53_writes_are_routed.

(* there is no other write: the data the session sees is the replay of the logged statements on the
   initial data *)
Theorem c53_db_is_replay_of_log :
  forall (sc : row -> N) (ic : Z -> list N) (ec : qry -> list N) (d0 : dbs), wf_db d0 ->
  forall st, reachable sc ic ec d0 st -> apply_writes (wlog st) d0 = Ok (db st).
Proof. exact db_is_replay_of_log. Qed.
Print Assumptions c53_db_is_replay_of_log.

(* the last flushed / loaded row of every persistent object is stored in the shard named by its token *)
Theorem c53_persistent_row_in_token_shard :
  forall (sc : row -> N) (ic : Z -> list N) (ec : qry -> list N) (d0 : dbs), wf_db d0 ->
  forall st i, reachable sc ic ec d0 st -> In i (insts st) -> i_life i = Persistent ->
  exists t, i_tok i = Some t /\ In (i_old i) (db st t) /\ r_pk (i_old i) = r_pk (i_cur i).
Proof. exact persistent_row_in_token_shard. Qed.
Print Assumptions c53_persistent_row_in_token_shard.

(* the choice is made once: token and primary key of a persistent object never change afterwards
   (so later UPDATEs and the DELETE go to the shard of the first flush / of the load, whatever is assigned
   to the attributes the shard chooser looks at) *)
Theorem c53_token_is_sticky :
  forall (sc : row -> N) (ic : Z -> list N) (ec : qry -> list N) (d0 : dbs) st ops st' o i,
  wf_db d0 -> reachable sc ic ec d0 st -> run sc ic ec st ops = Ok st' ->
  nth_error (insts st) o = Some i -> i_life i <> Pending ->
  exists i', nth_error (insts st') o = Some i' /\ i_tok i' = i_tok i /\ r_pk (i_cur i') = r_pk (i_cur i).
Proof. exact token_is_sticky. Qed.
Print Assumptions c53_token_is_sticky.

(* ---------- clause 2: queries return the union of the rows of the shards the query chooser selects ---------- *)

(* after the autoflush the SELECT is emitted on exactly the shards of [execute_chooser q] (or the one
   shard given by set_shard / bind argument / set_shard_id), and the objects returned are, in order, one
   per matching row of each of these shards (rows of one shard in primary-key order), each carrying the
   shard it was read from as identity token and the attribute values of that row.  The legacy Query API
   returns the same objects with repetitions removed. *)
Theorem c53_query_is_union_of_chosen_shards :
  forall (sc : row -> N) (ic : Z -> list N) (ec : qry -> list N) (d0 : dbs), wf_db d0 ->
  forall st q tgt legacy st' r,
  reachable sc ic ec d0 st -> step sc ic ec st (OQuery q tgt legacy) = Ok (st', r) ->
  exists os st1,
    r = ROids (if legacy then dedup os else os) /\
    flush sc st = Ok st1 /\ db st' = db st1 /\
    rlog st' = rlog st ++ shards_for ec q tgt /\
    map (view (insts st')) os =
      map Some (flat_map (fun s => map (pair s) (sql_select q (db st' s))) (shards_for ec q tgt)).
Proof. exact query_is_union_of_chosen_shards. Qed.
Print Assumptions c53_query_is_union_of_chosen_shards.

(* as a multiset this is the union of the matching rows of the chosen shards *)
Theorem c53_query_union_as_multiset : forall q (ss : list N) (d : dbs),
  Permutation (flat_map (fun s => map (pair s) (sql_select q (d s))) ss)
              (flat_map (fun s => map (pair s) (filter (qmatch q) (d s))) ss).
Proof. exact query_union_as_multiset. Qed.
Print Assumptions c53_query_union_as_multiset.

Theorem c53_legacy_query_same_objects : forall os,
  NoDup (dedup os) /\ forall o, In o (dedup os) <-> In o os.
Proof. exact legacy_query_same_objects. Qed.
Print Assumptions c53_legacy_query_same_objects.

(* ---------- clause 3: same primary key in different shards = different objects ---------- *)

(* identity key = (class, pk, token): two different objects never agree on both pk and token *)
Theorem c53_identity_keys_distinct :
  forall (sc : row -> N) (ic : Z -> list N) (ec : qry -> list N) (d0 : dbs), wf_db d0 ->
  forall st o1 o2 i1 i2 t1 t2,
  reachable sc ic ec d0 st -> nth_error (insts st) o1 = Some i1 -> nth_error (insts st) o2 = Some i2 ->
  o1 <> o2 -> i_life i1 = Persistent -> i_life i2 = Persistent -> i_tok i1 = Some t1 -> i_tok i2 = Some t2 ->
  (r_pk (i_cur i1), t1) <> (r_pk (i_cur i2), t2).
Proof. exact identity_keys_distinct. Qed.
Print Assumptions c53_identity_keys_distinct.

(* two matching rows in two different chosen shards are returned as two different objects, each
   showing its own row - in particular when both rows have the same primary key *)
Theorem c53_same_pk_different_shards_distinct :
  forall (sc : row -> N) (ic : Z -> list N) (ec : qry -> list N) (d0 : dbs), wf_db d0 ->
  forall st q tgt st' os s1 s2 r1 r2,
  reachable sc ic ec d0 st -> do_query sc ec st q tgt = Ok (st', os) ->
  In s1 (shards_for ec q tgt) -> In s2 (shards_for ec q tgt) -> s1 <> s2 ->
  In r1 (db st' s1) -> qmatch q r1 = true -> In r2 (db st' s2) -> qmatch q r2 = true ->
  exists o1 o2, In o1 os /\ In o2 os /\ o1 <> o2 /\
                view (insts st') o1 = Some (s1, r1) /\ view (insts st') o2 = Some (s2, r2).
Proof. exact same_pk_different_shards_distinct. Qed.
Print Assumptions c53_same_pk_different_shards_distinct.

(* get with an identity token consults only that shard: the identity map under (pk, token), then at most
   one SELECT, on that shard; the answer belongs to that shard, and None means the shard has no such row *)
Theorem c53_get_with_token_hits_only_that_shard :
  forall (sc : row -> N) (ic : Z -> list N) (ec : qry -> list N) (d0 : dbs), wf_db d0 ->
  forall st k t st' res,
  reachable sc ic ec d0 st -> do_get sc ic ec st k (Some t) = Ok (st', res) ->
  (rlog st' = rlog st \/ rlog st' = rlog st ++ [t]) /\
  match res with
  | Some o => exists i, nth_error (insts st') o = Some i /\ i_tok i = Some t /\ r_pk (i_cur i) = k /\
                        has_pk k (db st' t) = true
  | None => has_pk k (db st' t) = false
  end.
Proof. exact get_with_token_hits_only_that_shard. Qed.
Print Assumptions c53_get_with_token_hits_only_that_shard.

(* several objects deleted in ONE flush, for ANY assignment of equal primary keys to different tokens:
   exactly the rows of the deleted identities (pk, token) disappear, each from the shard named by its
   token (a row of shard s survives iff no deleted object has token s and that pk), and one DELETE per
   deleted object is emitted, on the shard of its token *)
Theorem c53_flush_deletes_exactly_the_deleted_identities :
  forall (sc : row -> N) (ic : Z -> list N) (ec : qry -> list N) (d0 : dbs), wf_db d0 ->
  forall st os st', reachable sc ic ec d0 st -> do_delete sc st os = Ok st' ->
  exists st1, flush sc st = Ok st1 /\
    wlog st' = wlog st1 ++ flat_map (del_of st1) (dedup os) /\
    (forall o, In o os -> exists i, nth_error (insts st) o = Some i /\ i_life i = Persistent /\
                          del_of st1 o = match i_tok i with Some t => [WDel t (r_pk (i_cur i))] | None => [] end) /\
    (forall s x, In x (db st' s) <->
                 In x (db st1 s) /\ ~ exists o, In o os /\ is_identity st1 o s (r_pk x)).
Proof. intros sc ic ec d0 _. exact (flush_deletes_exactly_the_deleted_identities sc ic ec d0). Qed.
Print Assumptions c53_flush_deletes_exactly_the_deleted_identities.

(* merge of a detached object with identity key (pk, t) looks its target up under (pk, t) only: identity
   map, then at most one SELECT, on shard t.  The returned object shows the given values and carries
   token t (shard t has that pk), or it is a NEW pending object and shard t has no such row; every other
   object - in particular the object with the same pk of another shard - is left alone *)
Theorem c53_merge_targets_pk_and_token :
  forall (sc : row -> N) (ic : Z -> list N) (ec : qry -> list N) (d0 : dbs), wf_db d0 ->
  forall st r t st' ro, reachable sc ic ec d0 st -> do_merge sc ic ec st r t = Ok (st', ro) ->
  exists st1 o i, flush sc st = Ok st1 /\ ro = Some o /\ db st' = db st1 /\
    (rlog st' = rlog st \/ rlog st' = rlog st ++ [t]) /\
    nth_error (insts st') o = Some i /\ i_cur i = r /\
    ((i_tok i = Some t /\ has_pk (r_pk r) (db st' t) = true) \/
     (i_life i = Pending /\ i_tok i = None /\ has_pk (r_pk r) (db st' t) = false /\ (length (insts st1) <= o)%nat)) /\
    (forall o' i', o' <> o -> nth_error (insts st1) o' = Some i' -> nth_error (insts st') o' = Some i').
Proof. exact merge_targets_pk_and_token. Qed.
Print Assumptions c53_merge_targets_pk_and_token.

(* ---------- non-vacuity: attribute-based chooser, the same primary key 1 in both shards ---------- *)
Definition ex_sc (r : row) : N := if r_grp r =? 0 then 0%N else 1%N.
Definition ex_ic (k : Z) : list N := [0; 1]%N.
Definition ex_ec (q : qry) : list N := [1; 0]%N.
Definition ex_d0 : dbs := fun s => if N.eqb s 0 then [mkRow 1 0 5] else if N.eqb s 1 then [mkRow 1 1 6] else [].

Example c53_ex_wf : wf_db ex_d0.
Proof.
  intros s. unfold ex_d0. destruct (N.eqb s 0); [|destruct (N.eqb s 1)]; simpl; repeat constructor; simpl; tauto.
Qed.

(* a program that runs without error: the new object (number 0) goes to shard 1 (grp = 7); the query reads
   shard 1 then shard 0 and returns the rows with primary key 1 as two objects (numbers 1 and 2);
   get(1, token 0) finds number 2 in the identity map; assigning grp = 0 to object 0 (for which the chooser
   would now say shard 0) still UPDATEs shard 1 *)
Example c53_ex_run :
  exists st, run ex_sc ex_ic ex_ec (init ex_d0)
               [OAdd (mkRow 2 7 9) None; OQuery QAll None false; OGet 1 (Some 0%N); OSet 0 0 3; OCommit] = Ok st /\
             map (view (insts st)) [0; 1; 2; 3]%nat =
               [Some (1%N, mkRow 2 0 3); Some (1%N, mkRow 1 1 6); Some (0%N, mkRow 1 0 5); None] /\
             wlog st = [WIns None 1%N (mkRow 2 7 9); WUpd 1%N (mkRow 2 0 3)] /\
             rlog st = [1; 0]%N /\ db st 1%N = [mkRow 1 1 6; mkRow 2 0 3] /\ db st 0%N = [mkRow 1 0 5].
Proof. eexists. split; [vm_compute; reflexivity|]. vm_compute. repeat split. Qed.

(* the objects of both shards with primary key 1 deleted in one flush: both rows are gone; then a detached
   object with identity (1, shard 1) is merged: no such row -> a new pending object *)
Example c53_ex_delete_merge :
  exists st, run ex_sc ex_ic ex_ec (init ex_d0)
               [OQuery QAll None false; ODelete [0; 1]%nat; OMerge (mkRow 1 1 8) 1%N] = Ok st /\
             wlog st = [WDel 1%N 1; WDel 0%N 1] /\ db st 0%N = [] /\ db st 1%N = [] /\
             map (fun i => i_life i) (insts st) = [Gone; Gone; Pending].
Proof. eexists. split; [vm_compute; reflexivity|]. vm_compute. repeat split. Qed.
