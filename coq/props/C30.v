(* C30 - flush writes exactly the in-memory object graph to the database.
   Statements only; every proof is [exact <lemma>].

   Vocabulary (orm/Flush.v).  [state] = the objects of a session (class, lifecycle state 0 not in the session
   / 1 pending / 2 persistent / 3 marked deleted, scalar value, parent per relationship, and the HISTORY flags:
   scalar / relationship set since the last flush), the many-to-many members with their collection history,
   and the database (one row per object, secondary rows).  [apply rs s h] runs an operation history
   (new object, scalar assignment, re-parenting through either side of a relationship, many-to-many
   append/remove, delete, flush).  [flush] is history driven like the code: INSERT of every attribute of a
   pending object, UPDATE of the attributes with history whose value differs, foreign keys written only from
   relationship history, the loaded children of a deleted parent cleared, secondary rows from collection
   history, DELETE.  Spec: [rows_of_graph s] = one row per object that is in the session and not deleted, with
   its current scalar value and the identity of each current parent that is such an object; [load] = what a
   new session makes of the rows; [row_equiv] = same class, same scalar, same value in every foreign key
   column. *)
From Coq Require Import List NArith ZArith Bool.
Import ListNotations.
From SAV.orm Require Import Flush FlushProofs FlushSync FlushSyncProofs.

(* the database after a flush at the end of ANY operation history, over ANY set of relationships, is the
   rows of the object graph: row by row, and the secondary rows are exactly the many-to-many members *)
Theorem c30_flush_writes_graph : forall rs h,
  let s := flush (apply rs empty h) in
  (forall i, row_equiv (assoc i (rows s)) (assoc i (rows_of_graph s))) /\
  (forall x, In x (secs s) <-> In x (pairs s)).
Proof. exact flush_writes_graph_main. Qed.
Print Assumptions c30_flush_writes_graph.

(* the invariant behind it - "the database is the rows of the committed view, and whatever differs in the
   current view is recorded as history" - holds after every history (flushes anywhere inside it) *)
Theorem c30_invariant_all_histories : forall rs h, Inv (apply rs empty h).
Proof. intros rs h. exact (inv_history rs h empty inv_empty). Qed.
Print Assumptions c30_invariant_all_histories.

(* one flush from any state satisfying the invariant: the rows become the rows of the graph, and the
   invariant holds again with an empty history *)
Theorem c30_flush_reestablishes : forall s, Inv s ->
  (forall i, row_equiv (assoc i (rows (flush s))) (spec_row (flush s) i)) /\
  (forall x, In x (secs (flush s)) <-> In x (pairs (flush s))) /\ Inv (flush s).
Proof. intros s H. destruct (flush_spec s H) as [A B]. exact (conj A (conj B (inv_flush s H))). Qed.
Print Assumptions c30_flush_reestablishes.

(* loading the rows of a graph in a new session reproduces the graph *)
Theorem c30_reload_equiv : forall s, NoDup (map o_id (objs s)) -> load (rows_of_graph s) = graph_of s.
Proof. exact reload_equiv_main. Qed.
Print Assumptions c30_reload_equiv.

(* ------------------------------------------------------------------ primary key changes, composite keys *)
(* orm/FlushSync.v: parents with a natural key of ANY number of columns, passive_updates=False; operations:
   new parent / child, re-parenting, assignment to ONE key column, flush.  After a flush at the end of any
   history the parent rows carry the current keys and every child row carries, in every column, the current
   key of its parent (or NULL) *)
Theorem c30_key_change_writes_graph : forall n h, let s := nflush (napply n nempty h) in
  prow s = spec_prow s /\ crow s = spec_crow s.
Proof. exact key_change_writes_graph_main. Qed.
Print Assumptions c30_key_change_writes_graph.

(* the rule it rests on (sync._source_modified: some synchronize pair has a deleted history): if it answers
   "not modified" the whole key is unchanged, whatever the number of pairs ... *)
Theorem c30_source_modified_complete : forall old new, length old = length new ->
  source_modified old new = false -> old = new.
Proof. exact source_modified_false. Qed.
Print Assumptions c30_source_modified_complete.

(* ... which a rule that looks at the first pair only does not give *)
Theorem c30_first_pair_only_insufficient :
  exists old new, length old = length new /\ first_pair_only old new = false /\ old <> new.
Proof. exact first_pair_only_insufficient. Qed.
Print Assumptions c30_first_pair_only_insufficient.

(* non-vacuity: a child re-parented after a flush, its old parent deleted, a scalar changed *)
Local Open Scope N_scope.
Definition ex_rels : list rel := [{| r_id := 0; r_kind := 0; r_a := 1; r_b := 0; r_o2m := true |}].
Definition ex_hist : list op :=
  [ONew 0 0 1%Z; ONew 1 0 2%Z; ONew 2 1 3%Z; OPar 0 2 (Some 0); OFlush; OPar 0 2 (Some 1); OData 2 9%Z; ODel 0; OFlush].
Example c30_ex : rows (apply ex_rels empty ex_hist) =
  [(1, {| w_cls := 0; w_data := 2%Z; w_fk := [] |}); (2, {| w_cls := 1; w_data := 9%Z; w_fk := [(0, 1)] |})].
Proof. vm_compute. reflexivity. Qed.
