(* C37 - both sides of a bidirectional relationship always agree.
   Statements only; every proof is [exact <lemma>].  Model: orm/Backref.v; spec side: orm/BackrefSpec.v. *)
From Coq Require Import List NArith Bool.
Import ListNotations.
From SAV.orm Require Import Backref BackrefSpec BackrefBase BackrefTotal BackrefMain.
Open Scope N_scope.

(* one-to-many / many-to-one.  [inv_o2m] = the agreement
      forall p c, In c (collection of p) <-> (p <> None /\ parent of c = p)
   together with: collections hold no duplicates and no None, every parent attribute is loaded.
   Every primitive mutation on either side - append, insert, remove, pop, del l[i], l[i] = v, bulk
   replacement and del obj.collection on the collection; assignment and del on the scalar - that passes the guard (a member
   is never added to a collection that already holds it) preserves it.  An exception raised by the
   operation (ValueError, IndexError, AttributeError) leaves a state that satisfies it, too. *)
Theorem c37_agree_preserved_o2m_guarded : forall s p, inv_o2m s -> guard_o2m s p = true ->
  exists s', (step_prim O2M p s = Ok s' \/ exists e, step_prim O2M p s = Err e s') /\ inv_o2m s'.
Proof. exact o2m_step_guarded. Qed.
Print Assumptions c37_agree_preserved_o2m_guarded.

(* many-to-many: forall l r, In r (l.rs) <-> In l (r.ls), mutations on either side *)
Theorem c37_agree_preserved_m2m_guarded : forall s p, inv_m2m s -> guard_m2m s p = true ->
  exists s', (step_prim M2M p s = Ok s' \/ exists e, step_prim M2M p s = Err e s') /\ inv_m2m s'.
Proof. exact m2m_step_guarded. Qed.
Print Assumptions c37_agree_preserved_m2m_guarded.

(* all sequences (slice assignment and extend are sequences of del l[i] / insert / append): as long
   as every step passes the guard the invariant holds at the end *)
Theorem c37_agree_all_sequences_o2m_guarded : forall ps s s', inv_o2m s ->
  run_guarded O2M guard_o2m ps s = Some s' -> inv_o2m s'.
Proof. exact o2m_guarded_agree. Qed.
Print Assumptions c37_agree_all_sequences_o2m_guarded.

Theorem c37_agree_all_sequences_m2m_guarded : forall ps s s', inv_m2m s ->
  run_guarded M2M guard_m2m ps s = Some s' -> inv_m2m s'.
Proof. exact m2m_guarded_agree. Qed.
Print Assumptions c37_agree_all_sequences_m2m_guarded.

(* REFUTED (a), scalar-to-scalar pairs: the backref's own initiator token suppresses the pop on the
   old parent *)
Theorem c37_one_to_one_reassign_refuted :
  exists s, run_prims O2O [PSet SA 1 1; PSet SA 2 1] (empty_state O2O false) = Some s /\
            sa s 1 = CVal 1 /\ sa s 2 = CVal 1 /\ sb s 1 = CVal 2 /\ ~ agree_o2o s.
Proof. exact o2o_reassign_parent_side. Qed.
Print Assumptions c37_one_to_one_reassign_refuted.

Theorem c37_one_to_one_reassign_symmetric_refuted :
  exists s, run_prims O2O [PSet SB 1 1; PSet SB 2 1] (empty_state O2O false) = Some s /\
            sb s 1 = CVal 1 /\ sb s 2 = CVal 1 /\ sa s 1 = CVal 2 /\ ~ agree_o2o s.
Proof. exact o2o_reassign_child_side. Qed.
Print Assumptions c37_one_to_one_reassign_symmetric_refuted.

(* REFUTED (b), duplicates: the second append is exactly what the guard excludes *)
Theorem c37_duplicate_member_reparent_refuted :
  exists s1 s, run_prims O2M [PAppend SA 1 1] (empty_state O2M false) = Some s1 /\
    guard_o2m s1 (PAppend SA 1 1) = false /\
    run_prims O2M [PAppend SA 1 1; PSet SB 1 2] s1 = Some s /\
    coll_of s SA 1 = [1] /\ coll_of s SA 2 = [1] /\ sb s 1 = CVal 2 /\ ~ agree_o2m s.
Proof. exact o2m_duplicate_reparent. Qed.
Print Assumptions c37_duplicate_member_reparent_refuted.

Theorem c37_duplicate_member_pop_refuted :
  exists s, run_prims O2M [PAppend SA 1 1; PAppend SA 1 1; PPop SA 1 0] (empty_state O2M false) = Some s /\
    coll_of s SA 1 = [1] /\ sb s 1 = CVal 0 /\ ~ agree_o2m s.
Proof. exact o2m_duplicate_pop. Qed.
Print Assumptions c37_duplicate_member_pop_refuted.

Theorem c37_duplicate_member_m2m_refuted :
  exists s, run_prims M2M [PAppend SA 1 1; PAppend SB 1 1; PReplace SA 1 []] (empty_state M2M false) = Some s /\
    coll_of s SA 1 = [] /\ coll_of s SB 1 = [1] /\ ~ agree_m2m s.
Proof. exact m2m_duplicate_replace. Qed.
Print Assumptions c37_duplicate_member_m2m_refuted.

(* the unloaded-side exception, stated explicitly: child 1 is in p1's loaded collection, its own
   parent attribute is expired (the old value cannot be had without SQL); all loaded pairs agree and
   the guard passes, yet after  p2.cs.append(c1)  the child is in both collections *)
Theorem c37_unloaded_side_exception :
  (forall p c, sb unloaded_example c <> CUnl ->
               (In c (coll_of unloaded_example SA p) <-> p <> 0 /\ sb unloaded_example c = CVal p)) /\
  guard_o2m unloaded_example (PAppend SA 2 1) = true /\
  exists s, step_prim O2M (PAppend SA 2 1) unloaded_example = Ok s /\
            coll_of s SA 1 = [1] /\ coll_of s SA 2 = [1] /\ sb s 1 = CVal 2.
Proof. exact o2m_unloaded_side_exception. Qed.
Print Assumptions c37_unloaded_side_exception.

(* agree_after_reload: after flush + expire both sides are read from the same rows *)
Theorem c37_agree_after_reload_o2m : forall rows, functional_rows rows -> nonzero_rows rows ->
  agree_o2m (reload O2M rows).
Proof. exact reload_agree_o2m. Qed.
Print Assumptions c37_agree_after_reload_o2m.

Theorem c37_agree_after_reload_m2m : forall rows, agree_m2m (reload M2M rows).
Proof. exact reload_agree_m2m. Qed.
Print Assumptions c37_agree_after_reload_m2m.

Theorem c37_agree_after_reload_o2o_guarded : forall rows,
  functional_rows rows -> injective_rows rows -> nonzero_rows rows -> agree_o2o (reload O2O rows).
Proof. exact reload_agree_o2o. Qed.
Print Assumptions c37_agree_after_reload_o2o_guarded.

Theorem c37_agree_after_reload_o2o_refuted :
  let s := reload O2O [(1, 1); (1, 2)] in sa s 1 = CVal 1 /\ sb s 2 = CVal 1 /\ ~ agree_o2o s.
Proof. exact reload_o2o_two_children_refuted. Qed.
Print Assumptions c37_agree_after_reload_o2o_refuted.

(* after flush + commit + load the WHOLE invariant (agreement, no duplicates, everything loaded)
   holds for the state read back from the rows, so every guarded continuation preserves it *)
Theorem c37_invariant_after_commit_o2m : forall rows,
  NoDup rows -> functional_rows rows -> nonzero_rows rows -> inv_o2m (reload O2M rows).
Proof. exact reload_inv_o2m. Qed.
Print Assumptions c37_invariant_after_commit_o2m.

Theorem c37_invariant_after_commit_m2m : forall rows,
  NoDup rows -> nonzero_rows rows -> inv_m2m (reload M2M rows).
Proof. exact reload_inv_m2m. Qed.
Print Assumptions c37_invariant_after_commit_m2m.

(* the recursion between listeners and attribute implementations always terminates within the fuel
   of the model, for every relationship kind and every state (duplicates, unloaded cells included) *)
Theorem c37_fuel_sufficient : forall r p s, prim_kinded r p = true -> step_prim r p s <> OutOfFuel.
Proof. exact step_prim_total. Qed.
Print Assumptions c37_fuel_sufficient.

(* ---- non-vacuity ---- *)
Example c37_ex_inv_o2m : inv_o2m (empty_state O2M false) /\ inv_m2m (empty_state M2M true).
Proof. split; [apply empty_inv_o2m|apply empty_inv_m2m]. Qed.
Example c37_ex_sequence_o2m :
  exists s, run_guarded O2M guard_o2m
    [PAppend SA 1 1; PAppend SA 1 2; PSet SB 1 2; PReplace SA 1 [3; 1]; PInsert SA 2 0 2; PPop SA 1 0;
     PSetItem SA 1 0 3; PDel SB 2; PRemove SA 2 2; PAppend SA 1 2; PDelColl SA 1] (empty_state O2M false) = Some s /\
    coll_of s SA 1 = [] /\ coll_of s SA 2 = [] /\ sb s 1 = CVal 0 /\ sb s 3 = CVal 0 /\ sb s 2 = CVal 0.
Proof. eexists. split; [vm_compute; reflexivity|]. repeat split; reflexivity. Qed.
Example c37_ex_sequence_m2m :
  exists s, run_guarded M2M guard_m2m
    [PAppend SA 1 1; PAppend SB 2 1; PReplace SA 1 [2; 3]; PRemove SB 3 1; PSetItem SA 1 0 1; PAppend SA 1 2;
     PDelColl SA 1] (empty_state M2M false) = Some s /\
    coll_of s SA 1 = [] /\ coll_of s SB 1 = [] /\ coll_of s SB 2 = [] /\ coll_of s SB 3 = [].
Proof. eexists. split; [vm_compute; reflexivity|]. repeat split; reflexivity. Qed.
Example c37_ex_rows : functional_rows [(1, 1); (1, 2); (2, 3)] /\ nonzero_rows [(1, 1); (1, 2); (2, 3)].
Proof.
  split.
  - intros x x' y H H'. cbn in *. intuition congruence.
  - intros x y H. cbn in H. intuition congruence.
Qed.
