(* C52 - scoped_session gives each scope its own session.  Every statement holds for any number of
   threads, any assignment [keys] of scope keys to threads (several threads may share a scope) and
   every schedule (reach keys st := exists trace, run keys (init keys) trace = Some st). *)
From Coq Require Import List Arith Bool.
Import ListNotations.
From SAV.util Require Import Registry RegistryProofs.

(* repeated calls within one scope return the same Session: while no remove() of that scope deletes
   the entry, every __call__ made from that scope - by any thread of the scope, at any time, whatever
   all other threads do in between - returns that Session *)
Theorem c52_same_scope_same_session : forall keys k v tr st st',
  lookup k (reg (fst st)) = Some v -> run keys st tr = Some st' ->
  (forall e, In e tr -> is_del e = true -> keyof keys (actor e) <> k) ->
  lookup k (reg (fst st')) = Some v /\
  forall e w, In e tr -> keyof keys (actor e) = k -> returned e = Some w -> w = v.
Proof. intros keys k v. exact (same_scope_same_session keys k v). Qed.
Print Assumptions c52_same_scope_same_session.

(* different scopes hold different Sessions *)
Theorem c52_distinct_scopes_distinct_sessions : forall keys s ts, reach keys (s, ts) ->
  forall k1 k2 v, lookup k1 (reg s) = Some v -> lookup k2 (reg s) = Some v -> k1 = k2.
Proof. exact distinct_scopes_distinct_sessions. Qed.
Print Assumptions c52_distinct_scopes_distinct_sessions.

(* remove() (and every other operation) of one scope leaves every other scope's entry untouched *)
Theorem c52_other_scopes_untouched : forall keys st e st' k, stepf keys st e = Some st' ->
  keyof keys (actor e) <> k -> lookup k (reg (fst st')) = lookup k (reg (fst st)).
Proof. exact other_scopes_untouched. Qed.
Print Assumptions c52_other_scopes_untouched.

(* remove() closes only a Session of its own scope *)
Theorem c52_remove_closes_own_scope_only : forall keys s ts i v, reach keys (s, ts) ->
  nth_error ts i = Some (RC v) ->
  In (v, keyof keys i) (created s) /\ forall k', lookup k' (reg s) = Some v -> k' = keyof keys i.
Proof. exact remove_closes_own_scope_only. Qed.
Print Assumptions c52_remove_closes_own_scope_only.

(* non-vacuity, and the benign race the design mentions: two threads of ONE scope both miss, both run
   createfunc, setdefault keeps the first Session and both calls return it (the second is discarded) *)
Example c52_same_scope_race :
  run [7; 7] (init [7; 7])
    [EStartCall 0; EStartCall 1; ELookup 0 None; ELookup 1 None; ECreate 0 100; ECreate 1 101;
     ESetdefault 0 100; ESetdefault 1 100]
  = Some ({| reg := [(7, 100)]; closed := []; created := [(101, 7); (100, 7)] |}, [Idle; Idle]).
Proof. vm_compute. reflexivity. Qed.
