(* C22 - compiling a well-formed construct never fails with an internal error.  PARTIAL: what is proved is the
   totality of the compiler DISPATCH over the regenerated tables of all built-in dialect compilers, and three
   modelled fragments in which the current code does raise an internal exception (refuted + guarded).  The
   bodies of the visit_* methods are not modelled; for them specs/c22.py explores (compile fuzz), it proves
   nothing.  Statements only; every proof is [exact <lemma>]. *)
From Coq Require Import List NArith Bool.
Import ListNotations.
From SAV.sql Require Import Dispatch DispatchProofs DispatchFrag DispatchFragProofs DispatchCte DispatchCteProofs.
From SAV.sql Require Ident IdentProofs.

(* ---------------- (a) dispatch totality ---------------- *)
(* For any table that passes the finite check [covers] (evaluated by vm_compute on the tables regenerated from
   the source on every run: Gen_C22_obl.gen_covers), for every dialect, for EVERY construct tree - any depth,
   any visit names, known or unknown, any binary / expression-list operators, unary and clause-list operators
   from the library's own lists, custom operators with any visit_name - the chain of dispatch steps never
   ends in an internal error: it succeeds or raises the documented UnsupportedCompilationError / CompileError *)
Theorem c22_dispatch_total : forall T, covers T = true -> forall d, In d (dialects T) ->
  forall n, wf T n = true -> forall e, walk T d n <> RInt e.
Proof. exact dispatch_total. Qed.
Print Assumptions c22_dispatch_total.

Theorem c22_dispatch_ok_or_documented : forall T, covers T = true -> forall d, In d (dialects T) ->
  forall n, wf T n = true -> walk T d n = ROk \/ exists e, walk T d n = RDoc e.
Proof. exact dispatch_total_cases. Qed.
Print Assumptions c22_dispatch_ok_or_documented.

(* no dispatch step (element, binary, expression list, unary, custom operator) ever selects a method the
   visitor does not have *)
Theorem c22_selected_method_exists : forall T c o m, any_dispatch T c o -> o = Method m -> has_attr T c m = true.
Proof. exact selected_method_exists. Qed.
Print Assumptions c22_selected_method_exists.

(* a missing method is reached only through the documented path, and that path only for a missing method *)
Theorem c22_unsupported_only_for_missing_method : forall T c vn,
  elem_dispatch T c vn = Doc Unsupported -> has_attr T c vn = false /\ has_attr T c (n_unsupported T) = true.
Proof. exact unsupported_means_missing. Qed.
Print Assumptions c22_unsupported_only_for_missing_method.

(* ---------------- outside the guard [wf]: the unguarded statement is false ---------------- *)
(* UnaryExpression(x, operator=<op without visit_<op>_unary_operator and without OPERATORS entry>), e.g. like_op:
   visit_unary evaluates OPERATORS[op] bare -> KeyError; holds for the current tables: Gen_C22_obl.gen_unary_unlisted_refuted *)
Theorem c22_unary_unlisted_operator_keyerror_refuted : forall T d op ns e,
  has_attr T (d_sql d) (n_unary T) = true ->
  names_of T op = Some ns -> has_attr T (d_sql d) (on_unop ns) = false -> memN op (generic_ops T) = false ->
  walk T d (NUnary (Some op) None None e) = RInt KeyErr.
Proof. exact unary_unlisted_operator_keyerror. Qed.
Print Assumptions c22_unary_unlisted_operator_keyerror_refuted.

Theorem c22_clauselist_unlisted_operator_keyerror_refuted : forall T d op kids,
  has_attr T (d_sql d) (n_clist T) = true -> memN op (generic_ops T) = false ->
  walk T d (NClauseList (Some op) kids) = RInt KeyErr.
Proof. exact clauselist_unlisted_operator_keyerror. Qed.
Print Assumptions c22_clauselist_unlisted_operator_keyerror_refuted.

(* the very same operator in a BinaryExpression raises the documented error: the paths are inconsistent *)
Theorem c22_binary_unlisted_operator_documented : forall T d op ns l r,
  has_attr T (d_sql d) (n_binary T) = true ->
  names_of T op = Some ns -> has_attr T (d_sql d) (on_binary ns) = false -> memN op (generic_ops T) = false ->
  walk T d (NBinary op None l r) = RDoc Unsupported.
Proof. exact binary_unlisted_operator_documented. Qed.
Print Assumptions c22_binary_unlisted_operator_documented.

(* a Visitable without __visit_name__ (TypeEngine(), TupleType, JSON.JSONIndexType ...) has no _compiler_dispatch *)
Theorem c22_no_dispatch_attributeerror_refuted : forall T d, walk T d NNoDispatch = RInt AttributeErr.
Proof. exact nodispatch_attributeerror. Qed.
Print Assumptions c22_no_dispatch_attributeerror_refuted.

(* ---------------- (b) modelled internal-error fragments ---------------- *)
(* CREATE/DROP INDEX of an unnamed index through an override without the "index.name is None" test *)
Theorem c22_unnamed_index_assertion_refuted : visit_index_ddl false NameNone = DAssertionError.
Proof. exact index_unchecked_none_asserts. Qed.
Print Assumptions c22_unnamed_index_assertion_refuted.

Theorem c22_unnamed_index_checked_guarded : forall n, n <> NameDeferred None -> visit_index_ddl true n <> DAssertionError.
Proof. exact index_checked_no_assert. Qed.
Print Assumptions c22_unnamed_index_checked_guarded.

Theorem c22_index_assertion_exactly : forall checked n,
  visit_index_ddl checked n = DAssertionError <-> (n = NameDeferred None \/ (checked = false /\ n = NameNone)).
Proof. exact index_assert_iff. Qed.
Print Assumptions c22_index_assertion_exactly.

(* operate, pickle round trip, operate on an Integer-typed element: AttributeError on NullType *)
Theorem c22_pickled_comparator_attributeerror_refuted :
  run (fresh TInteger) [Operate; Pickle; Operate] = [OpOk; OpAttributeError].
Proof. exact pickled_comparator_attributeerror. Qed.
Print Assumptions c22_pickled_comparator_attributeerror_refuted.

(* every history in which no pickle follows an operate is fine, for every type *)
Theorem c22_pickle_before_operate_guarded : forall t h,
  operate_before_pickle false h = false -> Forall (fun o => o = OpOk) (run (fresh t) h).
Proof. exact pickle_before_operate_guarded. Qed.
Print Assumptions c22_pickle_before_operate_guarded.

(* ... and every history at all for the types without a lookup-based comparator *)
Theorem c22_pickle_nolookup_guarded : forall t h, has_lookup t = false -> Forall (fun o => o = OpOk) (run (fresh t) h).
Proof. exact pickled_comparator_nolookup_ok. Qed.
Print Assumptions c22_pickle_nolookup_guarded.

(* the empty identifier: IdentifierPreparer._requires_quotes evaluates value[0] (C06's model of the function) *)
Theorem c22_empty_identifier_indexerror_refuted : forall p,
  Ident.mem_str [] (Ident.p_reserved p) = false -> Ident.requires_quotes p [] = Ident.RaiseIndexError.
Proof. exact IdentProofs.requires_quotes_empty. Qed.
Print Assumptions c22_empty_identifier_indexerror_refuted.

Theorem c22_nonempty_identifier_guarded : forall p c r, Ident.requires_quotes p (c :: r) <> Ident.RaiseIndexError.
Proof. exact IdentProofs.requires_quotes_nonempty. Qed.
Print Assumptions c22_nonempty_identifier_guarded.

(* ---------------- the CTE registry of visit_cte (ctes_by_level_name): the "nest_here" move ---------------- *)
(* delete-then-set registers the CTE under its new (level, name) key for EVERY pair of old / new keys, equal ones
   included (a CTE pinned at the level where it was first seen): the later  ctes_by_level_name[cte_level_name]  finds it *)
Theorem c22_cte_move_registers : forall old new cte m, reg_get new (move old new cte m) = Some cte.
Proof. exact move_registers. Qed.
Print Assumptions c22_cte_move_registers.

Theorem c22_cte_move_unregisters_old : forall old new cte m, lkey_eqb old new = false -> reg_get old (move old new cte m) = None.
Proof. exact move_unregisters_old. Qed.
Print Assumptions c22_cte_move_unregisters_old.

Theorem c22_cte_move_frame : forall old new cte m k, lkey_eqb k old = false -> lkey_eqb k new = false ->
  reg_get k (move old new cte m) = reg_get k m.
Proof. exact move_frame. Qed.
Print Assumptions c22_cte_move_frame.

(* the two statements in the other order differ from the code exactly on equal keys, where the CTE is lost (KeyError) *)
Theorem c22_cte_move_swapped_loses_equal_key : forall k cte m, reg_get k (move_swapped k k cte m) = None.
Proof. exact move_swapped_loses_equal_key. Qed.
Print Assumptions c22_cte_move_swapped_loses_equal_key.

Theorem c22_cte_move_swapped_same_when_distinct : forall old new cte m k, lkey_eqb old new = false ->
  reg_get k (move_swapped old new cte m) = reg_get k (move old new cte m).
Proof. exact move_swapped_same_when_distinct. Qed.
Print Assumptions c22_cte_move_swapped_same_when_distinct.

Example c22_ex_cte_move : reg_get (1, 7)%N (move (1, 7)%N (1, 7)%N 42%N [((1, 7), 42); ((1, 8), 43)]%N) = Some 42%N
  /\ reg_get (1, 8)%N (move (1, 7)%N (2, 7)%N 42%N [((1, 7), 42); ((1, 8), 43)]%N) = Some 43%N.
Proof. split; vm_compute; reflexivity. Qed.

(* ---------------- non-vacuity on a small concrete table (DispatchProofs.sample) ---------------- *)
Example c22_ex_covers : covers sample = true /\ tables_ok sample = true /\ In dA (dialects sample) /\ In dB (dialects sample).
Proof. repeat split; try (vm_compute; reflexivity); cbn; auto. Qed.

(* column + (-column) LIKE array(...) inside a comma list: fine on dialect B, Unsupported on A (no visit_array) *)
Definition ex_tree : node :=
  NClauseList (Some 4%N)
    [NBinary 1%N None (NBinary 0%N None (NElem KSql 5%N []) (NUnary (Some 2%N) None None (NElem KSql 5%N [])))
                      (NElem KSql 6%N [NElem KType 7%N []])].
Example c22_ex_walk : wf sample ex_tree = true /\ walk sample dB ex_tree = ROk /\ walk sample dA ex_tree = RDoc Unsupported.
Proof. repeat split; vm_compute; reflexivity. Qed.

(* every outcome of the model is reachable *)
Example c22_ex_outcomes :
  binary_dispatch sample 100 1 = Method 8%N /\ binary_dispatch sample 100 0 = Generic /\
  binary_dispatch sample 100 5 = Doc Unsupported /\ unary_dispatch sample 100 5 false = Int KeyErr /\
  elem_dispatch sample 103 99 = Doc Unsupported /\ elem_dispatch sample 102 99 = Doc Unsupported /\
  custom_dispatch sample 101 (Some 20%N) = Method 20%N /\ custom_dispatch sample 100 (Some 20%N) = Generic /\
  walk sample dA (NUnary (Some 2%N) (Some 3%N) None (NElem KSql 5%N [])) = RDoc CompileErr /\
  walk sample dA (NUnary None None None (NElem KSql 5%N [])) = RDoc CompileErr /\
  walk sample dA (NUnary None (Some 3%N) None (NElem KSql 5%N [])) = ROk /\
  walk sample dA (NBinary 6%N (Some 20%N) (NElem KSql 5%N []) (NElem KSql 5%N [])) = ROk /\
  walk sample dA (NExprList 0%N [NElem KSql 5%N []; NNoDispatch]) = RInt AttributeErr /\
  walk sample dA (NUnary (Some 5%N) None None (NElem KSql 5%N [])) = RInt KeyErr.
Proof. repeat split; vm_compute; reflexivity. Qed.

(* a compiler without the escape hatch is what [covers] excludes *)
Example c22_ex_no_hatch :
  elem_dispatch {| cls_methods := [(1, [5])]%N; cls_mro := [(1, [1])]%N; dialects := []; n_unsupported := 0;
                   n_binary := 1; n_unary := 2; n_elist := 3; n_clist := 4; generic_ops := []; op_table := [];
                   unary_ops := []; clist_ops := [] |} 1 6 = Int AttributeErr.
Proof. vm_compute; reflexivity. Qed.
