(* C56 - upsert statements insert or update exactly as their conflict clause says.
   Statements only; every proof is [exact <lemma>].

   [exec_impl shuffle sqlite embed cols ixs sa returning sorted page t ps] is the implementation path:
   user construct [sa] -> clause assembly (visit_on_conflict_do_update ...) -> rendered tokens -> the
   database's parser -> executemany strategy (row at a time / multi-row VALUES batches) over the reference
   database.  [upsert_spec ixs cls t ps] is the insert-or-update model: the fold of [upsert_one] over the
   parameter sets, for the clauses [cls = spec_of cols sa] the user's arguments SAY (SET items in the
   user's order, keys resolved to columns).  [shuffle] is the arbitrary order in which a database returns
   the RETURNING rows of one multi-row statement. *)
From Coq Require Import List ZArith Bool Permutation.
Import ListNotations.
From SAV.sql Require Import Upsert UpsertAsm UpsertParse UpsertSpec UpsertSynProofs UpsertAsmProofs
  UpsertExecProofs UpsertMyProofs UpsertWitness.

(* the rendered ON CONFLICT text parses back (hand-written parser over tokens) to exactly the abstract
   clauses it denotes, for every clause list that denotes something *)
Theorem c56_render_parse_roundtrip : forall cols cs cls,
  NoDup (map cname cols) ->
  abs_clauses cols cs = Some cls -> parse_clauses cols (r_clauses cols cs) = Some cls.
Proof. intros cols cs cls H. exact (parse_render_clauses cols H cs cls). Qed.
Print Assumptions c56_render_parse_roundtrip.

(* clause ASSEMBLY: what visit_on_conflict_do_update / _on_conflict_target render denotes the user's
   clause - same conflict target, same WHERE, the SET items a permutation of the user's items *)
Theorem c56_assembly_denotes_user_clauses : forall cols sa cls,
  wf_cols cols -> spec_of cols sa = Some cls -> Forall sets_nodup cls ->
  exists cls', abs_clauses cols (map (asm_clause cols) sa) = Some cls' /\ Forall2 clause_perm cls' cls.
Proof. intros cols sa cls H. exact (asm_clauses_perm cols H sa cls). Qed.
Print Assumptions c56_assembly_denotes_user_clauses.

(* the order of the SET items is irrelevant for an SQL UPDATE (simultaneous assignment) *)
Theorem c56_set_order_irrelevant : forall ixs cls cls' t newr bp,
  Forall2 clause_perm cls cls' -> Forall sets_nodup cls ->
  upsert_one ixs cls t newr bp = upsert_one ixs cls' t newr bp.
Proof. exact upsert_one_perm. Qed.
Print Assumptions c56_set_order_irrelevant.

(* MAIN (upsert_eq_insert_or_update_model), guarded: for all existing tables, parameter sets (conflicting or
   not, duplicates inside one executemany included), conflict clauses, RETURNING modes and page sizes: the
   table after the executemany is the fold of upsert_one, the returned rows are the affected rows (up to
   the order inside one multi-row statement), errors coincide.  Guards: no bound literal in index_where
   under executemany on SQLite (refuted below), and a batched execution has no per-row bindparam() outside
   the VALUES list - needed only with an embedded VALUES counter (refuted below for PostgreSQL); without it the
   guard reduces to "no bindparam() in index_where", see c56_upsert_eq_insert_or_update_model below *)
Theorem c56_upsert_eq_insert_or_update_model_guarded :
  forall shuffle, (forall l, Permutation (shuffle l) l) ->
  forall sqlite embed cols ixs sa returning sorted page t ps cls,
    wf_cols cols -> chain_ok sa = true -> spec_of cols sa = Some cls -> Forall sets_nodup cls ->
    sqlite && existsb uses_literal_execute sa && Nat.ltb 1 (length ps) = false ->
    (batched embed returning sorted (length ps) sa = true -> batch_safe sa = true) ->
    res_equiv (exec_impl shuffle sqlite embed cols ixs sa returning sorted page t ps)
              (upsert_spec ixs cls t ps).
Proof. exact exec_impl_equiv. Qed.
Print Assumptions c56_upsert_eq_insert_or_update_model_guarded.

(* MAIN without embedded counter (always on SQLite; since fixes e3b606f and 5319231 a bindparam() in DO UPDATE ..
   WHERE, or one with a default value that the parameter sets supply, forces row-at-a-time like one in SET):
   the batching guard is gone, only "no bindparam() inside index_where" (an assumption of the model) is left *)
Theorem c56_upsert_eq_insert_or_update_model :
  forall shuffle, (forall l, Permutation (shuffle l) l) ->
  forall sqlite cols ixs sa returning sorted page t ps cls,
    wf_cols cols -> chain_ok sa = true -> spec_of cols sa = Some cls -> Forall sets_nodup cls ->
    sqlite && existsb uses_literal_execute sa && Nat.ltb 1 (length ps) = false ->
    existsb has_iw_par sa = false ->
    res_equiv (exec_impl shuffle sqlite false cols ixs sa returning sorted page t ps)
              (upsert_spec ixs cls t ps).
Proof. exact exec_impl_equiv_no_embed. Qed.
Print Assumptions c56_upsert_eq_insert_or_update_model.

(* returning_rows_in_param_order: with sort_by_parameter_order (no embedded counter: always on SQLite) the
   result is EXACTLY the model's - rows of the affected parameter sets in parameter order, none for a
   skipped one - whatever order the database returns the rows of a statement in, bindparams anywhere *)
Theorem c56_returning_rows_in_param_order :
  forall shuffle, (forall l, Permutation (shuffle l) l) ->
  forall sqlite cols ixs sa returning page t ps cls,
    wf_cols cols -> chain_ok sa = true -> spec_of cols sa = Some cls -> Forall sets_nodup cls ->
    sqlite && existsb uses_literal_execute sa && Nat.ltb 1 (length ps) = false ->
    exec_impl shuffle sqlite false cols ixs sa returning true page t ps = upsert_spec ixs cls t ps.
Proof. exact returning_in_param_order. Qed.
Print Assumptions c56_returning_rows_in_param_order.

(* without RETURNING (DBAPI executemany) the executemany is exactly the model *)
Theorem c56_no_returning_exact :
  forall shuffle, (forall l, Permutation (shuffle l) l) ->
  forall sqlite embed cols ixs sa sorted page t ps cls,
    wf_cols cols -> chain_ok sa = true -> spec_of cols sa = Some cls -> Forall sets_nodup cls ->
    sqlite && existsb uses_literal_execute sa && Nat.ltb 1 (length ps) = false ->
    exec_impl shuffle sqlite embed cols ixs sa false sorted page t ps = upsert_spec ixs cls t ps.
Proof. exact no_returning_exact. Qed.
Print Assumptions c56_no_returning_exact.

(* a clause without conflict target that is not the last one is rejected at construction *)
Theorem c56_targetless_clause_must_be_last :
  forall shuffle sqlite embed cols ixs sa returning sorted page t ps,
    chain_ok sa = false ->
    exec_impl shuffle sqlite embed cols ixs sa returning sorted page t ps = Err EInvalidRequest.
Proof. exact chain_error. Qed.
Print Assumptions c56_targetless_clause_must_be_last.

(* formerly refuted (finding C56-where-bindparam-batched, fixed by e3b606f): bindparam() inside DO UPDATE ..
   WHERE, RETURNING without sort_by_parameter_order is now executed row at a time and agrees with the model *)
Example c56_ex_where_bindparam_unsorted :
  exists cls, spec_of w_cols wa_sa = Some cls /\
    batched false true false (length wa_ps) wa_sa = false /\
    exec_impl idf true false w_cols w_ixs wa_sa true false 1000 wa_t wa_ps = upsert_spec w_ixs cls wa_t wa_ps /\
    upsert_spec w_ixs cls wa_t wa_ps =
      Ok ([[Some 1; Some 0; Some 1; Some 5]; [Some 2; Some 1; Some 2; Some 0]], [[Some 1; Some 0; Some 1; Some 5]])%Z.
Proof. exact where_bindparam_unsorted_ok. Qed.

(* REFUTED (reproduced on SQLite, KNOWN-FINDING C56-sqlite-index-where-executemany) *)
Theorem c56_index_where_literal_executemany_refuted :
  exists cls, spec_of w_cols wb_sa = Some cls /\ Forall sets_nodup cls /\ chain_ok wb_sa = true /\
    batch_safe wb_sa = true /\
    exec_impl idf true false w_cols w_ixs_partial wb_sa false false 1000 [] wb_ps = Err EInvalidRequest /\
    upsert_spec w_ixs_partial cls [] wb_ps = Ok ([[Some 1; None; Some 1; Some 1]], [[Some 1; None; Some 1; Some 1]])%Z.
Proof. exact index_where_literal_executemany_refuted. Qed.
Print Assumptions c56_index_where_literal_executemany_refuted.

(* REFUTED (reproduced offline on the batches _deliver_insertmanyvalues_batches yields for PostgreSQL,
   KNOWN-FINDING C56-pg-embedded-counter-set-bindparam) *)
Theorem c56_pg_embedded_counter_set_bindparam_refuted :
  exists cls, spec_of w_cols wc_sa = Some cls /\ Forall sets_nodup cls /\ chain_ok wc_sa = true /\
    ~ res_equiv (exec_impl idf false true w_cols w_ixs wc_sa true true 1000 wc_t wc_ps)
                (upsert_spec w_ixs cls wc_t wc_ps).
Proof. exact pg_embedded_counter_set_bindparam_refuted. Qed.
Print Assumptions c56_pg_embedded_counter_set_bindparam_refuted.

(* MySQL ON DUPLICATE KEY UPDATE: round trip + one statement per parameter set = the (sequential-assignment,
   any-unique-key) model over the rendered assignments *)
Theorem c56_mysql_eq_model :
  forall shuffle, (forall l, Permutation (shuffle l) l) ->
  forall cols ixs alias ordered upd sets t ps,
    NoDup (map cname cols) -> my_asm cols ordered upd <> [] ->
    abs_sets cols (my_asm cols ordered upd) = Some sets ->
    exec_mysql shuffle cols ixs alias ordered upd t ps = my_upsert_spec ixs sets t ps.
Proof. exact exec_mysql_eq. Qed.
Print Assumptions c56_mysql_eq_model.

(* ... where the assignments are the user's, in the user's order, when a list of tuples is given
   (MySQL evaluates them left to right); keys that are no table column are dropped *)
Theorem c56_mysql_ordered_list_keeps_user_order : forall cols upd,
  wf_cols cols -> NoDup (map fst upd) ->
  map (A cols) (my_asm cols true upd) = my_spec_ordered cols upd.
Proof. intros cols upd H. exact (my_asm_ordered cols H upd). Qed.
Print Assumptions c56_mysql_ordered_list_keeps_user_order.

(* ... and in table column order when a dict is given *)
Theorem c56_mysql_dict_uses_table_column_order : forall cols upd,
  wf_cols cols ->
  map (A cols) (my_asm cols false upd) =
  flat_map (fun i => match my_lookup (ckey (nth i cols dflt_col)) upd with
                     | Some e => [set_item (length cols) (Some i) e]
                     | None => []
                     end) (seq 0 (length cols)).
Proof. intros cols upd H. exact (my_asm_dict cols H upd). Qed.
Print Assumptions c56_mysql_dict_uses_table_column_order.

(* non-vacuity: the guards of the main theorem are satisfiable by a batched two-clause upsert with a
   partial index and duplicates inside the executemany; the excluded regions have agreeing neighbours *)
Example c56_ex_guarded : exists cls, spec_of wd_cols wd_sa = Some cls /\ Forall sets_nodup cls /\
    chain_ok wd_sa = true /\ wf_cols wd_cols /\
    batched false true false (length wd_ps) wd_sa = true /\ batch_safe wd_sa = true /\
    exec_impl idf true false wd_cols w_ixs_partial wd_sa true false 2 wd_t wd_ps =
      Ok ([[Some 1; None; Some 4; Some 2]; [Some 2; Some 2; Some 5; Some 1]; [Some 4; Some 1; Some 0; Some 0]],
          [[Some 1; None; Some 3; Some 1]; [Some 1; None; Some 4; Some 2]; [Some 4; Some 1; Some 0; Some 0]])%Z.
Proof. exact guarded_batched_example. Qed.
Example c56_ex_sorted_ok : exists cls, spec_of w_cols wa_sa = Some cls /\
    exec_impl idf true false w_cols w_ixs wa_sa true true 1000 wa_t wa_ps = upsert_spec w_ixs cls wa_t wa_ps /\
    upsert_spec w_ixs cls wa_t wa_ps =
      Ok ([[Some 1; Some 0; Some 1; Some 5]; [Some 2; Some 1; Some 2; Some 0]], [[Some 1; Some 0; Some 1; Some 5]])%Z.
Proof. exact where_bindparam_sorted_ok. Qed.
