(* C56 - placeholder while the development is being built *)
From Coq Require Import List. Import ListNotations.
From SAV.sql Require Import Upsert.
Theorem c56_placeholder : forall (t : table), t ++ [] = t.
Proof. exact (@app_nil_r row). Qed.
Print Assumptions c56_placeholder.
