(* C07 - placeholder while developing *)
From Coq Require Import List.
From SAV.sql Require Import Val3 InList.
