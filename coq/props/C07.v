(* C07 - IN / NOT IN with expanding parameters follows SQL semantics.
   Statements only; every proof is [exact <lemma>].

   Vocabulary (sql/InList.v).  CODE SIDE: [in_impl] / [text_in] / [negate] build the expression, [compile]
   renders the template (token list with the POSTCOMPILE placeholder) in a syntactic [position] (bare,
   CASE WHEN (..), AND / OR context with further bound parameters); [process] is
   _process_parameters_for_postcompile on a [compiled] object, [compile_literal_stmt] is literal_binds;
   [run_execs] runs several expansions against ONE compiled object (engine cache / render_postcompile).
   SPEC SIDE: [in_sem] is SQL's definition of IN over row values, [or_eq] the Kleene OR of equalities,
   [expected op x rows] = or_eq (IN) / not3 or_eq (NOT IN); [exec_sem row x] evaluates the rendered token
   list like a database would: placeholders replaced by the bound values (positionally for qmark/format
   dialects), then parsed with SQL precedence (OR < AND < NOT < IN, =) and evaluated in 3-valued logic. *)
From Coq Require Import List ZArith NArith Bool.
Import ListNotations.
From SAV.sql Require Import Val3 InList InListSpecProofs InListLeepProofs InListMainProofs InListCacheProofs InListExtraProofs.

(* SQL's IN is the Kleene OR of the equalities - any list: empty, NULLs, duplicates; rows of any arity *)
Theorem c07_in_is_or_of_eq : forall x rows, in_sem x rows = or_eq x rows.
Proof. exact in_is_or_of_eq. Qed.
Print Assumptions c07_in_is_or_of_eq.

(* ... and the explicit SQL text "x = r1 OR x = r2 OR .." / "NOT (..)" evaluates to it *)
Theorem c07_explicit_or_sem : forall x rows, x <> [] -> Forall (fun r => length r = length x) rows ->
  teval (explicit_or x rows) = EOk (or_eq x rows) /\
  teval (explicit_not_or x rows) = EOk (not3 (or_eq x rows)).
Proof. intros x rows Hx H. exact (conj (explicit_or_sem x rows Hx H) (explicit_not_or_sem x rows Hx H)). Qed.
Print Assumptions c07_explicit_or_sem.

(* MAIN (bound once): for every dialect style, position, consistent expression, well-formed list and
   row, the expansion succeeds and the executed SQL has the truth value of the OR-of-equalities
   (negated for NOT IN), in its context.  [pop] is _populate_self. *)
Theorem c07_bound_correct : forall d p e vals row pop,
  consistent e = true -> wf e vals = true -> empty_ok d e vals = true ->
  exists x c', process (compile d p e) (ctx_others p) vals pop = Ok (x, c') /\
    exec_sem row x = EOk (ctx_value p row (expected e.(ie_op) (lhs_vals row e.(ie_left)) (map value_row vals))).
Proof. exact bound_correct. Qed.
Print Assumptions c07_bound_correct.

(* the rendered bound parameters are exactly the list - as many placeholders as values, the same values in
   the same order - for EVERY length (no padding, truncation or de-duplication), scalars and tuples *)
Theorem c07_bound_values_exact : forall d b vals,
  vals <> [] ->
  (all_scalar vals = true -> tuple_branch b vals = false ->
   exists tu repl, leep d b vals = Ok (tu, repl) /\
     map snd tu = map (fun v => match v with VScalar s => s | VTuple _ => SNull end) vals /\
     length tu = length vals /\ repl = InListLeepProofs.bind_items d tu) /\
  (forall k, all_tuple k vals = true -> tuple_branch b vals = true ->
   exists tu repl, leep d b vals = Ok (tu, repl) /\
     map snd tu = concat (map value_row vals) /\ length tu = (length vals * k)%nat).
Proof. exact bound_values_exact. Qed.
Print Assumptions c07_bound_values_exact.

(* empty list: FALSE for IN, TRUE for NOT IN, also for a NULL left operand, with every dialect's
   empty-set expression (sqlite / postgresql / mysql subqueries, default "NULL) AND (1 != 1" forms) *)
Theorem c07_empty_set : forall d e row pop,
  consistent e = true -> wf e [] = true -> empty_ok d e [] = true ->
  exists x c', process (compile d PosBare e) [] [] pop = Ok (x, c') /\
    exec_sem row x = EOk (match e.(ie_op) with OIn => TF | ONotIn => TT end).
Proof. exact empty_set_correct. Qed.
Print Assumptions c07_empty_set.

(* the only failure for an empty list is the documented one, and it is an exception, not a wrong row set *)
Theorem c07_empty_unsupported : forall d p e pop,
  (empty_ok d e [] = false <->
   (d.(d_empty_op_override) = true \/ e.(ie_bind).(bp_expand_op) = None) /\ d.(d_empty) = ENone) /\
  (empty_ok d e [] = false -> process (compile d p e) (ctx_others p) [] pop = Raise NotImplementedError).
Proof. intros d p e pop. exact (conj (empty_unsupported_iff d e) (empty_unsupported_raises d p e pop)). Qed.
Print Assumptions c07_empty_unsupported.

(* expressions built by in_() / not_in() / text() are consistent, ~ keeps them consistent, flips the
   operator and therefore (by the main theorems) negates the truth value *)
Theorem c07_negated_forms : forall e, consistent e = true ->
  consistent (negate e) = true /\
  (forall vals, wf (negate e) vals = wf e vals) /\
  (forall x rows, expected (ie_op (negate e)) x rows = not3 (expected (ie_op e) x rows)).
Proof. exact negated_forms. Qed.
Print Assumptions c07_negated_forms.
Theorem c07_constructors_consistent : forall l k op,
  consistent (in_impl l k op) = true /\ consistent (text_in l op) = true.
Proof. intros l k op. exact (conj (consistent_in_impl l k op) (consistent_text_in l op)). Qed.
Print Assumptions c07_constructors_consistent.

(* re-expansion: whatever was executed before against a Compiled object (any lists of any lengths, with or
   without _populate_self), each expansion equals the one of the untouched object *)
Theorem c07_cached_reexpand : forall c0 others execs xs,
  run_execs c0 others execs = Ok xs ->
  Forall2 (fun ex x => exists c0', process c0 others (fst ex) false = Ok (x, c0')) execs xs.
Proof. exact cached_reexpand. Qed.
Print Assumptions c07_cached_reexpand.

(* MAIN (re-bound on a cached statement): every execution of any sequence has the prescribed value *)
Theorem c07_rebound_correct : forall d p e execs row,
  consistent e = true ->
  (forall ex, In ex execs -> wf e (fst ex) = true /\ empty_ok d e (fst ex) = true) ->
  exists xs, run_execs (compile d p e) (ctx_others p) execs = Ok xs /\
    Forall2 (fun ex x => exec_sem row x =
               EOk (ctx_value p row (expected e.(ie_op) (lhs_vals row e.(ie_left)) (map value_row (fst ex)))))
            execs xs.
Proof. exact rebound_correct. Qed.
Print Assumptions c07_rebound_correct.

(* MAIN (rendered literally), outside the defective region named by [literal_guard] *)
Theorem c07_literal_correct_guarded : forall d p e vals row,
  consistent e = true -> wf e vals = true -> empty_ok d e vals = true -> literal_guard d e vals = true ->
  exists ts, compile_literal_stmt d p e vals = Ok ts /\
    exec_literal row ts = EOk (ctx_value p row (expected e.(ie_op) (lhs_vals row e.(ie_left)) (map value_row vals))).
Proof. exact literal_correct_guarded. Qed.
Print Assumptions c07_literal_correct_guarded.

(* ... and inside it the code fails: tuples for an untyped operand raise AttributeError although the bound form
   works.  (The second former region - tuple_(x, y).in_([]) with literal_binds on SQLite rendering
   "VALUES SELECT .." - was repaired by a8e8272 and is now covered by the theorem above; see the Example.) *)
Theorem c07_literal_nulltype_tuple_refuted :
  exists d e vals row,
    consistent e = true /\ wf e vals = true /\ literal_guard d e vals = false /\
    (exists x c', process (compile d PosBare e) [] vals false = Ok (x, c') /\ exec_sem row x = EOk TT) /\
    compile_literal_stmt d PosBare e vals = Raise AttributeError.
Proof. exact literal_nulltype_tuple_refuted_ex. Qed.
Print Assumptions c07_literal_nulltype_tuple_refuted.

(* the repaired literal rendering of an empty tuple list on SQLite *)
Example c07_literal_empty_tuple_fixed :
  let e := in_impl (LTuple [1%N; 2%N]) (KTuple 2) OIn in
  literal_guard sqlite_dialect e [] = true /\
  exists ts, compile_literal_stmt sqlite_dialect PosBare e [] = Ok ts /\ exec_literal row_null ts = EOk TF.
Proof. split; [reflexivity|]. exact (proj2 (proj2 (proj2 (proj2 (proj2 literal_empty_tuple_fixed))))). Qed.

(* non-vacuity: hypotheses are satisfiable and the values are the interesting ones *)
Definition ex_row : N -> sv := fun c => if N.eqb c 1 then SNull else SInt 5.
Example c07_ex_hyps :
  let e := negate (in_impl (LCol 1) KScalar OIn) in
  consistent e = true /\ wf e [VScalar (SInt 1); VScalar SNull] = true /\ ie_op e = ONotIn /\
  empty_ok default_dialect e [] = true /\ empty_ok default_dialect (text_in (LCol 1) OIn) [] = false /\
  literal_guard default_dialect (in_impl (LTuple [1%N; 2%N]) (KTuple 2) OIn) [] = true.
Proof. vm_compute. repeat split. Qed.
(* x NOT IN (1, NULL) with x = 5 is UNKNOWN; x NOT IN () with x = NULL is TRUE - default dialect *)
Example c07_ex_values :
  (exists x c, process (compile default_dialect (PosAnd (-1) (-2)) (negate (in_impl (LCol 2) KScalar OIn)))
                 (ctx_others (PosAnd (-1) (-2))) [VScalar (SInt 1); VScalar SNull] false = Ok (x, c) /\
               exec_sem ex_row x = EOk TU) /\
  (exists x c, process (compile default_dialect PosBare (negate (in_impl (LCol 1) KScalar OIn))) [] [] false = Ok (x, c) /\
               exec_sem ex_row x = EOk TT).
Proof. split; eexists _, _; split; vm_compute; reflexivity. Qed.
