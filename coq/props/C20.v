From Coq Require Import List NArith ZArith Bool.
Import ListNotations.
From SAV.sql Require Import UrlCodec Url.
Example c20_tmp : parse (fun _ => false) [120; 58; 47; 47; 104]%N = Ok (mkUrl [120]%N None None (Some [104]%N) None None []).
Proof. vm_compute. reflexivity. Qed.
