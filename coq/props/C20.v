(* C20 - database URLs round-trip through their string form.
   Statements only; every proof is [exact <lemma>].  [uw] is Python's \w on non-ASCII code points (any
   predicate); strings are lists of code points. *)
From Coq Require Import List NArith ZArith Bool Permutation.
Import ListNotations.
From SAV.sql Require Import UrlCodec Url UrlListProofs UrlCodecProofs UrlSplitProofs UrlProofs.
Open Scope N_scope.

(* ---- the library layer (Gallina versions validated against CPython on every run) ---- *)

(* UTF-8: decoding (errors='replace') inverts encoding on all Unicode scalar values, 1 to 4 bytes *)
Theorem c20_utf8_roundtrip : forall s, forallb scalar s = true -> utf8_dec (utf8 s) = s.
Proof. exact utf8_roundtrip. Qed.
Print Assumptions c20_utf8_roundtrip.

(* unquote inverts quote for every ASCII safe set without '%', whatever the text *)
Theorem c20_unquote_quote : forall safe s q, forallb ascii safe = true -> mem 37 safe = false ->
  quote safe s = Some q -> unquote q = s.
Proof. exact unquote_quote. Qed.
Print Assumptions c20_unquote_quote.

Theorem c20_unquote_plus_quote_plus : forall s q, quote_plus s = Some q -> unquote_plus q = s.
Proof. exact unquote_plus_quote_plus. Qed.
Print Assumptions c20_unquote_plus_quote_plus.

(* int(str(port)) = port for every integer *)
Theorem c20_int_str : forall z, py_int (str_of_Z z) = Some z.
Proof. exact py_int_str_of_Z. Qed.
Print Assumptions c20_int_str.

(* ---- make_url never moves text between components ---- *)

(* For literal component texts that satisfy side conditions stated on each text ALONE (user: no ':' '/';
   password: no '@'; host: "[...]" or bare without ':'; port/database/query: free of their terminators
   and of '@'), the regex splits the assembled string exactly at the component boundaries, and every
   field of the parsed URL is a function of the corresponding literal text alone. *)
Theorem c20_no_text_moves : forall uw c, comp_ok uw c = true ->
  parse uw (assemble c) =
  bind (dec_port (c_port c)) (fun po =>
  Ok (mkUrl (c_drv c) (dec_text (c_user c)) (dec_text (c_pass c)) (dec_host (c_host c)) po
            (dec_text (c_db c)) (dec_query (c_query c)))).
Proof. exact parse_assembled. Qed.
Print Assumptions c20_no_text_moves.

(* render_as_string is that assembly, of texts computed from one URL component each ([enc]), and the
   texts it produces satisfy the side conditions: rendering never raises on a well-formed URL *)
Theorem c20_render_componentwise : forall uw u, wf uw u = true ->
  render u = Ok (assemble (enc u)) /\ comp_ok uw (enc u) = true.
Proof. intros uw u H. exact (conj (render_is_assembly uw u H) (enc_comp_ok uw u H)). Qed.
Print Assumptions c20_render_componentwise.

(* ---- the round trip ---- *)

(* make_url(u.render_as_string(hide_password=False)) is u with the query dict listed in sorted key
   order ... *)
Theorem c20_url_roundtrip_guarded : forall uw u, wf uw u = true -> roundtrip uw u = Ok (canon u).
Proof. exact roundtrip_wf. Qed.
Print Assumptions c20_url_roundtrip_guarded.

(* ... which is the same URL for URL.__eq__ (fields equal, query equal as a dict) *)
Theorem c20_url_roundtrip_equal : forall uw u, wf uw u = true ->
  exists s u', render u = Ok s /\ parse uw s = Ok u' /\ url_eq u' u.
Proof. exact roundtrip_eq. Qed.
Print Assumptions c20_url_roundtrip_equal.

(* and literally the same value when the dict already lists its keys in sorted order *)
Theorem c20_url_roundtrip_sorted_keys : forall uw u, wf uw u = true ->
  sort_keys (map fst (u_query u)) = map fst (u_query u) -> roundtrip uw u = Ok u.
Proof. exact roundtrip_sorted. Qed.
Print Assumptions c20_url_roundtrip_sorted_keys.

(* ---- defects of the unchanged code: inside the property's domain, outside the guard ---- *)

(* what comes back for EVERY URL of the domain (valid driver name and host, encodable text, any port,
   any dict), defects included: the password only if there is a username, and the query as parse_qsl
   and the accumulation loop rebuild it from the rendered pairs *)
Theorem c20_url_roundtrip_domain : forall uw u, domain uw u = true ->
  roundtrip uw u =
  Ok (mkUrl (u_drv u) (u_user u) (if has_some (u_user u) then u_pass u else None) (u_host u) (u_port u)
            (u_db u) (accumulate (query_pairs (u_query u)))).
Proof. exact roundtrip_domain. Qed.
Print Assumptions c20_url_roundtrip_domain.

(* the guard excludes exactly the defective region: every URL of the domain outside [wf] comes back
   as a different URL *)
Theorem c20_guard_exact : forall uw u, domain uw u = true -> wf uw u = false ->
  exists u', roundtrip uw u = Ok u' /\ ~ url_eq u' u.
Proof. exact guard_exact. Qed.
Print Assumptions c20_guard_exact.

Theorem c20_singleton_sequence_refuted : forall uw, exists u u',
  domain uw u = true /\ roundtrip uw u = Ok u' /\ ~ url_eq u' u.
Proof. exact singleton_sequence_refuted. Qed.
Print Assumptions c20_singleton_sequence_refuted.

Theorem c20_empty_sequence_refuted : forall uw, exists u u',
  domain uw u = true /\ roundtrip uw u = Ok u' /\ ~ url_eq u' u.
Proof. exact empty_sequence_refuted. Qed.
Print Assumptions c20_empty_sequence_refuted.

Theorem c20_password_without_user_refuted : forall uw, exists u u',
  domain uw u = true /\ roundtrip uw u = Ok u' /\ ~ url_eq u' u.
Proof. exact password_without_user_refuted. Qed.
Print Assumptions c20_password_without_user_refuted.

Theorem c20_url_roundtrip_unguarded_refuted : forall uw,
  ~ (forall u, domain uw u = true -> exists u', roundtrip uw u = Ok u' /\ url_eq u' u).
Proof. exact roundtrip_unguarded_refuted. Qed.
Print Assumptions c20_url_roundtrip_unguarded_refuted.

(* ---- non-vacuity ---- *)
Definition uw0 : N -> bool := fun _ => false.
(* "a@b:c/d?e#f%g+h&i=j[k] l" followed by U+E9, U+20AC, U+1F600 *)
Definition nasty : str :=
  [97; 64; 98; 58; 99; 47; 100; 63; 101; 35; 102; 37; 103; 43; 104; 38; 105; 61; 106; 91; 107; 93; 32; 108;
   233; 8364; 128512].
Definition ex_url : url :=
  mkUrl [112; 111; 115; 116; 103; 114; 101; 115; 113; 108; 43; 112; 115; 121; 99; 111; 112; 103; 50]
        (Some nasty) (Some nasty) (Some [102; 101; 56; 48; 58; 58; 49]) (Some 5432%Z) (Some nasty)
        [(nasty, QStr nasty); ([107], QSeq [nasty; []])].

(* the guard holds for a URL with every special character in every text component, an IPv6 host, a
   port, a repeated key with a blank value; and it round-trips to itself *)
Example c20_ex_wf_special : wf uw0 ex_url = true.
Proof. vm_compute. reflexivity. Qed.
Example c20_ex_roundtrip_special : roundtrip uw0 ex_url = Ok ex_url.
Proof. vm_compute. reflexivity. Qed.
(* URL.create("x", username="a@:/ " + U+E9, host="h") renders as x://a%40%3A%2F %C3%A9@h *)
Example c20_ex_render :
  render (mkUrl [120] (Some [97; 64; 58; 47; 32; 233]) None (Some [104]) None None [])
  = Ok [120; 58; 47; 47; 97; 37; 52; 48; 37; 51; 65; 37; 50; 70; 32; 37; 67; 51; 37; 65; 57; 64; 104].
Proof. vm_compute. reflexivity. Qed.
(* the literal components of that string satisfy the side conditions of c20_no_text_moves *)
Example c20_ex_comp_ok : comp_ok uw0 (enc ex_url) = true.
Proof. vm_compute. reflexivity. Qed.
(* insertion order b, a: the parse lists a, b - the same dict *)
Example c20_ex_key_order :
  roundtrip uw0 (mkUrl [120] None None None None None [([98], QStr [49]); ([97], QStr [50])])
  = Ok (mkUrl [120] None None None None None [([97], QStr [50]); ([98], QStr [49])]).
Proof. vm_compute. reflexivity. Qed.
(* the blank query value (repaired by 7ad97ba: keep_blank_values=True) round-trips; without the flag
   the key was lost *)
Example c20_ex_blank_value_fixed :
  roundtrip uw0 (mkUrl [120] None None None None None [([97], QStr [])])
  = Ok (mkUrl [120] None None None None None [([97], QStr [])]).
Proof. vm_compute. reflexivity. Qed.
Example c20_ex_blank_value_before_fix : accumulate (parse_qsl false [97; 61]) = [].
Proof. vm_compute. reflexivity. Qed.
(* a raw '@' outside the userinfo is what the side conditions of c20_no_text_moves exclude:
   x://h:5/db?a=b@c parses as user "h", password "5/db?a=b", host "c" *)
Example c20_ex_at_in_query :
  parse uw0 [120; 58; 47; 47; 104; 58; 53; 47; 100; 98; 63; 97; 61; 98; 64; 99]
  = Ok (mkUrl [120] (Some [104]) (Some [53; 47; 100; 98; 63; 97; 61; 98]) (Some [99]) None None []).
Proof. vm_compute. reflexivity. Qed.
(* the other results of the model are reachable: errors are values, not defaults *)
Example c20_ex_argument_error : parse uw0 [120; 45; 121; 58; 47; 47; 104] = Raise ArgumentError.   (* x-y://h *)
Proof. vm_compute. reflexivity. Qed.
Example c20_ex_value_error : parse uw0 [120; 58; 47; 47; 104; 58; 120] = Raise ValueError.           (* x://h:x *)
Proof. vm_compute. reflexivity. Qed.
Example c20_ex_empty_port : parse uw0 [120; 58; 47; 47; 104; 58] = Raise ValueError.                 (* x://h:  *)
Proof. vm_compute. reflexivity. Qed.
Example c20_ex_surrogate : render (mkUrl [120] (Some [0xD800]) None None None None []) = Raise UnicodeEncodeError.
Proof. vm_compute. reflexivity. Qed.
(* x://[]a]:7 : an empty bracket cannot be the ipv6 group, the last ']' closes it *)
Example c20_ex_bracket_greedy :
  parse uw0 [120; 58; 47; 47; 91; 93; 97; 93; 58; 55]
  = Ok (mkUrl [120] None None (Some [93; 97]) (Some 7%Z) None []).
Proof. vm_compute. reflexivity. Qed.
(* x://a:b (no '@'): no userinfo, host a, port text "b" *)
Example c20_ex_no_at : parse uw0 [120; 58; 47; 47; 97; 58; 98] = Raise ValueError.
Proof. vm_compute. reflexivity. Qed.
(* ill-formed UTF-8 is replaced, truncated sequence = one U+FFFD: %E2%82A -> U+FFFD 'A' *)
Example c20_ex_replace : unquote [37; 69; 50; 37; 56; 50; 65] = [0xFFFD; 65].
Proof. vm_compute. reflexivity. Qed.
(* the hypotheses of c20_guard_exact are satisfiable: URL.create("x", query={"a": ("x",)}) *)
Example c20_ex_outside_guard :
  domain uw0 (mkUrl [120] None None None None None [([97], QSeq [[120]])]) = true /\
  wf uw0 (mkUrl [120] None None None None None [([97], QSeq [[120]])]) = false.
Proof. split; vm_compute; reflexivity. Qed.
