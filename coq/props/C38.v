(* C38 - placeholder while the proofs are being written *)
From Coq Require Import List ZArith.
From SAV.orm Require Import CollRun.
