(* C38 - instrumented collections behave exactly like the Python types they wrap.
   Statements only; every proof is [exact <lemma>].

   sa_*_op  : the wrappers of orm/collections.py (_list_decorators, _set_decorators,
              _dict_decorators) as they are NOW, running on (contents, event log);
   py_*_op  : the builtin list / set / dict (reference semantics, base/PySlice.v);
   countZ x l - countZ x l0 = net x g : (multiset after) - (multiset before) =
              (#append events) - (#remove events), per member x.
   Where the code violates the property there is a [_refuted] theorem with a concrete witness and a
   [_guarded] theorem for the complement (the guards are the boolean functions list_eq_guard,
   list_acct_guard, set_eq_guard of the model files).  After the repairs 1d9f897, 2c3a941, b1144f3,
   c982b6e three deviations remain: c[a:b] = c is ignored, c *= n fires no event, s -= s raises. *)
From Coq Require Import List ZArith Bool Permutation.
Import ListNotations.
From SAV.base Require Import PySlice.
From SAV.orm Require Import CollBase CollList CollSet CollDict CollProofs
  CollListProofs CollSetProofs CollDictProofs CollWitness.
Open Scope Z_scope.

(* ============================== list ============================== *)

(* every list operation with every argument value: same result / exception and same contents as
   the builtin, from every contents [l] and whatever was logged before *)
Theorem c38_list_ops_eq_python_guarded : forall op l g, list_eq_guard l op = true ->
  fst (sa_list_op op (l, g)) = fst (py_list_op l op) /\
  fst (snd (sa_list_op op (l, g))) = snd (py_list_op l op).
Proof. exact list_op_eq_python. Qed.
Print Assumptions c38_list_ops_eq_python_guarded.

(* in particular slice assignment of anything but the collection itself - a list / tuple, an
   iterator, a non-iterable - with ANY start, stop, step (negative, out of range, reversed, zero):
   no guard at all (defects repaired by 1d9f897 and 2c3a941) *)
Theorem c38_list_slice_assignment_eq_python : forall start stop step v l g, v <> VSelf ->
  let op := LSetSlice (mkslice start stop step) v in
  fst (sa_list_op op (l, g)) = fst (py_list_op l op) /\
  fst (snd (sa_list_op op (l, g))) = snd (py_list_op l op).
Proof. exact list_slice_assignment_eq_python. Qed.
Print Assumptions c38_list_slice_assignment_eq_python.

(* the one region left out: c[a:b] = c with step 1, unless the slice is the whole list *)
Theorem c38_list_setslice_self_refuted : exists l op,
  list_eq_guard l op = false /\ sa_list_rc l op = (Ok RNone, [0;1;2]) /\
  py_list_op l op = (Ok RNone, [0;0;1;2;2]).
Proof. exact refuted_setslice_self. Qed.
Print Assumptions c38_list_setslice_self_refuted.

(* the equality guard excludes exactly the defective region: wherever it is false the contents differ *)
Theorem c38_list_eq_guard_exact : forall l op g, list_eq_guard l op = false ->
  fst (snd (sa_list_op op (l, g))) <> snd (py_list_op l op).
Proof. exact list_eq_guard_exact. Qed.
Print Assumptions c38_list_eq_guard_exact.


(* the events fired by an operation account exactly for the change of contents - also when the
   operation raises half way *)
Theorem c38_list_events_account_guarded : forall op l g r l' g',
  list_acct_guard l op = true ->
  sa_list_op op (l, g) = (r, (l', g')) ->
  forall x, countZ x l' - countZ x l = net x g' - net x g.
Proof. exact list_op_accounted. Qed.
Print Assumptions c38_list_events_account_guarded.

Theorem c38_list_imul_refuted : exists l op,
  list_acct_guard l op = false /\
  sa_list_run1 l op = (Ok RSelf, [0;1;0;1], []) /\ unaccounted l [0;1;0;1] [].
Proof. exact refuted_imul. Qed.
Print Assumptions c38_list_imul_refuted.

(* the accounting guard excludes exactly the defective region: outside it accounting always fails *)
Theorem c38_list_acct_guard_exact : forall l op g, list_acct_guard l op = false ->
  let '(_, (l', g')) := sa_list_op op (l, g) in
  exists x, countZ x l' - countZ x l <> net x g' - net x g.
Proof. exact list_acct_guard_exact. Qed.
Print Assumptions c38_list_acct_guard_exact.

(* arbitrary histories *)
Theorem c38_list_history_eq_python_guarded : forall ops l g,
  all_guard list_eq_guard ops l = true ->
  fst (sa_list_run ops (l, g)) = fst (py_list_run ops l) /\
  fst (snd (sa_list_run ops (l, g))) = snd (py_list_run ops l).
Proof. exact list_history_eq_python. Qed.
Print Assumptions c38_list_history_eq_python_guarded.

Theorem c38_list_history_events_account_guarded : forall ops l g,
  sa_guarded list_acct_guard ops (l, g) = true ->
  forall x, let '(_, (l', g')) := sa_list_run ops (l, g) in
            countZ x l' - countZ x l = net x g' - net x g.
Proof. exact list_history_accounted. Qed.
Print Assumptions c38_list_history_events_account_guarded.

(* the reference semantics used above: a slice read and the deletion of the same slice partition
   the list (what `del c[sl]` reports as removed is what disappears) *)
Theorem c38_py_getslice_delslice_partition : forall (l : list Z) sl g d,
  py_getslice l sl = Ok g -> py_delslice l sl = Ok d -> Permutation l (g ++ d).
Proof. exact (PySliceProofs.getslice_delslice_perm Z). Qed.
Print Assumptions c38_py_getslice_delslice_partition.

(* ============================== set ============================== *)
(* [ord] is the iteration order of builtin sets: any function returning a permutation *)

Theorem c38_set_ops_eq_python_guarded : forall (ord : list Z -> list Z),
  (forall l, Permutation (ord l) l) ->
  forall op s g, NoDup s -> set_eq_guard s op = true ->
  fst (sa_set_op ord op (s, g)) = fst (py_set_op ord s op) /\
  Permutation (fst (snd (sa_set_op ord op (s, g)))) (snd (py_set_op ord s op)).
Proof. exact set_op_eq_python. Qed.
Print Assumptions c38_set_ops_eq_python_guarded.

Theorem c38_set_isub_self_refuted : exists s op,
  set_eq_guard s op = false /\
  sa_set_run1 (fun l => l) s op = (Raise RuntimeError, [], [ERem 0]) /\
  py_set_op (fun l => l) s op = (Ok RSelf, []).
Proof. exact refuted_set_isub_self. Qed.
Print Assumptions c38_set_isub_self_refuted.

(* no exception: every set operation is accounted, and keeps the contents duplicate-free *)
Theorem c38_set_events_account : forall (ord : list Z -> list Z),
  (forall l, Permutation (ord l) l) ->
  forall op s g r s' g', NoDup s -> sa_set_op ord op (s, g) = (r, (s', g')) ->
  NoDup s' /\ forall x, countZ x s' - countZ x s = net x g' - net x g.
Proof. exact set_op_accounted. Qed.
Print Assumptions c38_set_events_account.

(* histories: every step of every history is a step of the builtin set from the state reached
   (which member pop() takes is the builtin's choice, hence step by step) *)
Theorem c38_set_history_eq_python_guarded : forall (ord : list Z -> list Z),
  (forall l, Permutation (ord l) l) ->
  forall ops s g, NoDup s -> Forall (set_step_ok ord) (sa_set_trace ord ops (s, g)).
Proof. exact set_history_eq_python. Qed.
Print Assumptions c38_set_history_eq_python_guarded.

Theorem c38_set_history_events_account : forall (ord : list Z -> list Z),
  (forall l, Permutation (ord l) l) ->
  forall ops s g, NoDup s ->
  let '(_, (s', g')) := sa_set_run ord ops (s, g) in
  NoDup s' /\ forall x, countZ x s' - countZ x s = net x g' - net x g.
Proof. exact set_history_accounted. Qed.
Print Assumptions c38_set_history_events_account.

(* ============================== dict ============================== *)

(* no exception: result / exception / contents (with insertion order) always equal the builtin *)
Theorem c38_dict_ops_eq_python : forall op d g,
  fst (sa_dict_op op (d, g)) = fst (py_dict_op d op) /\
  fst (snd (sa_dict_op op (d, g))) = snd (py_dict_op d op).
Proof. exact dict_op_eq_python. Qed.
Print Assumptions c38_dict_ops_eq_python.

(* no exception either: every dict operation, d |= m included (c982b6e), is accounted *)
Theorem c38_dict_events_account : forall op d g r d' g',
  d_wf d -> sa_dict_op op (d, g) = (r, (d', g')) ->
  d_wf d' /\ forall x, countZ x (d_values d') - countZ x (d_values d) = net x g' - net x g.
Proof. exact dict_op_accounted. Qed.
Print Assumptions c38_dict_events_account.

Theorem c38_dict_history_eq_python : forall ops d g,
  fst (sa_dict_run ops (d, g)) = fst (py_dict_run ops d) /\
  fst (snd (sa_dict_run ops (d, g))) = snd (py_dict_run ops d).
Proof. exact dict_history_eq_python. Qed.
Print Assumptions c38_dict_history_eq_python.

Theorem c38_dict_history_events_account : forall ops d g, d_wf d ->
  let '(_, (d', g')) := sa_dict_run ops (d, g) in
  d_wf d' /\ forall x, countZ x (d_values d') - countZ x (d_values d) = net x g' - net x g.
Proof. exact dict_history_accounted. Qed.
Print Assumptions c38_dict_history_events_account.

(* ============================== non-vacuity ============================== *)
(* the three witnesses of the repaired slice-assignment defect: result, contents and the exact
   event log of the instrumented list, next to the builtin *)
Example c38_ex_fixed_negative_start :
  sa_list_run1 [0;1;2] (LSetSlice (sl (Some (-5)) (Some 2) None) (VList [7]))
  = (Ok RNone, [7;2], [ERem 0; ERem 1; EAdd 7]) /\
  py_list_op [0;1;2] (LSetSlice (sl (Some (-5)) (Some 2) None) (VList [7])) = (Ok RNone, [7;2]).
Proof. exact fixed_negative_start. Qed.
Example c38_ex_fixed_reversed :
  sa_list_run1 [0;1;2] (LSetSlice (sl None None (Some (-1))) (VList [7;8;9]))
  = (Ok RNone, [9;8;7], [ERem 2; EAdd 7; ERem 1; EAdd 8; ERem 0; EAdd 9]) /\
  py_list_op [0;1;2] (LSetSlice (sl None None (Some (-1))) (VList [7;8;9])) = (Ok RNone, [9;8;7]).
Proof. exact fixed_reversed. Qed.
Example c38_ex_fixed_stop_unclamped :
  sa_list_run1 [0;1;2] (LSetSlice (sl (Some 1) (Some 10) (Some 2)) (VList [7]))
  = (Ok RNone, [0;7;2], [ERem 1; EAdd 7]) /\
  py_list_op [0;1;2] (LSetSlice (sl (Some 1) (Some 10) (Some 2)) (VList [7])) = (Ok RNone, [0;7;2]).
Proof. exact fixed_stop_unclamped. Qed.

(* formerly refuted, now positive (2c3a941, b1144f3, c982b6e) *)
Example c38_ex_fixed_extslice_self :
  sa_list_run1 [0;1] (LSetSlice (sl None None (Some (-1))) VSelf)
  = (Ok RNone, [1;0], [ERem 1; EAdd 0; ERem 0; EAdd 1]) /\
  py_list_op [0;1] (LSetSlice (sl None None (Some (-1))) VSelf) = (Ok RNone, [1;0]).
Proof. exact fixed_extslice_self. Qed.
Example c38_ex_fixed_setslice_noniterable :
  sa_list_run1 [0;1;2] (LSetSlice (sl (Some 0) (Some 2) None) VNonIter)
  = (Raise TypeError, [0;1;2], []) /\
  py_list_op [0;1;2] (LSetSlice (sl (Some 0) (Some 2) None) VNonIter) = (Raise TypeError, [0;1;2]).
Proof. exact fixed_setslice_noniterable. Qed.
Example c38_ex_fixed_extslice_iterator :
  sa_list_run1 [0;1;2] (LSetSlice (sl (Some 0) (Some 3) (Some 2)) (VIter [7;8]))
  = (Ok RNone, [7;1;8], [ERem 0; EAdd 7; ERem 2; EAdd 8]) /\
  py_list_op [0;1;2] (LSetSlice (sl (Some 0) (Some 3) (Some 2)) (VIter [7;8])) = (Ok RNone, [7;1;8]).
Proof. exact fixed_extslice_iterator. Qed.
Example c38_ex_fixed_remove_absent :
  sa_list_run1 [0;1;2] (LRemove 7) = (Raise ValueError, [0;1;2], []) /\
  sa_list_run1 [0;1;2] (LRemove 1) = (Ok RNone, [0;2], [ERem 1]).
Proof. exact fixed_remove_absent. Qed.
Example c38_ex_fixed_dict_ior :
  sa_dict_run1 [(0, 0); (1, 1)] (DIor [(0, 7); (5, 8)])
  = (Ok RSelf, [(0, 7); (1, 1); (5, 8)], [ERem 0; EAdd 7; EAdd 8]) /\
  py_dict_op [(0, 0); (1, 1)] (DIor [(0, 7); (5, 8)]) = (Ok RSelf, [(0, 7); (1, 1); (5, 8)]).
Proof. exact fixed_dict_ior. Qed.

(* the guards hold on ordinary histories, which raise and mutate *)
Example c38_ex_list_history :
  let ops := [LAppend 3; LSetSlice (sl (Some (-1)) None (Some (-2))) (VList [8;9]); LPop (Some 9);
              LDelSlice (sl None None (Some 2)); LRemove 9; LInsert (-7) 5; LIAdd VSelf] in
  all_guard list_eq_guard ops [0;1;2] = true /\
  sa_guarded list_acct_guard ops ([0;1;2], []) = true /\
  sa_list_run ops ([0;1;2], []) =
    ([Ok RNone; Ok RNone; Raise IndexError; Ok RNone; Ok RNone; Ok RNone; Ok RSelf],
     ([5;8;5;8],
      [EAdd 3; ERem 3; EAdd 8; ERem 1; EAdd 9; ERem 0; ERem 2; ERem 9; EAdd 5; EAdd 5; EAdd 8])).
Proof. repeat split; vm_compute; reflexivity. Qed.

(* an iteration order satisfying the hypothesis of the set theorems, and a set history *)
Example c38_ex_ord : forall l : list Z, Permutation ((fun l => l) l) l.
Proof. intro l. apply Permutation_refl. Qed.
Example c38_ex_set_history :
  sa_set_run (fun l => l) [SUpdate (AList [3;0;3]); SIxor (ASet [0;5]); SInterUpdate ASelf; SRemove 9; SPop]
             ([0;1], []) =
  ([Ok RNone; Ok RSelf; Ok RNone; Raise KeyError; Ok (RItem 1)],
   ([3;5], [EAdd 3; ESame 0; ESame 3; ERem 0; EAdd 5; ERem 1])).
Proof. vm_compute; reflexivity. Qed.

Example c38_ex_dict_history :
  let ops := [DUpdate (UPairs [(0, 7); (2, 2); (0, 7)]) [(1, 1)]; DSetDefault 2 2; DPop 9 None; DPopItem] in
  d_wf [(0, 0); (1, 1)] /\
  sa_dict_run ops ([(0, 0); (1, 1)], []) =
    ([Ok RNone; Ok (RItem 2); Raise KeyError; Ok (RPair 2 2)],
     ([(0, 7); (1, 1)], [ERem 0; EAdd 7; EAdd 2; ESame 7; ESame 1; ESame 2; ERem 2])).
Proof.
  repeat split; try (vm_compute; reflexivity).
  unfold d_wf. cbn. repeat constructor; cbn; intuition discriminate.
Qed.
