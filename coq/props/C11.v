(* C11 - row lookup by column expression returns that expression's value.
   Statements only; every proof is [exact <lemma>]. *)
From Coq Require Import List NArith Bool Arith.
Import ListNotations.
From SAV.sql Require Import ResultMap ResultMapDict ResultMapKeymapProofs ResultMapModeProofs ResultMapCompileProofs.

(* ---------- lookup by object / by an unambiguous key ---------- *)

(* positional 1:1 mode (every compiled SELECT whose cursor has as many columns as the statement): a key -
   column object, label object, string - found among the name and the lookup objects of result column i and
   of no other column resolves to i.  For all column lists: arbitrary collisions among the other keys. *)
Theorem c11_lookup_by_object : forall rcs tr i e o,
  nth_error rcs i = Some e -> In o (rc_name e :: rc_objs e) ->
  (forall j e', nth_error rcs j = Some e' -> In o (rc_name e' :: rc_keyname e' :: rc_objs e') -> j = i) ->
  lookup (km_pos rcs tr) o = Ok i.
Proof. exact lookup_by_object. Qed.
Print Assumptions c11_lookup_by_object.

(* the same in every merge mode (textual positional, name matching), stated on the merged records *)
Theorem c11_lookup_unique_key_any_mode : forall rw n tr r o i,
  n <> 0 -> In r rw -> m_idx r = Some i -> In o (m_key r :: m_objs r) ->
  (forall r', In r' rw -> In o (m_key r' :: m_rend r' :: m_objs r') -> m_idx r' = Some i) ->
  lookup (keymap_of rw n tr) o = Ok i.
Proof. exact lookup_unique_key. Qed.
Print Assumptions c11_lookup_unique_key_any_mode.

(* end to end from the SELECT: for every list of selected columns with ANY assignment of names, keys,
   table-qualified labels, anonymous labels (arbitrary collisions), every label style and every
   truncation function [resolve] (any label_length): a column object that is selected once and is not a
   repeat of an earlier equal column is found at its own position *)
Theorem c11_select_lookup_by_column_object : forall (resolve : nm -> nm) st cols desc tr i c p,
  nth_error cols i = Some c ->
  (forall j c', nth_error cols j = Some c' -> d_obj c' = d_obj c -> j = i) ->
  (forall c', In c' cols -> (d_obj c' < cl_base)%N /\ is_obj (d_key c') = false /\ is_obj (d_proxy c') = false) ->
  nth_error (gen_cpn st true cols) i = Some p -> p_repeated p = false ->
  f_ordered (snd (compile_select resolve st cols)) = true -> length desc = length cols ->
  exists md, build (fst (compile_select resolve st cols)) (snd (compile_select resolve st cols)) desc tr = Ok md /\
             lookup (md_keymap md) (KO (d_obj c)) = Ok i.
Proof. exact select_lookup_by_column_object. Qed.
Print Assumptions c11_select_lookup_by_column_object.

(* one result-map entry per selected column, in order (what positional matching relies on) *)
Theorem c11_select_entry_per_column : forall (resolve : nm -> nm) st cols,
  length (fst (compile_select resolve st cols)) = length cols.
Proof. exact select_entry_per_column. Qed.
Print Assumptions c11_select_entry_per_column.

Theorem c11_select_entry_has_object : forall (resolve : nm -> nm) st cols i c p,
  nth_error cols i = Some c -> nth_error (gen_cpn st true cols) i = Some p -> p_repeated p = false ->
  exists e, nth_error (fst (compile_select resolve st cols)) i = Some e /\ In (KO (d_obj c)) (rc_objs e).
Proof. exact select_entry_has_object. Qed.
Print Assumptions c11_select_entry_has_object.

(* the de-duplication of _generate_columns_plus_names only strips the lookup objects of a column that
   repeats an earlier column with the same identity; the first occurrence keeps them *)
Theorem c11_repeated_has_earlier_equal : forall st cols i p,
  anon_labels_private cols ->
  nth_error (gen_cpn st true cols) i = Some p -> p_repeated p = true ->
  exists j c', j < i /\ nth_error cols j = Some c' /\ d_hash c' = d_hash (p_col p).
Proof. exact repeated_has_earlier_equal. Qed.
Print Assumptions c11_repeated_has_earlier_equal.

Theorem c11_every_identity_has_carrier : forall st cols, anon_labels_private cols ->
  forall i c, nth_error cols i = Some c ->
  exists j c' p', j <= i /\ nth_error cols j = Some c' /\ d_hash c' = d_hash c /\
                 nth_error (gen_cpn st true cols) j = Some p' /\ p_col p' = c' /\ p_repeated p' = false.
Proof. exact every_identity_has_carrier. Qed.
Print Assumptions c11_every_identity_has_carrier.

(* ---------- an ambiguous key raises ---------- *)

(* the duplicate detection is exact: a key is marked iff two merged records with different cursor indexes
   carry it *)
Theorem c11_dupes_sound : forall rw k, In k (dupes_of rw) ->
  exists r1 r2, In r1 rw /\ In r2 rw /\ m_idx r1 <> m_idx r2 /\
                In k (m_rend r1 :: m_objs r1) /\ In k (m_rend r2 :: m_objs r2).
Proof. exact dupes_sound. Qed.
Print Assumptions c11_dupes_sound.

Theorem c11_dupes_complete : forall rw k r1 r2, In r1 rw -> In r2 rw -> m_idx r1 <> m_idx r2 ->
  In k (m_rend r1 :: m_objs r1) -> In k (m_rend r2 :: m_objs r2) -> In k (dupes_of rw).
Proof. exact dupes_complete. Qed.
Print Assumptions c11_dupes_complete.

(* REFUTED at full strength: the detection only runs when the number of distinct primary names differs
   from the number of compiled columns.  Witnesses (all reproduced on SQLite, see findings/C11.json):
   select(a.c.b_z, b.c.z) with a.q keyed "b_z": row._mapping["b_z"] silently returns b.z *)
Theorem c11_ambiguous_raises_refuted :
  exists rcs tr k i j ei ej,
    nth_error rcs i = Some ei /\ nth_error rcs j = Some ej /\ i <> j /\
    In k (rc_keyname ei :: rc_objs ei) /\ In k (rc_keyname ej :: rc_objs ej) /\
    lookup (km_pos rcs tr) k = Ok j.
Proof. exact ambiguous_raises_refuted. Qed.
Print Assumptions c11_ambiguous_raises_refuted.

(* text("select 1 as x, 2 as x"): "x" returns the last column *)
Theorem c11_plain_text_duplicate_names_refuted :
  exists desc k, nth_error desc 0 = Some (k, KN) /\ nth_error desc 1 = Some (k, KN) /\
    lookup (keymap_of (raw_bynone desc) 0 true) k = Ok 1.
Proof. exact plain_text_duplicate_names_refuted. Qed.
Print Assumptions c11_plain_text_duplicate_names_refuted.

(* REPAIRED by 0c26c9c (was c11_name_matching_wrong_column_refuted): select(a.c.x.label("foo"),
   b.c.x.label("foo"), literal_column("1 AS p, 2 AS q")) - name matching with a repeated cursor name; the
   first label object used to resolve to the second column, now every shared key raises *)
Example c11_name_matching_duplicate_names_raise :
  let km := keymap_of (raw_byname w_rcs2 false [(w_foo, KN); (w_foo, KN); (w_p, KN); (w_q, KN)]) 3 true in
  map (lookup km) [KO 1; KO 2; w_foo; w_p; w_q] = [Raise Ambiguous; Raise Ambiguous; Raise Ambiguous; Ok 2; Ok 3].
Proof. exact name_matching_duplicate_names_raise. Qed.

(* unguarded since 0c26c9c: a primary name shared by two merged records (a name repeated in
   cursor.description under name matching / textual matching, two equal labels under positional matching)
   always switches the scan on - whatever the number of compiled columns *)
Theorem c11_ambiguous_raises_shared_name : forall rw n tr k r1 r2,
  n <> 0 -> In r1 rw -> In r2 rw -> m_idx r1 <> m_idx r2 ->
  m_key r1 = m_key r2 ->
  In k (m_rend r1 :: m_objs r1) -> In k (m_rend r2 :: m_objs r2) ->
  lookup (keymap_of rw n tr) k = Raise Ambiguous.
Proof. exact ambiguous_raises_shared_name. Qed.
Print Assumptions c11_ambiguous_raises_shared_name.

(* GUARDED: whenever the detection runs ([dupes_path]: the number of distinct primary names differs from the
   number of compiled columns or from the number of merged records), every key that reaches two different
   cursor indexes raises.  What remains outside the guard: keys shared through SECONDARY names/objects while all
   primary names are distinct (c11_ambiguous_raises_refuted), and plain text (no compiled columns) *)
Theorem c11_ambiguous_raises_guarded : forall rw n tr k r1 r2,
  n <> 0 -> dupes_path rw n = true ->
  In r1 rw -> In r2 rw -> m_idx r1 <> m_idx r2 ->
  In k (m_rend r1 :: m_objs r1) -> In k (m_rend r2 :: m_objs r2) ->
  lookup (keymap_of rw n tr) k = Raise Ambiguous.
Proof. exact ambiguous_raises_guarded. Qed.
Print Assumptions c11_ambiguous_raises_guarded.

Theorem c11_ambiguous_raises_positional_guarded : forall rcs tr k i j ei ej,
  dupes_path (raw_positional rcs) (length rcs) = true ->
  nth_error rcs i = Some ei -> nth_error rcs j = Some ej -> i <> j ->
  In k (rc_keyname ei :: rc_objs ei) -> In k (rc_keyname ej :: rc_objs ej) ->
  lookup (km_pos rcs tr) k = Raise Ambiguous.
Proof. exact ambiguous_raises_positional_guarded. Qed.
Print Assumptions c11_ambiguous_raises_positional_guarded.

(* ---------- a successful lookup never returns a column the key does not denote ---------- *)

Theorem c11_no_wrong_column_positional : forall rcs tr k i,
  lookup (km_pos rcs tr) k = Ok i ->
  exists e, nth_error rcs i = Some e /\ In k (rc_name e :: rc_objs e).
Proof. exact no_wrong_column_positional. Qed.
Print Assumptions c11_no_wrong_column_positional.

(* textual positional (text().columns(...) positional, text() inside a select): the cursor name of column
   i or a lookup object of the compiled column at the same position *)
Theorem c11_no_wrong_column_textual : forall rcs desc rw tr k i,
  rcs <> [] -> raw_textual rcs desc = Ok rw ->
  lookup (keymap_of rw (length rcs) tr) k = Ok i ->
  exists cu, nth_error desc i = Some cu /\
    (k = fst cu \/ exists e, nth_error rcs i = Some e /\ In k (rc_objs e)).
Proof. exact no_wrong_column_textual. Qed.
Print Assumptions c11_no_wrong_column_textual.

(* name matching: the cursor name of column i, or a lookup object of a compiled column whose rendered name
   (with loose matching: one of whose keys) is the cursor name of column i *)
Theorem c11_no_wrong_column_byname : forall rcs loose desc tr k i,
  rcs <> [] ->
  lookup (keymap_of (raw_byname rcs loose desc) (length rcs) tr) k = Ok i ->
  exists cu, nth_error desc i = Some cu /\
    (k = fst cu \/ exists j e, nth_error rcs j = Some e /\ In k (rc_objs e) /\
                    (rc_keyname e = fst cu \/ (loose = true /\ In (fst cu) (rc_objs e)))).
Proof. exact no_wrong_column_byname. Qed.
Print Assumptions c11_no_wrong_column_byname.

Theorem c11_no_wrong_column_plain_text : forall desc tr k i,
  lookup (keymap_of (raw_bynone desc) 0 tr) k = Ok i ->
  exists cu, nth_error desc i = Some cu /\
    (k = fst cu \/ exists j cu', nth_error desc j = Some cu' /\ snd cu' = k /\ fst cu' = fst cu).
Proof. exact no_wrong_column_bynone. Qed.
Print Assumptions c11_no_wrong_column_plain_text.

(* ---------- the compiled cache: lookups by the columns of a new, equal statement ---------- *)
Theorem c11_adapt_no_wrong_column : forall rcs tr news o j,
  lookup (adapt (km_pos rcs tr) news) o = Ok j ->
  nth_error news j = Some o \/ lookup (km_pos rcs tr) o = Ok j.
Proof. exact adapt_no_wrong_column. Qed.
Print Assumptions c11_adapt_no_wrong_column.

Theorem c11_adapt_lookup_new_column : forall rcs tr news o i k0,
  nth_error news i = Some o -> (forall j, nth_error news j = Some o -> j = i) ->
  lookup (km_pos rcs tr) k0 = Ok i ->
  lookup (adapt (km_pos rcs tr) news) o = Ok i.
Proof. exact adapt_lookup_new_column. Qed.
Print Assumptions c11_adapt_lookup_new_column.

(* ---------- non-vacuity ---------- *)
(* a.id and b.id (atoms: 10 "id", 11 "a_id", 12 "b_id", 13 "id_1") *)
Definition ex_col (o : N) (tq : N) (proxy : N) : cdesc :=
  {| d_obj := o; d_hash := o; d_cls := CColumnClause; d_lit := false; d_table := true; d_render := true;
     d_name := Some (NP 10, false); d_key := KS (NP 10); d_tq := Some (NP tq, true);
     d_nonanon := Some (NP 10, false); d_anon_name := NA o 0 (NP 10); d_anon_tq := NA o 0 (NP tq);
     d_exprlabel := None; d_proxy := KS (NP proxy) |}.
Definition ex_cols := [ex_col 1 11 10; ex_col 2 12 13].
Definition ex_resolve (n : nm) : nm := match n with NA 2 0 _ => NP 13 | _ => n end.
Definition ex_desc : list dcol := [(KS (NP 10), KN); (KS (NP 13), KN)].

(* default label style: SELECT a.id, b.id AS id_1 - both objects and both names resolve *)
Example c11_ex_disambiguate :
  match build (fst (compile_select ex_resolve StDisamb ex_cols)) (snd (compile_select ex_resolve StDisamb ex_cols))
              ex_desc true with
  | Ok md => map (lookup (md_keymap md)) [KO 1; KO 2; KS (NP 10); KS (NP 13); KS (NP 12)]
             = [Ok 0; Ok 1; Ok 0; Ok 1; Ok 1]
  | Raise _ => False
  end.
Proof. vm_compute. reflexivity. Qed.

(* LABEL_STYLE_NONE: SELECT a.id, b.id - the objects resolve, the shared name raises *)
Example c11_ex_none :
  match build (fst (compile_select ex_resolve StNone ex_cols)) (snd (compile_select ex_resolve StNone ex_cols))
              [(KS (NP 10), KN); (KS (NP 10), KN)] true with
  | Ok md => map (lookup (md_keymap md)) [KO 1; KO 2; KS (NP 10); KS (NP 11)]
             = [Ok 0; Ok 1; Raise Ambiguous; Ok 0]
             /\ dupes_path (raw_positional (fst (compile_select ex_resolve StNone ex_cols))) 2 = true
  | Raise _ => False
  end.
Proof. vm_compute. split; reflexivity. Qed.

(* the same column twice under the default style: the second is a repeat and the first carries the object *)
Example c11_ex_repeat :
  map p_repeated (gen_cpn StDisamb true [ex_col 1 11 10; ex_col 1 11 10]) = [false; true]
  /\ anon_labels_private [ex_col 1 11 10; ex_col 1 11 10].
Proof.
  split; [vm_compute; reflexivity|].
  intros c c' n [<-|[<-|[]]] [<-|[<-|[]]] _ _; reflexivity.
Qed.

(* REPAIRED by 6eaf5b0 (finding C11-wrapped-column-taken-for-repeat): two different expressions that report
   the same _anon_name_label (cast(t.c.a, String), cast(t.c.a, Float)) - the second one is no repeat any more,
   gets a dedupe label and keeps its lookup objects; the same expression twice still is a repeat *)
Definition ex_wrapped (o : N) : cdesc :=
  {| d_obj := o; d_hash := o; d_cls := CUnnamed; d_lit := false; d_table := false; d_render := true;
     d_name := None; d_key := KN; d_tq := None; d_nonanon := None; d_anon_name := NP 10; d_anon_tq := NP 10;
     d_exprlabel := None; d_proxy := KS (NP 10) |}.
Example c11_ex_wrapped_not_repeat :
  map p_repeated (gen_cpn StDisamb true [ex_wrapped 1; ex_wrapped 1; ex_wrapped 2]) = [false; true; false]
  /\ map p_fallback (gen_cpn StDisamb true [ex_wrapped 1; ex_wrapped 2])
     = [Some (NP 10, true); Some (NA 2 1 (NP a_anon), true)]
  /\ In (KO 2) (rc_objs (nth 1 (fst (compile_select (fun n => n) StDisamb [ex_wrapped 1; ex_wrapped 2]))
                              {| rc_keyname := KN; rc_name := KN; rc_objs := [] |})).
Proof. vm_compute. split; [reflexivity|split; [reflexivity|]]. auto 10. Qed.

(* ---------- reuse of the metadata through the compiled cache (_safe_for_cache) ---------- *)
Theorem c11_safe_for_cache_positional_sound : forall rcs f desc desc' tr,
  rcs <> [] -> f_ordered f = true -> f_textual_ordered f = false ->
  length desc = length rcs -> length desc' = length rcs ->
  build rcs f desc tr = build rcs f desc' tr /\ safe_for_cache rcs f desc = true.
Proof. exact safe_for_cache_positional_sound. Qed.
Print Assumptions c11_safe_for_cache_positional_sound.

(* metadata built by name matching follows the cursor's column order (Example) and is never reused *)
Theorem c11_name_matching_never_safe : forall rcs f desc,
  f_textual_ordered f = false -> f_adhoc f = false ->
  (f_ordered f = false \/ length desc <> length rcs) -> safe_for_cache rcs f desc = false.
Proof. exact name_matching_never_safe. Qed.
Print Assumptions c11_name_matching_never_safe.

Example c11_ex_name_matching_order_matters :
  let rcs := [ {| rc_keyname := w_q; rc_name := w_q; rc_objs := [KO 1; w_q] |};
               {| rc_keyname := w_z; rc_name := w_z; rc_objs := [KO 2; w_z] |} ] in
  lookup (keymap_of (raw_byname rcs true [(w_q, KN); (w_z, KN)]) 2 true) (KO 1) = Ok 0 /\
  lookup (keymap_of (raw_byname rcs true [(w_z, KN); (w_q, KN)]) 2 true) (KO 1) = Ok 1.
Proof. exact name_matching_order_matters. Qed.
