(* C45 - Session.merge copies state onto the session's single instance.
   Statements only; proofs in coq/orm/Merge*.v.  Model: coq/orm/Merge.v (mapping A(id,x,y,bs) / B(id,aid,v,a),
   source graph = one A with its B children, any database, any prepared session). *)
From Coq Require Import List Bool Arith ZArith.
From SAV.orm Require Import Merge MergeProofs MergeValues MergeIdem MergeWf MergeMain MergeColl MergeColl2.
Import ListNotations.

(* ---- load_false_no_sql_no_dirty ----
   with load=False no statement is sent, no pending object appears, no instance becomes modified, and the merged
   instance and every member of its merged collection carry no history at all *)
Theorem c45_load_false_no_sql_no_dirty : forall cfg sbs s src s' t,
  srcsB_ok sbs -> srcA_ok src ->
  merge_A cfg false sbs s src = Some (s', t) ->
  sql s' = sql s /\ pendings s' = pendings s /\
  (forall x, modf s' x = true -> modf s x = true) /\
  clean s' t /\
  (mf cfg = true -> forall js, sa_bs src = SV js -> exists dest, bs s' t = Some dest /\ forall c, In c dest -> clean s' c).
Proof. exact merge_load_false_no_sql_no_dirty. Qed.
Print Assumptions c45_load_false_no_sql_no_dirty.

(* ---- merge_returns_identity_instance + merged_values_eq_loaded_source_values ----
   the result is the instance the session already holds for the key (or becomes the identity-map entry when it is
   created with load=False / loaded from an existing row); a loaded source column is copied, an unloaded one leaves
   the target's value: the existing one, the one loaded from the row, or none *)
Theorem c45_merge_identity_and_values : forall cfg load sbs s src s' t,
  wf s -> merge_A cfg load sbs s src = Some (s', t) ->
  (forall pk, sa_pk src = Some pk ->
     (forall e, idA s pk = Some e -> t = e) /\
     (load = false \/ idA s pk <> None \/ assoc pk (rowsA cfg) <> None -> idA s' pk = Some t)) /\
  cols s' t 1 = copied (sa_x src) (base_col cfg load s src 1) /\
  cols s' t 2 = copied (sa_y src) (base_col cfg load s src 2).
Proof. exact merge_identity_and_values. Qed.
Print Assumptions c45_merge_identity_and_values.

Example c45_wf_is_satisfiable : wf m0.
Proof. exact wf_m0. Qed.

(* well-formedness is an invariant of every history of get / collection load / attribute set / merge operations
   (induction over the operation list) ... *)
Theorem c45_wf_all_histories : forall cfg sas sbs ops, wf (mrun cfg sas sbs m0 ops).
Proof. exact wf_all_histories. Qed.
Print Assumptions c45_wf_all_histories.

(* ... so identity and values hold for a merge issued after ANY history *)
Theorem c45_merge_identity_and_values_after_any_history : forall cfg sas sbs ops load src s' t,
  let s := mrun cfg sas sbs m0 ops in
  merge_A cfg load sbs s src = Some (s', t) ->
  (forall pk, sa_pk src = Some pk ->
     (forall e, idA s pk = Some e -> t = e) /\
     (load = false \/ idA s pk <> None \/ assoc pk (rowsA cfg) <> None -> idA s' pk = Some t)) /\
  cols s' t 1 = copied (sa_x src) (base_col cfg load s src 1) /\
  cols s' t 2 = copied (sa_y src) (base_col cfg load s src 2).
Proof. exact merge_after_any_history. Qed.
Print Assumptions c45_merge_identity_and_values_after_any_history.

(* ---- cascaded relationships: the merged collection ----
   with "merge" in the cascade of A.bs and the collection loaded on the source, the merged collection has one member
   per source member, in order; a member whose key can be persistent (load=False, an instance already in the
   session, or an existing row) is the identity-map instance of that key - for any number of children *)
Theorem c45_merged_collection : forall cfg load sbs s src s' t js,
  merge_A cfg load sbs s src = Some (s', t) ->
  mf cfg = true -> sa_bs src = SV js -> valid_children sbs js ->
  exists dest, bs s' t = Some dest /\ length dest = length js /\
    forall i j b pk, nth_error js i = Some j -> nth_error sbs j = Some b -> sb_pk b = Some pk ->
      (load = false \/ idB s pk <> None \/ assoc pk (rowsB cfg) <> None) ->
      exists c, nth_error dest i = Some c /\ idB s' pk = Some c.
Proof. exact merge_collection. Qed.
Print Assumptions c45_merged_collection.

(* ---- merge_idempotent ----
   refuted: a source whose key has no row is copied to a NEW pending object by every merge *)
Theorem c45_merge_idempotent_refuted :
  exists cfg sbs s src s1 t1 s2 t2,
    wf s /\ merge_A cfg true sbs s src = Some (s1, t1) /\ merge_A cfg true sbs s1 src = Some (s2, t2) /\
    t2 <> t1 /\ pendings s1 = [t1] /\ pendings s2 = [t1; t2] /\ cols s2 t1 0 = cols s2 t2 0.
Proof. exact merge_idempotent_refuted. Qed.
Print Assumptions c45_merge_idempotent_refuted.

(* guarded (the key resolves to a persistent instance); proved for merges that copy columns only - the source
   collection is not loaded or A.bs has no merge cascade.  Missing: the same statement with a merged collection *)
Theorem c45_merge_idempotent_guarded_partial : forall cfg load sbs s src s1 t,
  wf s -> merge_A cfg load sbs s src = Some (s1, t) ->
  (forall pk, sa_pk src = Some pk -> load = false \/ idA s pk <> None \/ assoc pk (rowsA cfg) <> None) ->
  sa_pk src <> None ->
  (sa_bs src = SU \/ mf cfg = false) ->
  exists s2, merge_A cfg load sbs s1 src = Some (s2, t) /\ same_session s2 s1 /\ sql s2 = sql s1.
Proof. exact merge_idempotent_columns_partial. Qed.
Print Assumptions c45_merge_idempotent_guarded_partial.

Example c45_idempotent_example :
  let cfg := mkMC true true true [(1, (Some 10%Z, Some 20%Z))] [] in
  let src := mkSA true (Some 1) (SV (Some 15%Z)) SU SU in
  exists s1 t, merge_A cfg true [] m0 src = Some (s1, t) /\ cols s1 t 1 = Some (Some 15%Z) /\
               cols s1 t 2 = Some (Some 20%Z) /\ sql s1 = 1.
Proof. eexists. eexists. vm_compute. repeat split. Qed.
