(* C45 - Session.merge copies state onto the session's single instance (statements; proofs in coq/orm/Merge*.v) *)
From Coq Require Import List Bool Arith ZArith.
From SAV.base Require Import Tree.
From SAV.orm Require Import Merge MergeRun.
Import ListNotations.

Theorem c45_placeholder : run_case (L []) = bad_input.
Proof. reflexivity. Qed.
Print Assumptions c45_placeholder.
