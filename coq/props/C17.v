(* C17 - lambda statements never reuse stale closure values.  Statements only; every proof is [exact <lemma>].

   Model (sql/Lambda.v): [run F U empty_state h] is what a process does with the history h of constructions
   "lambda_stmt(l0) + l1 + ..." (each link: code object + closure cell values) - analysis once per code object
   from the first closure, cache key from the structural cells, skeleton cached per chain key, bound values
   re-extracted on every construction; [direct_chain] is the same expressions built without lambda_stmt.
   F = what helper functions do, U = the body of each lambda (as a list of uses of its closure cells).
   Assumption built into the model: a code object determines the body of the lambda, including what its global
   names refer to (false for textually identical lambdas on the same line of two modules - code objects compare
   by value and ignore the file name: finding C17-equal-code-objects-share-cache, reproduced on every run). *)
From Coq Require Import List NArith ZArith Bool.
Import ListNotations.
From SAV.sql Require Import Lambda LambdaBase LambdaProofs LambdaMain LambdaExtra.

(* MAIN (guarded).  For every helper semantics F, every set of lambda bodies U, every history h of any length of
   "+=" chains of any length with any closure values: if every construction is inside the guard
     - closure cells keep their kind (literal / list / column / table / function) per code object  [Kf]
     - no None where None-ness changes the SQL (comparison operand, LIMIT); helper functions that are called
       without arguments have no closure of their own; function cells are not also used as values     [safe_env]
     - no Python-level truth test of a cell in the body; indexed list items exist and are not None    [safe_body, safe_env]
   and the direct construction itself succeeds, then EVERY construction in the history yields exactly the
   statement (criteria, bound values, FROM, LIMIT) the direct construction yields, or the documented refusal
   (InvalidRequestError).  In particular a cached skeleton is never combined with stale values. *)
Theorem c17_lambda_eq_direct_guarded : forall F U Kf h,
  (forall ch, In ch h -> chain_good U Kf ch /\ exists its, direct_chain F U ch = Ok its) ->
  Forall2 (fun ch r => r = Rejected \/ r = direct_chain F U ch) h (run F U empty_state h).
Proof. exact lambda_eq_direct. Qed.
Print Assumptions c17_lambda_eq_direct_guarded.

(* a closure value that changes the SQL structure (column, table, list of columns) is part of the cache key *)
Theorem c17_structural_change_changes_key : forall us e0 e e' i,
  map kind e = map kind e0 -> map kind e' = map kind e0 ->
  wrapped (classify_cells us 0 e0) i = false -> cell e i <> cell e' i ->
  keyparts (classify_cells us 0 e0) e <> keyparts (classify_cells us 0 e0) e'.
Proof. exact structural_change_changes_key. Qed.
Print Assumptions c17_structural_change_changes_key.

Theorem c17_function_change_changes_key : forall us e0 e e' i code cap code' cap',
  map kind e = map kind e0 -> map kind e' = map kind e0 -> has_param us i = false ->
  cell e i = VFun code cap -> cell e' i = VFun code' cap' -> code <> code' ->
  keyparts (classify_cells us 0 e0) e <> keyparts (classify_cells us 0 e0) e'.
Proof. exact function_change_changes_key. Qed.
Print Assumptions c17_function_change_changes_key.

(* literal closure values become fresh bound parameters: filling a skeleton uses the CURRENT closure *)
Theorem c17_bound_values_are_current : forall F a e us its,
  forallb (safe_use e) us = true -> direct_uses F e us = Ok its ->
  exists p, build_uses F a e us = Ok p /\ fill e p = its.
Proof. exact build_fill_uses. Qed.
Print Assumptions c17_bound_values_are_current.

(* the skeleton depends on the closure only through the cache key *)
Theorem c17_skeleton_determined_by_key : forall F us e0 e e',
  map kind e = map kind e0 -> map kind e' = map kind e0 ->
  keyparts (classify_cells us 0 e0) e = keyparts (classify_cells us 0 e0) e' ->
  safe_body us = true -> safe_env us e = true -> safe_env us e' = true ->
  build_uses F (classify_cells us 0 e0) e us = build_uses F (classify_cells us 0 e0) e' us.
Proof. intros F us e0 e e' K K' HK B S S'. exact (build_uses_same_key F us e0 e e' K K' HK us (incl_refl us) B S S'). Qed.
Print Assumptions c17_skeleton_determined_by_key.

(* a cell that is only tested for truth is refused (the documented InvalidRequestError), never cached *)
Theorem c17_truth_test_unshared_rejected : forall us e t c i k1 k2,
  In (UIf t c i k1 k2) us -> has_param us i = false -> i < length e ->
  (match cell e i with VNone | VInt _ => true | _ => false end) = true ->
  forall a, analyze us e <> Ok a.
Proof. exact truth_test_unshared_rejected. Qed.
Print Assumptions c17_truth_test_unshared_rejected.

(* ---------------- outside the guard the unguarded statement is FALSE (each confirmed on the implementation) ---- *)
Theorem c17_none_operand_refuted :
  run F0 U_none empty_state [[(1%N, [VInt 1])]; [(1%N, [VNone])]] =
    [Ok [ICrit (CCmp 0 1 Ne (VInt 1))]; Ok [ICrit (CCmp 0 1 Ne VNone)]] /\
  direct_chain F0 U_none [(1%N, [VNone])] = Ok [ICrit (CIsNotNull 0 1)].
Proof. exact none_operand_refuted. Qed.
Print Assumptions c17_none_operand_refuted.

Theorem c17_none_limit_refuted :
  run F0 U_limit empty_state [[(1%N, [VNone])]] = [Ok [ILimit VNone]] /\ direct_chain F0 U_limit [(1%N, [VNone])] = Ok [].
Proof. exact none_limit_refuted. Qed.
Print Assumptions c17_none_limit_refuted.

(* STALE closure value: a helper function with its own closure *)
Theorem c17_nested_function_stale_refuted :
  run F0 U_call empty_state [[(1%N, [VFun 7 [VInt 0]])]; [(1%N, [VFun 7 [VInt 2]])]] =
    [Ok [ICrit (CCmp 0 1 Gt (VInt 0))]; Ok [ICrit (CCmp 0 1 Gt (VInt 0))]] /\
  direct_chain F0 U_call [(1%N, [VFun 7 [VInt 2]])] = Ok [ICrit (CCmp 0 1 Gt (VInt 2))].
Proof. exact nested_function_stale_refuted. Qed.
Print Assumptions c17_nested_function_stale_refuted.

(* STALE structure: a bound value that is also tested for truth *)
Theorem c17_shared_truth_test_stale_refuted :
  run F0 U_shared empty_state [[(1%N, [VInt 1])]; [(1%N, [VInt 0])]] =
    [Ok [ICrit (CCmp 0 1 Gt (VInt 1)); ICrit (CCmp 0 2 Eq (VInt 1))];
     Ok [ICrit (CCmp 0 1 Gt (VInt 0)); ICrit (CCmp 0 2 Eq (VInt 1))]] /\
  direct_chain F0 U_shared [(1%N, [VInt 0])] = Ok [ICrit (CCmp 0 1 Gt (VInt 0)); ICrit (CCmp 0 2 Eq (VInt 2))].
Proof. exact shared_truth_test_stale_refuted. Qed.
Print Assumptions c17_shared_truth_test_stale_refuted.

(* list index: REPAIRED in /repo 3d569da (was c17_list_index_typeerror_refuted).  UIndex is now inside the guard of the
   main theorem; the two situations as positive examples *)
Example c17_list_index_alone_rejected :
  run F0 U_index empty_state [[(1%N, [VList [VInt 1; VInt 2]])]] = [Rejected].
Proof. exact list_index_alone_rejected. Qed.
Example c17_list_index_with_in_fresh :
  run F0 U_index_in empty_state [[(1%N, [VList [VInt 1; VInt 2]])]; [(1%N, [VList [VInt 0; VInt 5; VInt 3]])]] =
    [Ok [ICrit (CIn 0 2 [VInt 1; VInt 2]); ICrit (CCmp 0 1 Gt (VInt 2))];
     Ok [ICrit (CIn 0 2 [VInt 0; VInt 5; VInt 3]); ICrit (CCmp 0 1 Gt (VInt 5))]] /\
  map (direct_chain F0 U_index_in) [[(1%N, [VList [VInt 1; VInt 2]])]; [(1%N, [VList [VInt 0; VInt 5; VInt 3]])]] =
    run F0 U_index_in empty_state [[(1%N, [VList [VInt 1; VInt 2]])]; [(1%N, [VList [VInt 0; VInt 5; VInt 3]])]].
Proof. exact list_index_with_in_fresh. Qed.

(* ---------------- non-vacuity: a history of four chains over three lambdas inside the guard ---------------- *)
Example c17_ex_guard : forall ch, In ch h_ex -> chain_good U_ex K_ex ch /\ exists its, direct_chain F0 U_ex ch = Ok its.
Proof. exact ex_guard. Qed.
Example c17_ex_runs : run F0 U_ex empty_state h_ex = map (direct_chain F0 U_ex) h_ex.
Proof. exact ex_runs. Qed.
