(* C02 - the compiled-statement cache is transparent.
   Statements only; proofs are applications of lemmas from SAV.sql.CacheKey*. *)
From Coq Require Import List NArith ZArith Bool.
Import ListNotations.
From SAV.sql Require Import CacheKey CacheExec CacheKeyProofs CacheKeyBinds CacheExecProofs CacheKeyMain CacheKeyRef CacheKeyTypes.

(* 1. T1 theorem.  T: per class, what the cache key records (from _traverse_internals / the custom
      _gen_cache_key methods); V: per class, the attributes the compiler's output depends on.
      If every attribute in V is keyed ([covers]), two statements with equal cache keys look the same to
      ANY compiler that reads only V-attributes: identical output (SQL text, bind types, positions), and
      their extracted parameters line up one to one. *)
Theorem c02_key_determines_sql :
  forall (T : ttab) (V : vtab), covers T V = true ->
  forall (OUT : Type) (compile_direct : ktree -> OUT) (s1 s2 : node) k b1 b2,
  wf T s1 = true -> wf T s2 = true -> gen_key T s1 = Some (k, b1) -> gen_key T s2 = Some (k, b2) ->
  compile_direct (view T V s1) = compile_direct (view T V s2) /\ map blbl b1 = map blbl b2.
Proof. exact key_determines_sql. Qed.
Print Assumptions c02_key_determines_sql.

(* the real tables do NOT satisfy [covers]: visit_label reads label.type, which Label._cache_key_traversal
   leaves out.  Witness on the reference excerpt: equal keys, different view *)
Theorem c02_key_determines_sql_refuted :
  covers T_ref V_ref = false /\
  wf T_ref s_label_default = true /\ wf T_ref s_label_boolean = true /\
  (exists k b1 b2, gen_key T_ref s_label_default = Some (k, b1) /\ gen_key T_ref s_label_boolean = Some (k, b2)) /\
  view T_ref V_ref s_label_default <> view T_ref V_ref s_label_boolean.
Proof.
  split; [vm_compute; reflexivity|]. split; [vm_compute; reflexivity|]. split; [vm_compute; reflexivity|].
  split; [eexists; eexists; eexists; split; vm_compute; reflexivity | vm_compute; discriminate].
Qed.
Print Assumptions c02_key_determines_sql_refuted.

(* bindparam.expanding was such a gap until f7c5c02: it is keyed now, the two statements get different keys *)
Example c02_expanding_is_keyed :
  keyed (tget T_ref c_bind) a_expanding = true /\ wf T_ref s_expanding = true /\
  (forall k1 b1 k2 b2, gen_key T_ref s_9 = Some (k1, b1) -> gen_key T_ref s_expanding = Some (k2, b2) -> k1 <> k2).
Proof.
  split; [vm_compute; reflexivity|]. split; [vm_compute; reflexivity|].
  intros k1 b1 k2 b2 H1 H2. vm_compute in H1, H2. inversion H1; inversion H2; subst. discriminate.
Qed.

(* ... and it holds for all statements in which the gap attributes G are unset *)
Theorem c02_key_determines_sql_guarded :
  forall (T : ttab) (V : vtab) (G : list (N * N)), covers T (vminus V G) = true ->
  forall (OUT : Type) (compile_direct : ktree -> OUT) (s1 s2 : node) k b1 b2,
  gapfree G s1 = true -> gapfree G s2 = true ->
  wf T s1 = true -> wf T s2 = true -> gen_key T s1 = Some (k, b1) -> gen_key T s2 = Some (k, b2) ->
  compile_direct (view T V s1) = compile_direct (view T V s2) /\ map blbl b1 = map blbl b2.
Proof. exact key_determines_sql_guarded. Qed.
Print Assumptions c02_key_determines_sql_guarded.

(* what the compiler sees is a function of the (un-pruned) key *)
Theorem c02_view_is_a_function_of_the_key :
  forall (T : ttab) (V : vtab), covers T V = true -> forall s, view T V s = restrict V (proj T s).
Proof. exact view_restrict. Qed.
Print Assumptions c02_view_is_a_function_of_the_key.

(* the labels (positions in the key numbering) of the extracted parameters depend on the key only *)
Theorem c02_extracted_parameters_follow_the_key :
  forall (T : ttab) (s : node) k bs, gen_key T s = Some (k, bs) -> map blbl bs = kbl T k.
Proof. exact gen_key_labels. Qed.
Print Assumptions c02_extracted_parameters_follow_the_key.

(* the type component: TypeEngine._static_cache_key with the "is not None" skip test is injective in
   the constructor arguments of a class (0 / False / '' are kept apart from "not given") ... *)
Theorem c02_type_key_injective :
  forall a1 a2 : list targ, length a1 = length a2 ->
  tkey SkipNone a1 = tkey SkipNone a2 -> map eff a1 = map eff a2.
Proof. exact tkey_injective. Qed.
Print Assumptions c02_type_key_injective.
(* ... and is not with a truthiness test: Numeric(10, 0) / Numeric(10) *)
Theorem c02_type_key_truthiness_refuted :
  tkey SkipFalsy numeric_10_0 = tkey SkipFalsy numeric_10 /\ map eff numeric_10_0 <> map eff numeric_10 /\
  tkey SkipNone numeric_10_0 <> tkey SkipNone numeric_10.
Proof. exact tkey_falsy_not_injective. Qed.
Print Assumptions c02_type_key_truthiness_refuted.

(* 2. construct_params(extracted_parameters=...) on a Compiled made from s0 returns, in order, the
      values of the statement s being executed - never those of s0 - for EVERY parameter set of the
      execution (one for a plain execution, n for an executemany); a set may override a statement bind *)
Theorem c02_rebind_positional_guarded :
  forall (T : ttab) (V : vtab) (G : list (N * N)), covers T (vminus V G) = true ->
  forall (SQL : Type) (render : atom -> ktree -> SQL * list N),
  (forall ctx v, incl (snd (render ctx v)) (kbl T v)) ->
  forall ctx s0 s k b0 b (sets : list pset),
  wf T s0 = true -> wf T s = true -> gapfree G s0 = true -> gapfree G s = true ->
  gen_key T s0 = Some (k, b0) -> gen_key T s = Some (k, b) -> map bcall b0 = map bcall b ->
  (tsql SQL (compile T V SQL render ctx s0 b0), rebind_many SQL (compile T V SQL render ctx s0 b0) b sets)
  = exec_direct T V SQL render ctx s sets.
Proof. exact rebind_positional_gaps. Qed.
Print Assumptions c02_rebind_positional_guarded.

(* 3. every history, every cache state reachable by executing a prefix h1 (cold: h1 = [], warm,
      evicted: any eviction choice per step, disabled: per step flag): executing h2 through the cache
      returns, step by step, the text and the parameter values of uncached execution *)
Theorem c02_cached_exec_eq_direct_guarded :
  forall (T : ttab) (V : vtab) (G : list (N * N)), covers T (vminus V G) = true ->
  forall (SQL : Type) (render : atom -> ktree -> SQL * list N),
  (forall ctx v, incl (snd (render ctx v)) (kbl T v)) ->
  forall h1 h2 : list step,
  (forall s, In s (stmts (h1 ++ h2)) -> wf T s = true /\ gapfree G s = true) ->
  cunib T (stmts (h1 ++ h2)) = true ->
  fst (run T V SQL render (snd (run T V SQL render [] h1)) h2)
  = map (fun x => exec_direct T V SQL render (s_ctx x) (s_stmt x) (s_sets x)) h2.
Proof.
  intros T V G Hc SQL render Hh h1 h2 HU Hg.
  exact (cached_exec_eq_direct_gaps T V G Hc SQL render Hh h1 h2 HU (cunib_sound T _ Hg)).
Qed.
Print Assumptions c02_cached_exec_eq_direct_guarded.

(* with a table that covers everything there is no condition on the statements except the callable one *)
Theorem c02_cached_exec_eq_direct_full_table_guarded :
  forall (T : ttab) (V : vtab), covers T V = true ->
  forall (SQL : Type) (render : atom -> ktree -> SQL * list N),
  (forall ctx v, incl (snd (render ctx v)) (kbl T v)) ->
  forall h1 h2 : list step,
  (forall s, In s (stmts (h1 ++ h2)) -> wf T s = true) ->
  cunib T (stmts (h1 ++ h2)) = true ->
  fst (run T V SQL render (snd (run T V SQL render [] h1)) h2)
  = map (fun x => exec_direct T V SQL render (s_ctx x) (s_stmt x) (s_sets x)) h2.
Proof.
  intros T V Hc SQL render Hh h1 h2 HU Hg.
  exact (cached_exec_eq_direct T V Hc SQL render Hh h1 h2 HU (cunib_sound T _ Hg)).
Qed.
Print Assumptions c02_cached_exec_eq_direct_full_table_guarded.

(* the callable guard cannot be dropped: construct_params consults the CACHED statement's
   bindparam.callable.  Warm the cache with bindparam("p", 3), then execute the same statement with
   bindparam("p", callable_=lambda: 4): the cached execution sends None, the direct one sends 4.
   Every other hypothesis of the guarded theorem holds for this history. *)
Theorem c02_cached_exec_refuted :
  let h := [step_of s_3; step_of s_callable] in
  covers T_ref (vminus V_ref G_ref) = true /\
  (forall ctx v, incl (snd (render_ref ctx v)) (kbl T_ref v)) /\
  (forall s, In s (stmts h) -> wf T_ref s = true /\ gapfree G_ref s = true) /\
  cunib T_ref (stmts h) = false /\
  map snd (fst (run T_ref V_ref ktree render_ref [] h)) = [[[A 3]]; [[ANone]]] /\
  map (fun x => snd (exec_direct T_ref V_ref ktree render_ref (s_ctx x) (s_stmt x) (s_sets x))) h = [[[A 3]]; [[A 4]]].
Proof.
  cbv zeta. split; [vm_compute; reflexivity|]. split; [intros ctx v; apply incl_refl|].
  split; [intros s [<-|[<-|[]]]; vm_compute; split; reflexivity|].
  split; [vm_compute; reflexivity|]. split; vm_compute; reflexivity.
Qed.
Print Assumptions c02_cached_exec_refuted.

(* statements without a cache key (a VALUES with data; an element class that has none) are compiled
   on every execution and never enter the cache *)
Example c02_uncacheable_statements :
  gen_key T_ref s_values = None /\ gen_key T_ref s_nokey = None /\ wf T_ref s_values = true /\
  map snd (fst (run T_ref V_ref ktree render_ref [] [step_of s_values; step_of s_3; step_of s_values])) = [[[A 5]]; [[A 3]]; [[A 5]]] /\
  length (snd (run T_ref V_ref ktree render_ref [] [step_of s_values; step_of s_3; step_of s_values])) = 1%nat.
Proof. repeat split; vm_compute; reflexivity. Qed.

(* non-vacuity: a history over the reference table (cold, warm with a different literal, disabled,
   evicted) satisfying every hypothesis of the guarded theorem; the column object is shared *)
Example c02_hypotheses_satisfiable :
  let h1 := [step_of s_3] in
  let h2 := [step_of s_9; mkStep ctx0 s_3 false (fun _ => false) [[]]; mkStep ctx0 s_9 true (fun _ => true) [[]]; step_of s_3;
             many_of s_9] in
  covers T_ref (vminus V_ref G_ref) = true /\
  (forall s, In s (stmts (h1 ++ h2)) -> wf T_ref s = true /\ gapfree G_ref s = true) /\
  cunib T_ref (stmts (h1 ++ h2)) = true /\
  map snd (fst (run T_ref V_ref ktree render_ref (snd (run T_ref V_ref ktree render_ref [] h1)) h2))
  = [[[A 9]]; [[A 3]]; [[A 9]]; [[A 3]]; [[A 9]; [A 55]; [A 9]]].     (* last: an executemany on a warm cache *)
Proof.
  cbv zeta. split; [vm_compute; reflexivity|].
  split; [intros s [<-|[<-|[<-|[<-|[<-|[<-|[]]]]]]]; vm_compute; split; reflexivity|].
  split; vm_compute; reflexivity.
Qed.
