(* C41 - placeholder while the proofs are being written *)
From Coq Require Import List ZArith Bool.
Import ListNotations.
From SAV.orm Require Import Query.
Example c41_stub : orm_count {| ps := []; cs := [] |} (QP (PS STrue)) = 0.
Proof. vm_compute; reflexivity. Qed.
