(* C41 - ORM queries return the rows their relational meaning specifies.
   Statements only; every proof is [exact <lemma>].  Model: coq/orm/Query.v. *)
From Coq Require Import List ZArith Bool Arith.
Import ListNotations.
From SAV.sql Require Import Val3.
From SAV.orm Require Import Query QueryCrit QueryShapes QueryAsm QueryExtra.

(* the entities (primary keys) and values of the ORM result correspond one-to-one, in order, with the rows of
   the Core query the ORM compiles: for every database and every query of the grammar *)
Theorem c41_orm_rows_biject_core_rows : forall d q,
  map (map item_val) (orm_exec d q false) = core_exec d (orm_to_core d q).
Proof. exact orm_rows_biject_core_rows. Qed.
Print Assumptions c41_orm_rows_biject_core_rows.

(* and that Core query (joins along the relationship, of_type criterion in the ON clause, correlated EXISTS,
   IN subquery, GROUP BY, UNION; three-valued logic) computes the relational meaning of the ORM query stated on
   the object graph - guarded: every object given to contains() has a parent *)
Theorem c41_core_query_has_relational_meaning_guarded : forall d q, query_ok d q = true ->
  core_exec d (orm_to_core d q) = meaning d q.
Proof. exact core_exec_meaning. Qed.
Print Assumptions c41_core_query_has_relational_meaning_guarded.

Theorem c41_orm_rows_have_relational_meaning_guarded : forall d q, query_ok d q = true ->
  map (map item_val) (orm_exec d q false) = meaning d q.
Proof. exact orm_rows_meaning. Qed.
Print Assumptions c41_orm_rows_have_relational_meaning_guarded.

(* the excluded region is a real deviation: NOT contains(child whose foreign key is NULL) returns no parent *)
Theorem c41_core_query_has_relational_meaning_refuted : exists d q,
  core_exec d (orm_to_core d q) = [] /\ meaning d q = [[Some 4%Z]] /\ query_ok d q = false.
Proof. exact core_meaning_refuted. Qed.
Print Assumptions c41_core_query_has_relational_meaning_refuted.

(* any(crit) == EXISTS (SELECT 1 FROM child WHERE fk = pk AND crit), has(crit) likewise, of_type(Sub).any adds the
   single-table criterion; all two-valued, and a NULL foreign key relates the child to no parent *)
Theorem c41_any_has_semantics : forall d,
  (forall e pa p s, lookup e pa = grow_p p -> pa <> sub_alias ->
     beval d e (tr_pcrit d pa (PAny s)) =
     tv_of_bool (existsb (fun c => child_of c p && is_true (sxeval s (c_y c))) (cs d))) /\
  (forall e pa p s, lookup e pa = grow_p p -> pa <> sub_alias ->
     beval d e (tr_pcrit d pa (PAnySub s)) =
     tv_of_bool (existsb (fun c => child_of c p && (is_sub c && is_true (sxeval s (c_y c)))) (cs d))) /\
  (forall e ca c s, lookup e ca = grow_c c -> ca <> sub_alias ->
     beval d e (tr_ccrit ca (CHas s)) =
     tv_of_bool (existsb (fun p => child_of c p && is_true (sxeval s (p_x p))) (ps d))) /\
  (forall c p, c_pid c = None -> child_of c p = false).
Proof. exact any_has_semantics. Qed.
Print Assumptions c41_any_has_semantics.

(* the whole criterion language on P evaluates, inside any enclosing query, to its meaning (3VL) *)
Theorem c41_criterion_meaning_guarded : forall d e pa p c,
  lookup e pa = grow_p p -> pa < sub_alias -> contains_ok d c = true ->
  beval d e (tr_pcrit d pa c) = peval d p c.
Proof. exact pcrit_tr. Qed.
Print Assumptions c41_criterion_meaning_guarded.

(* identity map: within one result the same (class, primary key) is the same object, different keys are
   different objects, whatever row / column they appear in *)
Theorem c41_identity_map_one_object_per_key : forall d q, exists M,
  Forall (items_ok M (col_kinds q)) (orm_exec d q false) /\
  forall t o pk t' o' pk', nth_error M o = Some ((t, pk), o) -> nth_error M o' = Some ((t', pk'), o') ->
    (o = o' <-> (t = t' /\ pk = pk')).
Proof. exact identity_map_one_object_per_key. Qed.
Print Assumptions c41_identity_map_one_object_per_key.

(* count() and exists() agree with the rows returned by select() + Session.execute() *)
Theorem c41_count_exists_agree : forall d q,
  orm_count d q = length (orm_exec d q false) /\
  orm_exists d q = negb (Nat.eqb (length (orm_exec d q false)) 0).
Proof. exact count_exists_agree. Qed.
Print Assumptions c41_count_exists_agree.

(* legacy Query.all() applies Result.unique(): refuted in general, proved when no two rows are the same
   (objects compared by identity), and never more rows than count() *)
Theorem c41_count_agree_legacy_refuted : exists d q,
  orm_count d q = 3 /\ length (orm_exec d q true) = 2 /\ length (core_exec d (orm_to_core d q)) = 3.
Proof. exact count_agree_legacy_refuted. Qed.
Print Assumptions c41_count_agree_legacy_refuted.

Theorem c41_count_agree_legacy_guarded : forall d q,
  distinct_items (orm_exec d q false) [] = true ->
  orm_exec d q true = orm_exec d q false /\ orm_count d q = length (orm_exec d q true).
Proof. exact count_agree_legacy_guarded. Qed.
Print Assumptions c41_count_agree_legacy_guarded.

Theorem c41_legacy_rows_le_count : forall d q, length (orm_exec d q true) <= orm_count d q.
Proof. exact legacy_rows_le_count. Qed.
Print Assumptions c41_legacy_rows_le_count.

(* with LIMIT / OFFSET on the statement: the rows are the slice of the Core rows (and of the meaning), and
   count() / exists() - computed over the statement including its LIMIT / OFFSET - agree with them *)
Theorem c41_orm_rows_biject_core_rows_sliced : forall d q off lim,
  map (map item_val) (orm_exec_sl d q off lim false) = slice off lim (core_exec d (orm_to_core d q)).
Proof. exact orm_rows_biject_core_rows_sl. Qed.
Print Assumptions c41_orm_rows_biject_core_rows_sliced.

Theorem c41_orm_rows_have_relational_meaning_sliced_guarded : forall d q off lim, query_ok d q = true ->
  map (map item_val) (orm_exec_sl d q off lim false) = slice off lim (meaning d q).
Proof. exact orm_rows_meaning_sl. Qed.
Print Assumptions c41_orm_rows_have_relational_meaning_sliced_guarded.

Theorem c41_count_exists_agree_sliced : forall d q off lim,
  orm_count_sl d q off lim = length (orm_exec_sl d q off lim false) /\
  orm_exists_sl d q off lim = negb (Nat.eqb (length (orm_exec_sl d q off lim false)) 0).
Proof. exact count_exists_agree_sl. Qed.
Print Assumptions c41_count_exists_agree_sliced.

Theorem c41_legacy_rows_le_count_sliced : forall d q off lim,
  length (orm_exec_sl d q off lim true) <= orm_count_sl d q off lim.
Proof. exact legacy_rows_le_count_sl. Qed.
Print Assumptions c41_legacy_rows_le_count_sliced.

(* self-referential any() / has() (expression and keyword form): the criterion speaks about the related row *)
Theorem c41_self_referential_criterion_meaning : forall d e na n c,
  lookup e na = grow_c n -> na <> sub_alias -> beval d e (tr_ncrit na c) = neval d n c.
Proof. exact ncrit_tr. Qed.
Print Assumptions c41_self_referential_criterion_meaning.

(* the criteria on C: has(), == None on the many-to-one (IS NULL, negation IS NOT NULL), has(any()) nested *)
Theorem c41_child_criterion_meaning : forall d e ca c k,
  lookup e ca = grow_c c -> ca < sub_alias -> beval d e (tr_ccrit ca k) = ceval d c k.
Proof. exact ccrit_tr. Qed.
Print Assumptions c41_child_criterion_meaning.

(* ---- non-vacuity ---- *)
Definition ex_db : db :=
  {| ps := [ {| p_id := 1; p_x := Some 1%Z |}; {| p_id := 2; p_x := None |}; {| p_id := 3; p_x := Some 2%Z |} ];
     cs := [ {| c_id := 4; c_pid := Some 1%Z; c_y := Some 1%Z; c_kind := 0 |};
             {| c_id := 5; c_pid := Some 1%Z; c_y := Some 1%Z; c_kind := 1 |};
             {| c_id := 6; c_pid := Some 2%Z; c_y := None; c_kind := 1 |};
             {| c_id := 9; c_pid := None; c_y := Some 1%Z; c_kind := 1 |} ]; ns := []; pn := [] |}.

(* outer join to of_type(Sub): parent 3 (no children) and nobody else gets the None entity; parent 1 twice
   would be the same object *)
Example c41_ex_outer_join :
  orm_exec ex_db (QJoinPC true TgSub STrue STrue BothEnt) false =
  [ [IEnt 0 1; IEnt 1 5]; [IEnt 2 2; IEnt 3 6]; [IEnt 4 3; INone] ]%Z
  /\ query_ok ex_db (QJoinPC true TgSub STrue STrue BothEnt) = true.
Proof. split; vm_compute; reflexivity. Qed.

(* NOT any(y = 1): parents 2 (child with NULL y) and 3 (no child); the orphan child 9 counts for nobody *)
Example c41_ex_not_any :
  meaning ex_db (QP (PNot (PAny (SCmp OEq 1)))) = [[Some 2]; [Some 3]]%Z /\
  core_exec ex_db (orm_to_core ex_db (QP (PNot (PAny (SCmp OEq 1))))) = [[Some 2]; [Some 3]]%Z.
Proof. split; vm_compute; reflexivity. Qed.

(* a guarded contains(): child 6 belongs to parent 2 *)
Example c41_ex_contains :
  query_ok ex_db (QP (PNot (PContains 6))) = true /\
  meaning ex_db (QP (PNot (PContains 6))) = [[Some 1]; [Some 3]]%Z.
Proof. split; vm_compute; reflexivity. Qed.

(* the same parent in several rows is one object (oid 0) *)
Example c41_ex_identity :
  orm_exec ex_db (QJoinPC false TgC STrue STrue BothEnt) false =
  [ [IEnt 0 1; IEnt 1 4]; [IEnt 0 1; IEnt 2 5]; [IEnt 3 2; IEnt 4 6] ]%Z.
Proof. vm_compute; reflexivity. Qed.

Example c41_ex_legacy_guard :
  distinct_items (orm_exec ex_db (QJoinPC false TgC STrue STrue BothEnt) false) [] = true.
Proof. vm_compute; reflexivity. Qed.

(* nodes 1 <- 2 <- 3 (data 7, 8, 7), 4 an orphan with data 8: children.any(data=8) holds for node 1 only,
   parent.has(data=7) for node 2 only (node 3's parent has 8; the outer row's own data is irrelevant) *)
Definition ex_nodes : db :=
  {| ps := []; cs := [];
     ns := [ {| c_id := 1; c_pid := None; c_y := Some 7%Z; c_kind := 0 |};
             {| c_id := 2; c_pid := Some 1%Z; c_y := Some 8%Z; c_kind := 0 |};
             {| c_id := 3; c_pid := Some 2%Z; c_y := Some 7%Z; c_kind := 0 |};
             {| c_id := 4; c_pid := None; c_y := Some 8%Z; c_kind := 0 |} ]; pn := [] |}.
Example c41_ex_self_referential :
  core_exec ex_nodes (orm_to_core ex_nodes (QN (NAny (SCmp OEq 8)))) = [[Some 1%Z]] /\
  core_exec ex_nodes (orm_to_core ex_nodes (QN (NHas (SCmp OEq 7)))) = [[Some 2%Z]] /\
  meaning ex_nodes (QN (NNot (NAny (SCmp OEq 8)))) = [[Some 2]; [Some 3]; [Some 4]]%Z.
Proof. repeat split; vm_compute; reflexivity. Qed.

(* the single-table subclass twice: only Sub rows on both sides (5 and 6 have different parents; 9 has none) *)
Example c41_ex_siblings :
  core_exec ex_db (orm_to_core ex_db (QSibs false STrue)) = [[Some 5; Some 5]; [Some 6; Some 6]]%Z.
Proof. vm_compute; reflexivity. Qed.

Example c41_ex_slice :
  orm_count_sl ex_db (QJoinPC false TgC STrue STrue BothEnt) 2 None = 1 /\
  orm_exec_sl ex_db (QJoinPC false TgC STrue STrue BothEnt) 1 (Some 1) false = [ [IEnt 0 1; IEnt 1 5] ]%Z.
Proof. split; vm_compute; reflexivity. Qed.

(* formerly refuted (Query.union().offset(1).exists() tested union x p; repaired in /repo 2942091): exists() now
   agrees with the rows for the legacy union as for every other query (c41_count_exists_agree_sliced) *)
Example c41_ex_legacy_union_exists :
  orm_exec_sl wit_db3 wit_q3 1 None true = [] /\ orm_count_sl wit_db3 wit_q3 1 None = 0 /\
  orm_exists_sl wit_db3 wit_q3 1 None = false /\ orm_exists_sl wit_db3 wit_q3 0 None = true.
Proof. repeat split; vm_compute; reflexivity. Qed.

(* many-to-many P.tags <-> Node.holders over pn: parents 1 and 2 share tag 7, parent 3 has tag 8 only.
   tags.any(holders.any(x = 5)) : a parent sharing a tag with a parent whose x is 5 -> parents 1 and 2 *)
Definition ex_m2m : db :=
  {| ps := [ {| p_id := 1; p_x := Some 5%Z |}; {| p_id := 2; p_x := Some 0%Z |}; {| p_id := 3; p_x := Some 0%Z |} ];
     cs := [ {| c_id := 1; c_pid := Some 1%Z; c_y := Some 9%Z; c_kind := 0 |};
             {| c_id := 2; c_pid := Some 1%Z; c_y := Some 0%Z; c_kind := 0 |};
             {| c_id := 3; c_pid := None; c_y := Some 9%Z; c_kind := 0 |} ];
     ns := [ {| c_id := 7; c_pid := None; c_y := Some 1%Z; c_kind := 0 |};
             {| c_id := 8; c_pid := None; c_y := Some 2%Z; c_kind := 0 |} ];
     pn := [ (1, 7); (2, 7); (3, 8) ]%Z |}.
Example c41_ex_nested_m2m :
  core_exec ex_m2m (orm_to_core ex_m2m (QP (PTagNested (SCmp OEq 5)))) = [[Some 1]; [Some 2]]%Z /\
  meaning ex_m2m (QP (PTagAny (SCmp OEq 2))) = [[Some 3%Z]].
Proof. split; vm_compute; reflexivity. Qed.

(* != None on the many-to-one: children 1 and 2; union over C, then has(any(y = 9)) added after the union:
   child 2 (y = 0) qualifies because its sibling 1 has y = 9 *)
Example c41_ex_none_and_union :
  meaning ex_m2m (QC (CNot CNoParent)) = [[Some 1]; [Some 2]]%Z /\
  core_exec ex_m2m (orm_to_core ex_m2m (QUnionC (SCmp OEq 0) (SCmp OEq 9) (CHasAny (SCmp OEq 9)))) = [[Some 1]; [Some 2]]%Z.
Proof. split; vm_compute; reflexivity. Qed.
