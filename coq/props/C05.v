(* C05 - literal rendering (literal_binds / literal_execute) is equivalent to binding and cannot
   change the shape of the statement.  Statements only; every proof is [exact <lemma>]. *)
From Coq Require Import List NArith ZArith Bool.
Import ListNotations.
From SAV.sql Require Import Literal LiteralStrProofs LiteralNumProofs LiteralListProofs LiteralPyfmtProofs LiteralPostcompileProofs.
Open Scope N_scope.

(* ------------------------------------------------------------------ strings *)

(* For EVERY code point sequence s, every dialect, every setting of the two flags and every string
   type: what render_literal_value puts into the statement is, for the server (and after the
   format/pyformat driver's %% collapse), exactly ONE string-literal token, it denotes exactly s,
   and the remainder of the statement is what it was. *)
Theorem c05_string_literal_roundtrip : forall d fl t s rest lit,
  render_value d fl (VStr t s) = Ok lit ->
  no_quote_prefix rest ->
  lex_str (server d fl) (driver fl (lit ++ rest)) = Some (s, driver fl rest).
Proof. exact string_value_roundtrip. Qed.
Print Assumptions c05_string_literal_roundtrip.

(* the same at the level of the processor + dialect override, N prefix explicit *)
Theorem c05_string_literal_roundtrip_processor : forall d fl n s rest,
  (n = true -> d = MSSQL) ->
  no_quote_prefix rest ->
  lex_str (server d fl) (driver fl (render_string d fl n s ++ rest)) = Some (s, driver fl rest).
Proof. exact string_literal_roundtrip. Qed.
Print Assumptions c05_string_literal_roundtrip_processor.

(* the ordered .replace() calls amount to one character-wise encoding between the quotes *)
Theorem c05_replace_chain_is_charwise : forall d fl n s,
  render_string d fl n s = string_prefix n ++ 39 :: enc (f_dp fl) (bs_active d fl) s ++ [39].
Proof. exact render_string_charwise. Qed.
Print Assumptions c05_replace_chain_is_charwise.

(* why the flags must describe the server / driver: with the backslash flag off against a server
   that honours backslash escapes the value  \' OR 1=1 --  ends the literal after one character;
   with percent doubling against a driver that does not collapse, % becomes %% *)
Theorem c05_backslash_flag_mismatch_injects :
  lex_str (mkLex EscMySQL false) (render_string MySQL (mkFlags false false) false inj_value)
  = Some ([39], [32; 79; 82; 32; 49; 61; 49; 32; 45; 45; 32; 39]).
Proof. exact backslash_flag_mismatch. Qed.
Print Assumptions c05_backslash_flag_mismatch_injects.

Theorem c05_percent_flag_mismatch_changes_value :
  lex_str (mkLex EscNone false) (render_string SQLite (mkFlags true false) false [37]) = Some ([37; 37], []).
Proof. exact percent_flag_mismatch. Qed.
Print Assumptions c05_percent_flag_mismatch_changes_value.

(* ------------------------------------------------------------------ IN lists *)

(* the rendered IN list is the list of tokens denoting exactly the values, up to the closing paren *)
Theorem c05_in_list_tokens : forall d fl n xs rest,
  (n = true -> d = MSSQL) -> xs <> [] ->
  lex_list (length xs) (server d fl)
           (driver fl (render_in_list (map (render_string d fl n) xs) ++ 41 :: rest))
  = LOk xs (driver fl (41 :: rest)).
Proof. exact in_list_tokens. Qed.
Print Assumptions c05_in_list_tokens.

(* IN list of a type with a bind_expression, literal_execute (fix 550a51d): every rendered literal is
   wrapped as a whole, whatever it contains - same text as literal_binds *)
Theorem c05_process_expanding_literal : forall l r lits,
  process_expanding_be l r lits = render_in_list_be l r lits.
Proof. exact process_expanding_literal. Qed.
Print Assumptions c05_process_expanding_literal.

(* the remaining text split (bound expanding parameters) is harmless: placeholders contain no ", " *)
Theorem c05_process_expanding_bound_ok : forall l r phs,
  phs <> [] -> forallb no_sep phs = true ->
  process_expanding_bound l r phs = render_in_list_be l r phs.
Proof. exact process_expanding_bound_ok. Qed.
Print Assumptions c05_process_expanding_bound_ok.

(* ------------------------------------------------------------------ post-compile substitution *)

(* _process_parameters_for_postcompile substitutes every __[POSTCOMPILE_<name>] in ONE pass over the
   original text: for a template of admissible text chunks and parameter tokens the result is the
   template with each token replaced by its value VERBATIM - the values (rendered literals) are never
   scanned, so token-like text inside a value cannot be expanded *)
Theorem c05_postcompile_single_pass : forall f ps,
  forallb piece_ok ps = true -> pcsub f 0 (tmpl_text ps) = tmpl_fill f ps.
Proof. exact postcompile_single_pass. Qed.
Print Assumptions c05_postcompile_single_pass.

(* ------------------------------------------------------------------ the compiler's %(name)s passes *)

(* qmark / format paramstyles (the default SQLite dialect): _process_positional rewrites every
   %(name)s of the finished text into the placeholder - with literal_binds the literals are part of
   that text: the value  %(x)s  is rendered  '?' *)
Theorem c05_positional_pass_refuted : exists s,
  lex_str (server SQLite (default_flags SQLite))
          (pysub [63] 0 (render_string SQLite (default_flags SQLite) false s)) = Some ([63], []) /\
  s <> [63].
Proof. exact positional_pass_refuted. Qed.
Print Assumptions c05_positional_pass_refuted.

Theorem c05_positional_pass_guarded : forall d fl n s ph,
  nopl s = true -> pysub ph 0 (render_string d fl n s) = render_string d fl n s.
Proof. exact positional_pass_guarded. Qed.
Print Assumptions c05_positional_pass_guarded.

(* the complete pipeline for a value without "%(": processor, dialect override, compiler pass, driver,
   server lexer *)
Theorem c05_string_literal_roundtrip_after_positional_pass_guarded : forall d fl n s ph rest,
  (n = true -> d = MSSQL) -> no_quote_prefix rest -> nopl s = true ->
  lex_str (server d fl) (driver fl (pysub ph 0 (render_string d fl n s) ++ rest)) = Some (s, driver fl rest).
Proof. exact string_literal_roundtrip_after_pass. Qed.
Print Assumptions c05_string_literal_roundtrip_after_positional_pass_guarded.

(* paramstyle numeric / numeric_dollar (asyncpg): the  %(name)s -> positional marker  pass; a value
   containing  %(x_1)s  keeps that pattern inside its literal (KeyError, or the marker of parameter
   x_1 lands in the string) *)
Theorem c05_numeric_paramstyle_refuted : exists s,
  find_pyformat (render_string PG (mkFlags (dp_of_paramstyle NumericDollar) false) false s)
  = Some [120; 95; 49].
Proof. exact pyformat_refuted. Qed.
Print Assumptions c05_numeric_paramstyle_refuted.

Theorem c05_numeric_paramstyle_guarded : forall d fl n s,
  nopl s = true -> find_pyformat (render_string d fl n s) = None.
Proof. exact pyformat_guarded. Qed.
Print Assumptions c05_numeric_paramstyle_guarded.

(* ------------------------------------------------------------------ integers *)

Theorem c05_int_literal_token : forall z rest, num_follow_ok rest = true ->
  lex_signed (render_int z ++ rest) = Some (render_int z, rest).
Proof. exact int_literal_token. Qed.
Print Assumptions c05_int_literal_token.

Theorem c05_int_literal_value : forall z, parse_int (render_int z) = Some z.
Proof. exact int_literal_value. Qed.
Print Assumptions c05_int_literal_value.

Theorem c05_int_render : forall d fl z, render_value d fl (VInt z) = Ok (render_int z).
Proof. exact int_render. Qed.
Print Assumptions c05_int_render.

(* unary minus over a literal (fix 83f298d): for EVERY operand text the rendered "-" is the minus
   operator - a blank is put in front of an operand that starts with "-" or is substituted later *)
Theorem c05_unary_minus_operand_is_operator : forall le lit rest, lit <> [] ->
  lex_minus (render_neg le lit ++ rest) = OpMinus (tl (render_neg le lit) ++ rest).
Proof. exact neg_operand_is_operator. Qed.
Print Assumptions c05_unary_minus_operand_is_operator.

(* why the blank is needed: "-" directly followed by a negative literal is a comment that swallows
   the literal and the rest of the line *)
Theorem c05_minus_directly_before_negative_is_comment : forall p rest,
  lex_minus (45 :: render_int (Zneg p) ++ rest) = Comment (render_int (Zpos p) ++ rest).
Proof. exact minus_then_negative. Qed.
Print Assumptions c05_minus_directly_before_negative_is_comment.

(* ------------------------------------------------------------------ Numeric / Float *)

(* Decimal() accepts, and the processor renders verbatim, texts that are no numeric literal:
   NaN, Infinity, 1_0, non-ASCII digits, Decimal('NaN') *)
Theorem c05_numeric_literal_refuted :
  (numeric_process KStr s_NaN = Ok s_NaN /\ lex_signed (s_NaN ++ [32]) = None /\ is_identifier s_NaN = true) /\
  (numeric_process KStr s_Infinity = Ok s_Infinity /\ lex_signed (s_Infinity ++ [32]) = None
     /\ is_identifier s_Infinity = true) /\
  (numeric_process KStr s_1_0 = Ok s_1_0 /\ lex_signed (s_1_0 ++ [32]) = None) /\
  (numeric_process KStr s_arabic_12 = Ok s_arabic_12 /\ lex_signed (s_arabic_12 ++ [32]) = None
     /\ is_identifier s_arabic_12 = true) /\
  (numeric_process KDecimal s_NaN = Ok s_NaN).
Proof. exact numeric_literal_refuted. Qed.
Print Assumptions c05_numeric_literal_refuted.

(* str(float("inf")) / str(float("nan")) are bare words *)
Theorem c05_float_literal_refuted :
  (numeric_process KFloat s_inf = Ok s_inf /\ lex_signed (s_inf ++ [32]) = None /\ is_identifier s_inf = true) /\
  (numeric_process KFloat s_nan = Ok s_nan /\ lex_signed (s_nan ++ [32]) = None /\ is_identifier s_nan = true).
Proof. exact float_literal_refuted. Qed.
Print Assumptions c05_float_literal_refuted.

(* whenever the text of the value is one (signed) numeric literal, the rendering is that token *)
Theorem c05_numeric_literal_guarded : forall k text out rest,
  numeric_process k text = Ok out -> sql_numeric text = true -> num_follow_ok rest = true ->
  lex_signed (out ++ rest) = Some (text, rest).
Proof. exact numeric_literal_guarded. Qed.
Print Assumptions c05_numeric_literal_guarded.

(* ------------------------------------------------------------------ dates, times, booleans, NULL *)

Theorem c05_temporal_render : forall d fl v,
  render_value d fl (VTemporal v) =
  Ok (fst (temporal_wrap d v) ++ [39] ++ temporal_text d v ++ [39] ++ snd (temporal_wrap d v)).
Proof. exact temporal_render. Qed.
Print Assumptions c05_temporal_render.

Theorem c05_temporal_literal_token : forall d fl v rest, no_quote_prefix rest ->
  lex_str (server d fl) (driver fl (([39] ++ temporal_text d v ++ [39]) ++ rest))
  = Some (temporal_text d v, driver fl rest).
Proof. exact temporal_literal_token. Qed.
Print Assumptions c05_temporal_literal_token.

Theorem c05_bool_null_render : forall d fl b,
  render_value d fl VNone = Ok null_text /\
  render_value d fl (VBool b) = Ok (bool_text d b) /\
  In (bool_text d b) [[49]; [48]; s_true; s_false].
Proof. exact bool_null_render. Qed.
Print Assumptions c05_bool_null_render.

(* ------------------------------------------------------------------ non-vacuity *)

(* a'b\c%d  on MySQL (format paramstyle, backslash escapes):  'a''b\\c%%d' *)
Example c05_ex_mysql :
  render_value MySQL (default_flags MySQL) (VStr TString [97; 39; 98; 92; 99; 37; 100])
  = Ok [39; 97; 39; 39; 98; 92; 92; 99; 37; 37; 100; 39] /\
  no_quote_prefix [32; 65; 78; 68].
Proof. split; [vm_compute; reflexivity|cbn; discriminate]. Qed.
(* a non-ASCII string without an explicit type on SQL Server: N'...' *)
Example c05_ex_mssql :
  render_value MSSQL (default_flags MSSQL) (VStr TAuto [233; 39]) = Ok [78; 39; 233; 39; 39; 39].
Proof. vm_compute. reflexivity. Qed.
Example c05_ex_in_list :
  render_in_list (map (render_string SQLite (default_flags SQLite) false) [[97; 44; 32; 98]; [39]])
  = [39; 97; 44; 32; 98; 39; 44; 32; 39; 39; 39; 39].
Proof. vm_compute. reflexivity. Qed.
(* formerly refuted: the value 'A, B' under lower(...) *)
Example c05_ex_process_expanding :
  process_expanding_be s_lower_open [41] [lit_A_B] = s_lower_open ++ lit_A_B ++ [41] /\
  forallb no_sep [[63]; [63]] = true /\
  process_expanding_bound s_lower_open [41] [[63]; [63]]
  = s_lower_open ++ [63; 41; 44; 32] ++ s_lower_open ++ [63; 41].
Proof. vm_compute. repeat split; reflexivity. Qed.
(* formerly refuted: -literal(-5) renders "- -5"; -literal(5) renders "-5" *)
Example c05_ex_negated_negative :
  render_neg false (render_int (-5)) = [45; 32; 45; 53] /\ render_neg false (render_int 5) = [45; 53] /\
  render_neg true (render_int 5) = [45; 32; 53].
Proof. vm_compute. repeat split; reflexivity. Qed.
(* WHERE a = __[POSTCOMPILE_zq] AND b IN (__[POSTCOMPILE_x]) : an admissible template; the value of zq
   spells the token of x and stays as it is *)
Example c05_ex_postcompile :
  let ps := [Txt [97; 32; 61; 32]; Hole [122; 113]; Txt [32; 73; 78; 32; 40]; Hole [120]; Txt [41]] in
  let f := fun n => if str_eqb n [122; 113] then Some (39 :: tok [120] ++ [39])
                    else if str_eqb n [120] then Some [39; 118; 39] else None in
  forallb piece_ok ps = true /\
  tmpl_fill f ps = POk ([97; 32; 61; 32] ++ (39 :: tok [120] ++ [39]) ++ [32; 73; 78; 32; 40] ++ [39; 118; 39] ++ [41]).
Proof. vm_compute. split; reflexivity. Qed.
Example c05_ex_nopl : nopl [37; 32; 40; 97; 41; 115; 37] = true.
Proof. vm_compute. reflexivity. Qed.
Example c05_ex_numeric :
  numeric_process KStr [45; 49; 46; 53; 48; 101; 43; 51] = Ok [45; 49; 46; 53; 48; 101; 43; 51] /\
  sql_numeric [45; 49; 46; 53; 48; 101; 43; 51] = true /\ num_follow_ok [32] = true /\
  numeric_process KStr [49; 59; 68] = CompileError.
Proof. vm_compute. repeat split; reflexivity. Qed.
Example c05_ex_int : render_int (-120)%Z = [45; 49; 50; 48] /\ num_follow_ok [41] = true.
Proof. vm_compute. split; reflexivity. Qed.
Example c05_ex_temporal :
  render_value Oracle (default_flags Oracle)
    (VTemporal (VDateTime (mkDate 2020 1 2) (mkTime 3 4 5 6)))
  = Ok (s_TO_TIMESTAMP ++ [39; 50; 48; 50; 48; 45; 48; 49; 45; 48; 50; 32; 48; 51; 58; 48; 52; 58; 48; 53;
                           46; 48; 48; 48; 48; 48; 54; 39] ++ s_fmt_ts) /\
  temporal_text SQLite (VTime (mkTime 3 4 5 0)) = [48; 51; 58; 48; 52; 58; 48; 53; 46; 48; 48; 48; 48; 48; 48].
Proof. vm_compute. split; reflexivity. Qed.
