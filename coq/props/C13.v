(* C13 - column defaults and onupdate fire exactly when the value is omitted.
   Statements only; every proof is [exact <lemma>] or a computation on a concrete witness.
   The Python callables ([cval f n]: n-th call of callable f; [ctxval f params n]: context-sensitive callable
   seeing get_current_parameters() = params), the SQL-expression and server default values are universally
   quantified.  [core_exec cols psets olds cs]: the rows handed to the database and the call counters after
   Connection.execute(stmt, psets); [olds] = None per set for INSERT (absent column: server default or
   NULL), the matched row for UPDATE (absent column: unchanged, onupdate kinds instead of default kinds). *)
From Coq Require Import List ZArith Bool.
Import ListNotations.
From SAV.sql Require Import Defaults DefaultsProofs DefaultsManyProofs DefaultsMultiProofs DefaultsWitness.
Open Scope Z_scope.

(* default_iff_omitted, single execution: a supplied key (None included) is stored as given, an omitted
   column gets the default of its kind (callables: their next call; the context callable sees the row's own
   supplied parameters) *)
Theorem c13_default_iff_omitted_single : forall cval ctxval sqlval srvval cols p old cs,
  distinct_keys cols = true -> distinct_fns cols = true ->
  exists row cs',
    core_exec cval ctxval sqlval srvval cols [p] [old] cs = Ok ([row], cs') /\
    forall c, In c cols ->
      (forall v, get (ckey c) p = Some v -> get (ckey c) row = Some v) /\
      (get (ckey c) p = None ->
         exists pr v, get (ckey c) row = Some v /\
                      default_ok cval ctxval sqlval srvval old c p pr (fn_count c cs) v /\
                      (forall c' v', In c' cols -> get (ckey c') p = Some v' -> get (ckey c') pr = Some v')).
Proof. exact single_spec. Qed.
Print Assumptions c13_default_iff_omitted_single.

(* ... and executemany of any length under the documented precondition "every parameter set has the key set
   of the first": row i is stored as given / gets the i-th next call of its callables *)
Theorem c13_default_iff_omitted_executemany_guarded : forall cval ctxval sqlval srvval cols p0 rest olds cs,
  distinct_keys cols = true -> distinct_fns cols = true ->
  (forall p, In p (p0 :: rest) -> keys_agree cols p0 p) ->
  length olds = length (p0 :: rest) ->
  exists rows cs',
    core_exec cval ctxval sqlval srvval cols (p0 :: rest) olds cs = Ok (rows, cs') /\
    length rows = length (p0 :: rest) /\
    (forall f, count f cs' = (count f cs + length (p0 :: rest) * nuses p0 cols f)%nat) /\
    (forall i p old, nth_error (p0 :: rest) i = Some p -> nth_error olds i = Some old ->
       exists row, nth_error rows i = Some row /\
         forall c, In c cols ->
           (forall v, get (ckey c) p = Some v -> get (ckey c) row = Some v) /\
           (get (ckey c) p = None ->
              exists pr v, get (ckey c) row = Some v /\
                           default_ok cval ctxval sqlval srvval old c p pr (fn_count c cs + i) v /\
                           (forall c' v', In c' cols -> get (ckey c') p = Some v' -> get (ckey c') pr = Some v'))).
Proof. exact executemany_spec. Qed.
Print Assumptions c13_default_iff_omitted_executemany_guarded.

(* supplied_none_not_overridden (Core) *)
Theorem c13_supplied_none_not_overridden_core : forall cval ctxval sqlval srvval cols p0 rest olds cs i p old c,
  distinct_keys cols = true -> distinct_fns cols = true ->
  (forall q, In q (p0 :: rest) -> keys_agree cols p0 q) ->
  length olds = length (p0 :: rest) ->
  nth_error (p0 :: rest) i = Some p -> nth_error olds i = Some old -> In c cols ->
  get (ckey c) p = Some None ->
  exists rows cs' row, core_exec cval ctxval sqlval srvval cols (p0 :: rest) olds cs = Ok (rows, cs') /\
                       nth_error rows i = Some row /\ get (ckey c) row = Some None.
Proof. exact supplied_none_kept. Qed.
Print Assumptions c13_supplied_none_not_overridden_core.

(* callable_called_once_per_omitting_row *)
Theorem c13_callable_called_once_per_omitting_row : forall cval ctxval sqlval srvval cols p0 rest olds cs c f,
  distinct_keys cols = true -> distinct_fns cols = true ->
  (forall p, In p (p0 :: rest) -> keys_agree cols p0 p) ->
  length olds = length (p0 :: rest) -> In c cols -> fn_of c = Some f ->
  exists rows cs', core_exec cval ctxval sqlval srvval cols (p0 :: rest) olds cs = Ok (rows, cs') /\
    count f cs' = (count f cs + if has (ckey c) p0 then 0 else length (p0 :: rest))%nat.
Proof. exact calls_once_per_row. Qed.
Print Assumptions c13_callable_called_once_per_omitting_row.

(* a later parameter set lacking a key of the first: "A value is required for bind parameter", raised while
   the parameters are constructed, i.e. before any default fires and before anything is stored *)
Theorem c13_missing_key_raises : forall cval ctxval sqlval srvval cols p0 p olds cs,
  (exists c, In c cols /\ has (ckey c) p0 = true /\ has (ckey c) p = false) ->
  exists k, core_exec cval ctxval sqlval srvval cols [p0; p] olds cs = Err (ERequired 1 k) /\
            has k p0 = true /\ has k p = false.
Proof. exact missing_key_error. Qed.
Print Assumptions c13_missing_key_raises.

(* heterogeneous executemany: [{"id":4}, {"id":5,"a":2,"b":5}] - the values supplied by the second set
   are replaced by the defaults (and its callable is called) *)
Theorem c13_heterogeneous_executemany_refuted : exists cols p0 p c v rows cs',
  distinct_keys cols = true /\ distinct_fns cols = true /\ In c cols /\ get (ckey c) p = Some v /\
  core_exec w_cval w_ctxval w_sqlval w_srvval cols [p0; p] [None; None] [] = Ok (rows, cs') /\
  match nth_error rows 1 with Some row => get (ckey c) row <> Some v | None => False end /\
  count 2 cs' = 2%nat.
Proof. exists w_cols, w_p4, w_p5, {| ckey := 1; cdef := Scalar 101 |}, (Some 2).
  eexists. eexists. vm_compute. repeat split; auto. discriminate. Qed.
Print Assumptions c13_heterogeneous_executemany_refuted.

(* returned_defaults_eq_stored: what return_defaults() hands back are values of the row just written *)
Theorem c13_returned_defaults_eq_stored : forall p0 cols row kv,
  In kv (returned_defaults p0 cols row) -> In kv row.
Proof. intros p0 cols row kv H. exact (proj1 (proj1 (filter_In _ _ _) H)). Qed.
Print Assumptions c13_returned_defaults_eq_stored.

(* ---- ORM ---- *)
(* what the unit of work sends for an INSERT: non-None attributes; None only for columns without any
   default; so an explicit None on a column with a default is NOT sent *)
Theorem c13_orm_insert_params : forall cols attrs c, distinct_keys cols = true -> In c cols ->
  get (ckey c) (orm_insert_params cols attrs) =
    match get (ckey c) attrs with
    | Some (Some z) => Some (Some z)
    | _ => if no_default c && negb (Nat.eqb (ckey c) O) then Some None else None
    end.
Proof. exact orm_insert_params_get. Qed.
Print Assumptions c13_orm_insert_params.
Theorem c13_orm_insert_none_refuted : exists cols attrs c row cs',
  distinct_keys cols = true /\ distinct_fns cols = true /\ In c cols /\ get (ckey c) attrs = Some None /\
  core_exec w_cval w_ctxval w_sqlval w_srvval cols [orm_insert_params cols attrs] [None] [] = Ok ([row], cs') /\
  get (ckey c) row <> Some None.
Proof. exists w_cols, w_attrs, {| ckey := 1; cdef := Scalar 101 |}. eexists. eexists. vm_compute.
  repeat split; auto. discriminate. Qed.
Print Assumptions c13_orm_insert_none_refuted.
(* what it sends for an UPDATE: exactly the changed attributes, None included *)
Theorem c13_orm_update_params : forall cols old attrs c, distinct_keys cols = true -> In c cols -> ckey c <> O ->
  get (ckey c) (orm_update_params cols old attrs) =
    match get (ckey c) attrs with
    | Some v => if val_eqb v (match get (ckey c) old with Some o => o | None => None end) then None else Some v
    | None => None
    end.
Proof. exact orm_update_params_get. Qed.
Print Assumptions c13_orm_update_params.
(* the bulk UPDATE by primary key (session.execute(update(Entity), [mappings]), bulk_update_mappings) sends
   every key of the mapping as given - an explicit None included - so by the executemany theorem an explicit
   None is stored as NULL and onupdate fires only for the columns a mapping omits *)
Theorem c13_orm_bulk_update_params : forall cols m c, distinct_keys cols = true -> In c cols ->
  get (ckey c) (orm_bulk_update_params cols m) = get (ckey c) m.
Proof. exact orm_bulk_update_params_get. Qed.
Print Assumptions c13_orm_bulk_update_params.
(* records are executed in groups of equal key sets: every statement the unit of work emits satisfies the
   precondition of c13_default_iff_omitted_executemany_guarded *)
Theorem c13_orm_groups_homogeneous : forall cols p0 ps g t, take_group cols p0 ps = (g, t) ->
  (forall x, In x g -> keys_agree cols p0 (fst x)) /\ ps = g ++ t.
Proof. intros cols p0 ps g t H. destruct (take_group_same cols p0 ps g t H) as [A B].
  split; [intros x Hx; exact (same_keys_agree cols p0 (fst x) (A x Hx))|exact B]. Qed.
Print Assumptions c13_orm_groups_homogeneous.

(* ---- insert(t).values([row0; row1; ...]) : crud._extend_values_for_multiparams ---- *)
(* the per-row presence rule, for EVERY row and column: a column of the VALUES list that the row has is stored
   as the row gives it (an explicit None included, also in rows after the first); omitted, its default fires
   again (callables: their next call); a column outside the list row 0 decided is not in the statement *)
Theorem c13_multi_values_rule : forall cval ctxval sqlval srvval cols p0 rest cs i row c,
  distinct_keys cols = true -> distinct_fns cols = true ->
  nth_error (p0 :: rest) i = Some row -> In c cols ->
  exists srow, nth_error (fst (multi_rows cval ctxval sqlval srvval p0 cols (p0 :: rest) cs)) i = Some srow /\
    (in_values0 p0 c = true -> forall v, get (ckey c) row = Some v -> get (ckey c) srow = Some v) /\
    (get (ckey c) row = None ->
       match cdef c with
       | Scalar z => get (ckey c) srow = Some (Some z)
       | SqlExpr e => get (ckey c) srow = Some (Some (sqlval e))
       | Callable f => get (ckey c) srow = Some (Some (cval f (count f cs + omitting c (firstn i (p0 :: rest)))%nat))
       | _ => True
       end) /\
    (in_values0 p0 c = false -> get (ckey c) srow = Some (absent_val srvval c)).
Proof. exact multi_values_rule. Qed.
Print Assumptions c13_multi_values_rule.
(* callables fire once per row that omits the column, not more *)
Theorem c13_multi_values_calls : forall cval ctxval sqlval srvval cols p0 rest cs c f,
  distinct_fns cols = true -> In c cols -> cdef c = Callable f ->
  count f (snd (multi_rows cval ctxval sqlval srvval p0 cols (p0 :: rest) cs))
  = (count f cs + omitting c (p0 :: rest))%nat.
Proof. exact multi_values_calls. Qed.
Print Assumptions c13_multi_values_calls.
(* the CompileError: exactly for a row lacking a listed column without Python / SQL default *)
Theorem c13_multi_values_compile_error : forall p0 i cols row,
  multi_check_row p0 i cols row = None <->
  forall c, In c cols -> in_values0 p0 c = true -> has (ckey c) row = false ->
    match cdef c with NoDefault | ServerSide _ => False | _ => True end.
Proof. exact multi_check_row_spec. Qed.
Print Assumptions c13_multi_values_compile_error.
(* row 0 decides the column list: a later row's value for a server-default / no-default column is dropped *)
Theorem c13_multi_values_first_row_refuted : exists cols p0 row c v rows cs',
  distinct_keys cols = true /\ distinct_fns cols = true /\ In c cols /\ get (ckey c) row = Some v /\
  multi_exec w_cval w_ctxval w_sqlval w_srvval cols [p0; row] [] = inl (rows, cs') /\
  match nth_error rows 1 with Some srow => get (ckey c) srow <> Some v | None => False end.
Proof. exists w_noctx, w_m0, w_m1, {| ckey := 5; cdef := ServerSide 5 |}, (Some 7).
  eexists. eexists. vm_compute. repeat split; auto 10. discriminate. Qed.
Print Assumptions c13_multi_values_first_row_refuted.

(* ---- Update.ordered_values(): the columns named first, then EVERY other column of the table ---- *)
Theorem c13_ordered_cols_complete : forall order cols c, In c (ordered_cols order cols) <-> In c cols.
Proof. exact ordered_cols_In. Qed.
Print Assumptions c13_ordered_cols_complete.
(* ... so onupdate fires for every column outside the list *)
Theorem c13_ordered_values_rule : forall cval ctxval sqlval srvval order cols p old cs,
  distinct_keys (ordered_cols order cols) = true -> distinct_fns (ordered_cols order cols) = true ->
  exists row cs',
    core_exec cval ctxval sqlval srvval (ordered_cols order cols) [p] [old] cs = Ok ([row], cs') /\
    forall c, In c cols ->
      (forall v, get (ckey c) p = Some v -> get (ckey c) row = Some v) /\
      (get (ckey c) p = None ->
         exists pr v, get (ckey c) row = Some v /\
                      default_ok cval ctxval sqlval srvval old c p pr (fn_count c cs) v /\
                      (forall c' v', In c' cols -> get (ckey c') p = Some v' -> get (ckey c') pr = Some v')).
Proof. exact ordered_values_rule. Qed.
Print Assumptions c13_ordered_values_rule.

(* ---- a pre-executed primary key default (implicit_returning=False): "if val is not None" - every fetched
   value, 0 included, becomes the key ---- *)
Theorem c13_preexecuted_pk_default_kept : forall cval ctxval sqlval srvval cols p old cs z c,
  distinct_keys cols = true -> distinct_fns cols = true -> In c cols -> ckey c = O ->
  exists row cs',
    core_exec cval ctxval sqlval srvval cols [(O, preexec_param None (Some z)) :: p] [old] cs = Ok ([row], cs') /\
    get O row = Some (Some z).
Proof. exact preexec_pk_kept. Qed.
Print Assumptions c13_preexecuted_pk_default_kept.

(* ---- non-vacuity ---- *)
Example c13_ex_multi_values :
  multi_exec w_cval w_ctxval w_sqlval w_srvval w_noctx [w_m0; w_m1; w_m2] []
  = inl ([ [(0%nat, Some 5); (1%nat, Some 101); (2%nat, Some 3000); (4%nat, Some 3004); (5%nat, Some 4005); (6%nat, None)];
           [(0%nat, Some 6); (1%nat, None); (2%nat, Some 3001); (4%nat, Some 3004); (5%nat, Some 4005); (6%nat, None)];
           [(0%nat, Some 7); (1%nat, Some 101); (2%nat, Some 3002); (4%nat, Some 3004); (5%nat, Some 4005); (6%nat, None)] ],
         [(2%nat, 3%nat)]).
Proof. vm_compute. reflexivity. Qed.
Example c13_ex_multi_values_error :
  multi_exec w_cval w_ctxval w_sqlval w_srvval w_noctx [w_m1; w_m0] [] = inr (EMultiDefault 1 5).
Proof. vm_compute. reflexivity. Qed.
Example c13_ex_ordered :
  distinct_keys (ordered_cols w_order w_cols) = true /\ distinct_fns (ordered_cols w_order w_cols) = true /\
  map ckey (ordered_cols w_order w_cols) = [6; 1; 0; 2; 3; 4; 5]%nat /\
  w_exec (ordered_cols w_order w_cols) [w_ord_p] [Some w_old] []
  = Ok ([ [(6%nat, Some 9); (1%nat, None); (0%nat, Some 1); (2%nat, Some 3000); (3%nat, Some 200001);
           (4%nat, Some 3004); (5%nat, Some 50)] ], [(2%nat, 1%nat); (3%nat, 1%nat)]).
Proof. vm_compute. repeat split; reflexivity. Qed.
Example c13_ex_preexec_zero :
  w_exec w_cols [(0%nat, preexec_param None (Some 0)) :: [(1%nat, Some 8)]] [None] []
  = Ok ([ [(0%nat, Some 0); (1%nat, Some 8); (2%nat, Some 3000); (3%nat, Some 200000); (4%nat, Some 3004);
           (5%nat, Some 4005); (6%nat, None)] ], [(2%nat, 1%nat); (3%nat, 1%nat)]).
Proof. vm_compute. reflexivity. Qed.

Example c13_ex_wf : distinct_keys w_cols = true /\ distinct_fns w_cols = true.
Proof. vm_compute. auto. Qed.
(* two homogeneous rows: a supplied (9, then None - kept), everything else by default *)
Example c13_ex_homogeneous :
  w_exec w_cols [w_h1; w_h2] [None; None] []
  = Ok ([ [(0%nat, Some 7); (1%nat, Some 9); (2%nat, Some 3000); (3%nat, Some 200007); (4%nat, Some 3004);
           (5%nat, Some 4005); (6%nat, None)];
          [(0%nat, Some 8); (1%nat, None); (2%nat, Some 3001); (3%nat, Some 200009); (4%nat, Some 3004);
           (5%nat, Some 4005); (6%nat, None)] ],
        [(2%nat, 2%nat); (3%nat, 2%nat)]).
Proof. vm_compute. reflexivity. Qed.
Example c13_ex_heterogeneous :
  w_exec w_cols [w_p4; w_p5] [None; None] []
  = Ok ([ [(0%nat, Some 4); (1%nat, Some 101); (2%nat, Some 3000); (3%nat, Some 200004); (4%nat, Some 3004);
           (5%nat, Some 4005); (6%nat, None)];
          [(0%nat, Some 5); (1%nat, Some 101); (2%nat, Some 3001); (3%nat, Some 200006); (4%nat, Some 3004);
           (5%nat, Some 4005); (6%nat, None)] ],
        [(2%nat, 2%nat); (3%nat, 2%nat)]).
Proof. vm_compute. reflexivity. Qed.
Example c13_ex_missing : w_exec w_cols [w_p5; w_p4] [None; None] [] = Err (ERequired 1 1).
Proof. vm_compute. reflexivity. Qed.
Example c13_ex_orm_params : orm_insert_params w_cols w_attrs = [(0%nat, Some 5); (6%nat, None)].
Proof. vm_compute. reflexivity. Qed.
