(* C09 - column types round-trip values; bind/result processing applied exactly once.
   Statements only; every proof is [exact <lemma>]. *)
From Coq Require Import List NArith ZArith Bool.
Import ListNotations.
From SAV.sql Require Import Types TypesStrProofs TypesDateProofs TypesProofs TypesOrdProofs.

(* ---------- SQLite DATETIME / DATE / TIME: storage format + result processor ---------- *)
(* every valid datetime (years 1..9999, leap days, all 10^6 microsecond values) survives bind -> wire ->
   result with the default result processor (fromisoformat) ... *)
Theorem c09_datetime_roundtrip : forall d t, valid_date d = true -> valid_time t = true ->
  iso_datetime (fmt_datetime false d t) = POk (d, t).
Proof. exact iso_datetime_roundtrip. Qed.
Print Assumptions c09_datetime_roundtrip.

(* ... and with a custom regexp (str_to_datetime_processor_factory) *)
Theorem c09_datetime_roundtrip_regexp : forall d t, valid_date d = true -> valid_time t = true ->
  regexp_datetime (Some (fmt_datetime false d t)) = Ok (Some (d, t)).
Proof. exact regexp_datetime_roundtrip. Qed.
Print Assumptions c09_datetime_roundtrip_regexp.

(* truncate_microseconds=True: exactly the microseconds are dropped (the documented precision) *)
Theorem c09_datetime_roundtrip_truncate : forall d t, valid_date d = true -> valid_time t = true ->
  iso_datetime (fmt_datetime true d t) = POk (d, drop_us t) /\
  regexp_datetime (Some (fmt_datetime true d t)) = Ok (Some (d, drop_us t)).
Proof. intros d t Hd Ht. exact (conj (iso_datetime_roundtrip_trunc d t Hd Ht) (regexp_datetime_roundtrip_trunc d t Hd Ht)). Qed.
Print Assumptions c09_datetime_roundtrip_truncate.

Theorem c09_date_roundtrip : forall d, valid_date d = true ->
  iso_date (fmt_date d) = POk d /\ regexp_date (Some (fmt_date d)) = Ok (Some d).
Proof. intros d H. exact (conj (iso_date_roundtrip d H) (regexp_date_roundtrip d H)). Qed.
Print Assumptions c09_date_roundtrip.

Theorem c09_time_roundtrip : forall t, valid_time t = true ->
  iso_time (fmt_time false t) = POk t /\ regexp_time (Some (fmt_time false t)) = Ok (Some t) /\
  iso_time (fmt_time true t) = POk (drop_us t).
Proof.
  intros t H. exact (conj (iso_time_roundtrip t H) (conj (regexp_time_roundtrip t H) (iso_time_roundtrip_trunc t H))).
Qed.
Print Assumptions c09_time_roundtrip.

(* ---------- Interval stored as epoch-relative DATETIME ---------- *)
(* CPython's _ord2ymd inverts _ymd2ord on all 3652059 ordinals of the date range (shift to the first
   400-year cycle + exhaustive check of that cycle by reflection) *)
Theorem c09_ordinal_law : forall n, (1 <= n <= max_ord)%Z ->
  valid_date (ord2ymd n) = true /\ ymd2ord (ord2ymd n) = n.
Proof. exact ordinal_law_holds. Qed.
Print Assumptions c09_ordinal_law.

(* every timedelta - negative ones included - whose epoch + td is a datetime survives the round trip *)
Theorem c09_interval_roundtrip : forall td,
  (1 <= epoch_ord + td / us_per_day <= max_ord)%Z ->
  exists w, bind_interval (Some td) = Ok (Some w) /\ result_interval (Some w) = POk (Some td).
Proof. exact (interval_roundtrip ordinal_law_holds). Qed.
Print Assumptions c09_interval_roundtrip.

Theorem c09_interval_out_of_range_raises : forall td,
  ~ (1 <= epoch_ord + td / us_per_day <= max_ord)%Z -> bind_interval (Some td) = Raise OverflowError.
Proof. exact interval_out_of_range. Qed.
Print Assumptions c09_interval_out_of_range_raises.

(* ---------- Boolean, Uuid, Enum, Decimal ---------- *)
Theorem c09_boolean_roundtrip : forall b : bool,
  exists w, bind_boolean (Some (if b then BTrue else BFalse)) = Ok (Some w) /\ int_to_boolean (Some w) = Some b.
Proof. exact boolean_roundtrip. Qed.
Print Assumptions c09_boolean_roundtrip.

Theorem c09_uuid_roundtrip : forall u, (u < 2 ^ 128)%N -> result_uuid (bind_uuid (Some u)) = Ok (Some u).
Proof. exact uuid_roundtrip. Qed.
Print Assumptions c09_uuid_roundtrip.

(* non-native Enum over an enum class (values_callable included): guarded by pairwise distinct db values *)
Theorem c09_enum_roundtrip_guarded : forall t o,
  NoDup (e_values t) -> length (e_values t) = length (e_objects t) ->
  In (EObj o) (e_objects t) ->
  exists v, bind_enum t (Some (EObj o)) = Ok (Some v) /\ result_enum t (Some v) = Ok (Some (EObj o)).
Proof. exact enum_roundtrip_members. Qed.
Print Assumptions c09_enum_roundtrip_guarded.

(* a values_callable that gives two members the same db value loses one of them (no error is raised) *)
Theorem c09_enum_roundtrip_duplicate_values_refuted :
  exists t o v, In (EObj o) (e_objects t) /\ length (e_values t) = length (e_objects t) /\
    bind_enum t (Some (EObj o)) = Ok (Some v) /\ result_enum t (Some v) <> Ok (Some (EObj o)).
Proof. exact enum_roundtrip_duplicate_values_refuted. Qed.
Print Assumptions c09_enum_roundtrip_duplicate_values_refuted.

Theorem c09_enum_roundtrip_strings : forall vals vs s, NoDup vals -> In s vals ->
  let t := {| e_values := vals; e_objects := map EStr vals; e_validate_strings := vs |} in
  bind_enum t (Some (EStr s)) = Ok (Some s) /\ result_enum t (Some s) = Ok (Some (EStr s)).
Proof. exact enum_roundtrip_strings. Qed.
Print Assumptions c09_enum_roundtrip_strings.

(* a Decimal with at most [scale] places comes back numerically equal, written with exactly [scale] places *)
Theorem c09_decimal_roundtrip_scale : forall s v, (d_e v <= s)%N ->
  dec_eqb (to_decimal s v) v = true /\ d_e (to_decimal s v) = s.
Proof. intros s v H. exact (conj (decimal_roundtrip_scale s v H) (to_decimal_scale s v)). Qed.
Print Assumptions c09_decimal_roundtrip_scale.

Theorem c09_numeric_processors_non_native : forall t,
  num_bind_proc false t = ToFloat /\
  num_result_proc false t = if n_asdecimal t then ToDecimal (effective_scale t) else NoProc.
Proof. exact numeric_processors_non_native. Qed.
Print Assumptions c09_numeric_processors_non_native.

(* ---------- JSON / PickleType (serializers are hypotheses) ---------- *)
Theorem c09_json_roundtrip : forall (J W : Type) (dumps : J -> W) (loads : W -> J) (jnone : J),
  (forall x, loads (dumps x) = x) -> forall nan v,
  result_json loads (bind_json dumps jnone nan v) =
  match v with
  | JDoc d => Some d | JSqlNull => None | JJsonNull => Some jnone | JPyNone => if nan then None else Some jnone
  end.
Proof. exact @json_roundtrip. Qed.
Print Assumptions c09_json_roundtrip.

Theorem c09_pickle_roundtrip : forall (J W : Type) (dumps : J -> W) (loads : W -> J),
  (forall x, loads (dumps x) = x) -> forall v, result_pickle loads (bind_pickle dumps v) = v.
Proof. exact @pickle_roundtrip. Qed.
Print Assumptions c09_pickle_roundtrip.

(* ---------- TypeDecorator processing is applied exactly once ---------- *)
(* for every nesting of labels / subqueries / CTEs / unions / scalar subqueries / RETURNING / ORM load around a
   column of a decorated type (decorators nested to any depth, pairwise distinct), the result column's
   processor contains process_result_value of each decorator exactly once *)
Theorem c09_decorator_exactly_once : forall ws t id, NoDup (dec_ids t) -> In id (res_ids t) ->
  count_result id (column_processor (nest ws (CCol t))) = 1%nat.
Proof. exact decorator_exactly_once. Qed.
Print Assumptions c09_decorator_exactly_once.

Theorem c09_decorator_exactly_once_coerced : forall ws t e id, NoDup (dec_ids t) -> In id (res_ids t) ->
  count_result id (column_processor (nest ws (CCoerce t e))) = 1%nat.
Proof. exact decorator_exactly_once_coerced. Qed.
Print Assumptions c09_decorator_exactly_once_coerced.

Theorem c09_decorator_not_applied_when_absent : forall ws t id, ~ In id (dec_ids t) ->
  count_result id (column_processor (nest ws (CCol t))) = 0%nat.
Proof. exact decorator_not_applied_when_absent. Qed.
Print Assumptions c09_decorator_not_applied_when_absent.

Theorem c09_bind_param_exactly_once : forall t id, NoDup (dec_ids t) -> In id (bind_ids t) ->
  exists p, bind_proc t = Some p /\ count_bind id p = 1%nat.
Proof. exact bind_step_once. Qed.
Print Assumptions c09_bind_param_exactly_once.

(* ---------- non-vacuity ---------- *)
Example c09_ex_extremes :
  valid_date {| dy := 9999; dm := 12; dd := 31 |} = true /\ valid_time {| th := 23; tmi := 59; ts := 59; tus := 999999 |} = true /\
  fmt_datetime false {| dy := 1; dm := 1; dd := 1 |} {| th := 0; tmi := 0; ts := 0; tus := 1 |} =
    map (fun c => N.of_nat c) [48;48;48;49;45;48;49;45;48;49;32;48;48;58;48;48;58;48;48;46;48;48;48;48;48;49]%nat /\
  valid_date {| dy := 1900; dm := 2; dd := 29 |} = false /\ valid_date {| dy := 2000; dm := 2; dd := 29 |} = true.
Proof. vm_compute. repeat split. Qed.

(* samples of the ordinal law: the two years around the epoch and both ends of the range *)
Example c09_ex_ordinal_law_samples :
  forallb (fun n => valid_date (ord2ymd n) && (ymd2ord (ord2ymd n) =? n)%Z)
          ([1; 2; 365; 366; 1461; 36524; 36525; 146097; 146098; max_ord - 1; max_ord]
           ++ map (fun i => (epoch_ord - 366 + Z.of_nat i)%Z) (seq 0 732))%Z = true.
Proof. vm_compute. reflexivity. Qed.

(* a negative interval: -1 microsecond is stored as 1969-12-31 23:59:59.999999 *)
Example c09_ex_negative_interval :
  bind_interval (Some (-1)%Z) =
    Ok (Some (map (fun c => N.of_nat c) [49;57;54;57;45;49;50;45;51;49;32;50;51;58;53;57;58;53;57;46;57;57;57;57;57;57]%nat))
  /\ result_interval (Some (map (fun c => N.of_nat c) [49;57;54;57;45;49;50;45;51;49;32;50;51;58;53;57;58;53;57;46;57;57;57;57;57;57]%nat))
     = POk (Some (-1)%Z).
Proof. vm_compute. split; reflexivity. Qed.

(* two nested decorators over a base type with its own processor, selected through label/subquery/union *)
Example c09_ex_nested_decorators :
  let t := TDec 1 true true (TDec 2 true true (TBase true)) in
  column_processor (nest [WLabel; WSubq; WUnion (CCol (TBase false)); WCte] (CCol t)) = [SImpl; SResultValue 2; SResultValue 1]
  /\ bind_proc t = Some [SBindParam 1; SBindParam 2; SImpl].
Proof. vm_compute. split; reflexivity. Qed.
