(* C29 - the asyncio API matches the sync API and is safe under cancellation.
   PARTIAL (see specs/c29.py LEVEL_NOTE): the model covers AsyncEngine/AsyncConnection on an asyncio
   DBAPI adapter with the operation alphabet begin / insert / select / commit / rollback and three block
   styles; savepoints, engine.begin() and AsyncSession are checked differentially only.  The safety
   theorems are for at most ONE cancellation per case (any position, request taking effect or not);
   a second cancellation inside terminate() is outside the model (last Example).  Trusted: greenlet switch/throw, the
   event loop's delivery of cancellations, the driver model io_step. *)
From Coq Require Import List ZArith Bool Arith.
Import ListNotations.
From SAV.engine Require Import Async AsyncConn AsyncExec AsyncWorld AsyncSafe AsyncApi AsyncNoCancel AsyncLater AsyncWitness.
Open Scope Z_scope.

(* ---- 1. the trampoline: every sync program, every driver ---- *)
(* a coroutine that runs sync code [fn] through greenlet_spawn, on the event loop without cancellation:
   same result, same final world, the same awaitables in the same order as calling [fn] directly *)
Theorem c29_trampoline_transparent :
  forall (IO V E W R : Type) (step : W -> IO -> (V + E) * W) (cancel_step : W -> IO -> W)
         (suspends : IO -> bool) (cancelled : E) (no_await : R -> R) (fn : prog IO V E R) (w : W),
    let '(r, w', _, t) := run_loop step cancel_step suspends cancelled (greenlet_spawn no_await false fn) w [] in
    run_sync step fn w = (r, w', flat_map ev_io t) /\ Forall ev_uncancelled t.
Proof. exact trampoline_transparent. Qed.
Print Assumptions c29_trampoline_transparent.

(* the same with _require_await=True for code that awaits at least once ... *)
Theorem c29_trampoline_transparent_require :
  forall (IO V E W R : Type) (step : W -> IO -> (V + E) * W) (cancel_step : W -> IO -> W)
         (suspends : IO -> bool) (cancelled : E) (no_await : R -> R) (fn : prog IO V E R) (w : W),
    switches fn ->
    let '(r, w', _, t) := run_loop step cancel_step suspends cancelled (greenlet_spawn no_await true fn) w [] in
    run_sync step fn w = (r, w', flat_map ev_io t) /\ Forall ev_uncancelled t.
Proof. exact trampoline_transparent_require. Qed.
Print Assumptions c29_trampoline_transparent_require.

(* ... and the only other case: a function that returned without awaiting gets AwaitRequired *)
Theorem c29_require_await_without_switch :
  forall (IO V E R : Type) (no_await : R -> R) (r : R),
    greenlet_spawn (IO := IO) (V := V) (E := E) no_await true (Ret r) = Ret (no_await r).
Proof. exact spawn_require_no_switch. Qed.
Print Assumptions c29_require_await_without_switch.

(* the trees are even equal as trees (what the coroutine awaits IS what the sync code calls) *)
Theorem c29_greenlet_spawn_identity :
  forall (IO V E R : Type) (no_await : R -> R) (fn : prog IO V E R), peq (greenlet_spawn no_await false fn) fn.
Proof. exact spawn_transparent. Qed.
Print Assumptions c29_greenlet_spawn_identity.

(* ---- 2. the API: AsyncEngine/AsyncConnection vs Engine/Connection, every block, every state ---- *)
Theorem c29_api_transparent :
  forall (cf : cfg) (sty : style) (ops : list op) (s : pst) (w : world),
    let '(r, w', _, t) := run_loop io_step io_cancel_step io_suspends ECancelled (block cf async_api sty ops s) w [] in
    run_sync io_step (block cf sync_api sty ops s) w = (r, w', flat_map ev_io t) /\ Forall ev_uncancelled t.
Proof. exact api_transparent. Qed.
Print Assumptions c29_api_transparent.

(* Connection.execute on the asyncio adapter never returns normally without an await, so
   _require_await never fires on it *)
Theorem c29_execute_always_awaits :
  forall (cf : cfg) (st : stmt) (s : pst), ~ rok (conn_execute cf st s).
Proof. exact not_rok_conn_execute. Qed.
Print Assumptions c29_execute_always_awaits.

(* ---- 3. cancellation ---- *)
(* ghost flag [oom] of the model: set when a disconnect error leads to Pool._invalidate, when terminate()
   is cancelled, and - ORDERING OBLIGATION - when Pool._close_connection is entered for a connection
   whose record is at that moment waiting in the pool queue (closing awaits the driver, so another task
   could take the record with the connection that is being closed).  [Done] contains oom = false, so the
   safety theorems below also say: a record is invalidated (its connection detached) BEFORE it becomes
   available to another checkout. *)
(* what "safe" means, spelled out: nothing is checked out (checkedout() = 0), every record handed out
   came back exactly once, every pooled connection is alive and no connection of the driver is left in
   a transaction, nothing waits for the garbage collector *)
Theorem c29_done_spelled :
  forall (cf : cfg) (s : pst) (w : world), Done cf s w ->
    psize cf - Z.of_nat (length (q s)) + ov s = 0 /\
    n_out s = n_in s /\
    (forall r c, In r (q s) -> r_conn r = Some c -> d_open (getc w c) = true /\ d_txn (getc w c) = false) /\
    NoDup (qconns (q s)) /\
    (forall c, d_txn (getc w c) = false) /\
    cur_fairy s = false /\ oom s = false.
Proof. exact done_spelled. Qed.
Print Assumptions c29_done_spelled.

(* a block closed by `async with` or by try/finally (after /repo 51edfd0): for every program, every
   single cancellation position, both "the cancelled request took effect / did not": safe as soon as
   the task has ended, without any help from the garbage collector and without a warning *)
Theorem c29_cancel_safe_block :
  forall (cf : cfg), 1 <= psize cf ->
  forall (sty : style) (ops : list op) (s : pst) (w : world) (cs : list cdec),
    sty <> SLeak -> Done cf s w -> (ncancel cs <= 1)%nat ->
    let '(o, s', w', cs') := exec (block cf async_api sty ops) s w cs in
    Done cf s' w' /\ n_warn s' = n_warn s /\ (ncancel cs' <= 1)%nat /\ (o = Ok VUnit \/ o = Raise ECancelled).
Proof. exact block_safe. Qed.
Print Assumptions c29_cancel_safe_block.

(* a connection that is never closed: the collector cannot reset it asynchronously; it is detached,
   terminated and its record goes back empty (at most one warning) *)
Theorem c29_cancel_safe_leak :
  forall (cf : cfg), 1 <= psize cf ->
  forall (ops : list op) (s : pst) (w : world) (cs : list cdec),
    Done cf s w -> (ncancel cs <= 1)%nat ->
    let '(_, s1, w1, cs1) := exec (block cf async_api SLeak ops) s w cs in
    let '(_, s', w', _) := exec (gc_collect cf) s1 w1 [] in
    Done cf s' w' /\ (n_warn s' <= S (n_warn s))%nat /\ (ncancel cs1 <= 1)%nat.
Proof. exact leak_safe. Qed.
Print Assumptions c29_cancel_safe_leak.

(* any sequence of tasks on a fresh engine, one cancellation anywhere *)
Theorem c29_cancel_safe_tasks :
  forall (cf : cfg), 1 <= psize cf ->
  forall (bs : list (style * list op)) (cs : list cdec), (ncancel cs <= 1)%nat ->
    let '(s', w', _) := run_tasks cf bs (init_pst cf) init_world cs in Done cf s' w'.
Proof. exact tasks_safe_init. Qed.
Print Assumptions c29_cancel_safe_tasks.

(* without a cancellation nothing in the modelled code raises CancelledError ... *)
Theorem c29_block_not_cancelled :
  forall (cf : cfg) (sty : style) (ops : list op) (s : pst) (w : world) (cs : list cdec),
    ncancel cs = 0%nat ->
    let '(o, _, _, _) := exec (block cf async_api sty ops) s w cs in o <> Raise ECancelled.
Proof. exact block_not_cancelled. Qed.
Print Assumptions c29_block_not_cancelled.

(* ... so on a safe engine a block that is not cancelled completes and leaves the engine safe *)
Theorem c29_later_ok :
  forall (cf : cfg), 1 <= psize cf ->
  forall (sty : style) (ops : list op) (s : pst) (w : world) (cs : list cdec),
    sty <> SLeak -> Done cf s w -> ncancel cs = 0%nat ->
    let '(o, s', w', _) := exec (block cf async_api sty ops) s w cs in
    o = Ok VUnit /\ Done cf s' w' /\ n_warn s' = n_warn s.
Proof. exact later_ok. Qed.
Print Assumptions c29_later_ok.

(* the cancellation clause of C29 in one statement: tasks with at most one cancellation anywhere, then
   "later operations on the engine work" *)
Theorem c29_later_operations_work :
  forall (cf : cfg), 1 <= psize cf ->
  forall (bs : list (style * list op)) (cs : list cdec) (sty : style) (ops : list op),
    sty <> SLeak -> (ncancel cs <= 1)%nat ->
    let '(s1, w1, _) := run_tasks cf bs (init_pst cf) init_world cs in
    let '(o, s', w', _) := exec (block cf async_api sty ops) s1 w1 [] in
    o = Ok VUnit /\ Done cf s' w'.
Proof. exact later_operations_work. Qed.
Print Assumptions c29_later_operations_work.

Example c29_hypotheses_satisfiable : Done cf2 (init_pst cf2) init_world /\ 1 <= psize cf2.
Proof. exact cf2_ok. Qed.

(* two cancellations, the second one inside terminate(): outside the model (see AsyncWitness.v and the
   known finding C29-second-cancel-in-terminate-races-graceful-close) *)
Example c29_double_cancel_outside_model :
  ncancel w_cs = 2%nat /\
  let '(r, w', _, _) := rl (block cf2 async_api SCtx w_ops (init_pst cf2)) init_world w_cs in
  fst r = Raise ECancelled /\ oom (snd r) = true.
Proof. exact double_cancel_outside_model. Qed.
