(* C29 - the asyncio API matches the sync API and is safe under cancellation (partial: see specs/c29.py) *)
From Coq Require Import List Bool.
Import ListNotations.
From SAV.engine Require Import Async.

Theorem c29_trampoline_transparent :
  forall (IO V E W R : Type) (step : W -> IO -> (V + E) * W) (cancel_step : W -> IO -> W)
         (suspends : IO -> bool) (cancelled : E) (no_await : R -> R) (fn : prog IO V E R) (w : W),
    let '(r, w', _, t) := run_loop step cancel_step suspends cancelled (greenlet_spawn no_await false fn) w [] in
    run_sync step fn w = (r, w', flat_map ev_io t) /\ Forall ev_uncancelled t.
Proof. exact trampoline_transparent. Qed.
Print Assumptions c29_trampoline_transparent.
