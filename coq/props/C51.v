(* C51 - pickling and serializer round trips preserve state and results (PARTIAL: the SQLAlchemy codecs;
   pickle itself and class lookup by name are CPython's and enter as Section variables / hypotheses).
   Statements only; every proof is [exact <lemma>].  Model: coq/orm/Pickle.v. *)
From Coq Require Import List ZArith Bool String.
Import ListNotations.
From SAV.orm Require Import Pickle PickleProofs.
Open Scope Z_scope.

(* ---------- InstanceState.__getstate__ / __setstate__ ---------- *)

(* For EVERY pair of key tables (what __getstate__ writes and when; what __setstate__ reads and how) that
   satisfies the boolean side condition [codec_ok], and every instance state [s] (any lifecycle: which
   attributes are set on the instance is arbitrary; values are arbitrary plain data or well-formed load
   paths): __setstate__ succeeds on the pickled dict and "equivalent" means
     - every attribute named in the tables has the value the original had (getattr semantics: an attribute
       not set on the instance reads as its class default), load paths up to replacing aliased classes by
       their mappers ([norm]);
     - every other attribute (session_id, identity_token, insert_order, runid, ...) is NOT kept: it reads as
       its class default afterwards.
   [pickle] is any function with a left inverse on the plain dict. *)
Theorem c51_state_roundtrip :
  forall (B : Type) (pickle : dict -> B) (unpickle : B -> dict),
  (forall d, unpickle (pickle d) = d) ->
  forall w r s, codec_ok w r = true -> state_ok s ->
  exists s', setstate r (unpickle (pickle (getstate w s))) = Some s' /\
    (forall k, mem k (rkeys r) = true -> getattr s' k = norm (getattr s k)) /\
    (forall k, mem k (rkeys r) = false -> getattr s' k = class_default k).
Proof. intros B pickle unpickle Hp w r s. rewrite Hp. exact (state_roundtrip_tables w r s). Qed.
Print Assumptions c51_state_roundtrip.

(* the tables transcribed from the source satisfy the side condition (the tables extracted from the
   CURRENT source are checked against these, and against codec_ok, by the per-run file C51_keys.v) *)
Theorem c51_model_tables_ok : codec_ok model_writes model_reads = true.
Proof. exact model_tables_ok. Qed.
Print Assumptions c51_model_tables_ok.

(* the side condition is not vacuous: a fallback that differs from the class default, or a key that is
   read but never written, changes the state *)
Theorem c51_state_roundtrip_needs_side_condition : exists w r s,
  codec_ok w r = false /\ exists s', setstate r (getstate w s) = Some s' /\
  getattr s' "modified"%string <> getattr s "modified"%string.
Proof. exact state_roundtrip_needs_side_condition. Qed.
Print Assumptions c51_state_roundtrip_needs_side_condition.

Theorem c51_state_roundtrip_dropped_key_lost : exists w r s,
  codec_ok w r = false /\ exists s', setstate r (getstate w s) = Some s' /\
  getattr s' "modified"%string <> getattr s "modified"%string.
Proof. exact state_roundtrip_dropped_key_lost. Qed.
Print Assumptions c51_state_roundtrip_dropped_key_lost.

(* ---------- PathRegistry.serialize / deserialize ---------- *)
Theorem c51_path_roundtrip : forall p, wf_path p = true -> deserialize (serialize p) = Some (map erase p).
Proof. exact path_roundtrip. Qed.
Print Assumptions c51_path_roundtrip.

Theorem c51_path_roundtrip_guarded : forall p, wf_path p = true -> alias_free p = true ->
  deserialize (serialize p) = Some p.
Proof. exact path_roundtrip_guarded. Qed.
Print Assumptions c51_path_roundtrip_guarded.

(* an aliased class in a load path comes back as the plain mapper *)
Theorem c51_path_roundtrip_refuted : exists p, wf_path p = true /\ deserialize (serialize p) <> Some p.
Proof. exact path_roundtrip_refuted. Qed.
Print Assumptions c51_path_roundtrip_refuted.

(* ---------- Row / FrozenResult ---------- *)
(* the unpickled Row has the same data and keys, answers every string / integer key as before, and no
   longer answers Column-object keys *)
Theorem c51_row_roundtrip : forall r,
  row_data (row_roundtrip r) = row_data r /\
  md_keys (row_md (row_roundtrip r)) = md_keys (row_md r) /\
  (forall k, picklable_key k = true -> row_get (row_roundtrip r) k = row_get r k) /\
  (forall z, row_get (row_roundtrip r) (KObj z) = None).
Proof. exact row_roundtrip_spec. Qed.
Print Assumptions c51_row_roundtrip.

(* the thawed unpickled FrozenResult yields the same keys and rows *)
Theorem c51_frozen_result_roundtrip : forall f,
  thaw (frozen_roundtrip f) = thaw f /\ fr_scalars (frozen_roundtrip f) = fr_scalars f.
Proof. exact frozen_roundtrip_spec. Qed.
Print Assumptions c51_frozen_result_roundtrip.

(* every STRING key the frozen result answered - the result keys and aliases such as Column.key or the
   "table_column" label - resolves to the same position on rows of the unpickled frozen result (as for a
   directly pickled Row, c51_row_roundtrip); Column-object keys are lost *)
Theorem c51_frozen_string_lookup_kept : forall f z,
  frozen_index (frozen_roundtrip f) (KStr z) = frozen_index f (KStr z).
Proof. exact frozen_string_lookup_kept. Qed.
Print Assumptions c51_frozen_string_lookup_kept.

Theorem c51_frozen_object_lookup_lost : forall f z, frozen_index (frozen_roundtrip f) (KObj z) = None.
Proof. exact frozen_object_lookup_lost. Qed.
Print Assumptions c51_frozen_object_lookup_lost.

(* formerly refuted (finding C51-frozen-result-loses-string-aliases, fixed in /repo dd3ca1b): the alias 3
   of the second column is still answered after the round trip *)
Example c51_ex_frozen_alias_kept :
  let f := mkFrozen (mkMd [1; 2] [(KStr 1, 0%nat); (KStr 2, 1%nat); (KStr 3, 1%nat); (KObj 9, 1%nat)]) false [[10; 20]] in
  frozen_index (frozen_roundtrip f) (KStr 3) = Some 1%nat /\ frozen_index (frozen_roundtrip f) (KObj 9) = None.
Proof. split; reflexivity. Qed.

(* ---------- ext.serializer ---------- *)
(* every persistent id resolves to the same table / column / mapper / property / mapped selectable, hence
   loads (dumps stmt) = stmt, for every statement whose persistent objects exist in the target environment
   and whose column / property keys (and the keys of tables referenced through a column) contain no ':'.  [b64] is
   b64encode(pickle.dumps(cls)): any function into the base64 alphabet with a left inverse. *)
Theorem c51_serializer_roundtrip_guarded :
  forall (b64 : Z -> str) (unb64 : str -> option Z) (tables : list (str * list str)) (props : Z -> list str),
  (forall c, no_colon (b64 c) = true) -> (forall c, unb64 (b64 c) = Some c) ->
  forall s, stmt_ok tables props s = true -> loads unb64 tables props (dumps b64 s) = LOk s.
Proof. exact serializer_roundtrip_guarded. Qed.
Print Assumptions c51_serializer_roundtrip_guarded.

(* ... and it fails for a column key "a:b" / a table key "u:v" (ValueError) *)
Theorem c51_serializer_roundtrip_refuted_colon :
  load_id (fun _ => None) ex_tables (fun _ => []) (id_of (fun _ => []) (LColumn [116] [97; 58; 98])) = LErr EUnpack /\
  load_id (fun _ => None) ex_tables (fun _ => []) (id_of (fun _ => []) (LColumn [117; 58; 118] [121])) = LErr EUnpack.
Proof. exact serializer_roundtrip_refuted_column_colon. Qed.
Print Assumptions c51_serializer_roundtrip_refuted_colon.

(* formerly refuted (finding C51-serializer-newline-in-name, fixed in /repo 973ce94): keys with a newline *)
Example c51_ex_serializer_newline_ok :
  load_id (fun _ => None) [([119; 10; 122], [[105; 100]; [110; 10; 109]])] (fun _ => []) (id_of (fun _ => []) (LTable [119; 10; 122]))
    = LOk (LTable [119; 10; 122]) /\
  load_id (fun _ => None) [([119; 10; 122], [[105; 100]; [110; 10; 109]])] (fun _ => [])
          (id_of (fun _ => []) (LColumn [119; 10; 122] [110; 10; 109])) = LOk (LColumn [119; 10; 122] [110; 10; 109]).
Proof. exact serializer_roundtrip_newline_ok. Qed.

(* ---------- non-vacuity ---------- *)
(* a persistent object with an expired attribute, a pending collection mutation, loader options and an
   aliased load path: everything is kept, the alias is erased, session_id is dropped *)
Example c51_ex_state :
  let s := [("key", Opaque 500); ("expired_attributes", Opaque 501); ("_pending_mutations", Opaque 502);
            ("load_options", Opaque 503); ("load_path", VPath [PAlias 0; PProp 0; PMapper 1]);
            ("modified", Opaque 504); ("session_id", Opaque 7); ("instance", Opaque 505); ("class_", Opaque 506);
            ("committed_state", Opaque 507); ("manager", Opaque 508)]%string in
  exists s', setstate model_reads (getstate model_writes s) = Some s' /\
             getattr s' "load_path"%string = VPath [PMapper 0; PProp 0; PMapper 1] /\
             getattr s' "_pending_mutations"%string = Opaque 502 /\ getattr s' "expired_attributes"%string = Opaque 501 /\
             getattr s' "load_options"%string = Opaque 503 /\ getattr s' "session_id"%string = Opaque c_none /\
             getattr s' "parents"%string = Opaque c_empty_dict.
Proof. eexists. split; [vm_compute; reflexivity|]. vm_compute. repeat split. Qed.

Example c51_ex_serializer :
  loads (fun s => if str_eqb s [65] then Some 0 else None) [([116], [[105; 100]; [120]])] (fun _ => [[98; 115]])
        (dumps (fun _ => [65]) (SNode 1 [SLeaf (LColumn [116] [120]); SLeaf (LMapper 0); SNode 2 [SLeaf (LProp 0 [98; 115])]]))
  = LOk (SNode 1 [SLeaf (LColumn [116] [120]); SLeaf (LMapper 0); SNode 2 [SLeaf (LProp 0 [98; 115])]]).
Proof. vm_compute. reflexivity. Qed.

(* schema-qualified tables: "archive.item" next to a table "item" in the default schema - the column id
   carries the table KEY, so each column resolves to its own table *)
Example c51_ex_serializer_schema :
  let arch := [97; 114; 99; 104; 105; 118; 101; 46; 105; 116; 101; 109] in
  let item := [105; 116; 101; 109] in
  let tabs := [(item, [[105; 100]; [120]]); (arch, [[105; 100]; [120]])] in
  loads (fun _ => None) tabs (fun _ => [])
        (dumps (fun _ => []) (SNode 1 [SLeaf (LColumn arch [120]); SLeaf (LColumn item [120]); SLeaf (LTable arch)]))
  = LOk (SNode 1 [SLeaf (LColumn arch [120]); SLeaf (LColumn item [120]); SLeaf (LTable arch)]).
Proof. vm_compute. reflexivity. Qed.
