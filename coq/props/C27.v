(* C27 - a disconnect invalidates the connection and blocks silent continuation.
   Statements only; every proof is [exact <lemma>].

   [step faults lst o s] runs one Connection operation (execute, begin, commit, rollback, begin_nested,
   rollback / release of the current savepoint) in state [s]; every DBAPI call asks the fault oracle
   [faults : nat -> fault] (indexed by the number of the call) whether it succeeds, raises an error, or raises
   an error of the disconnect class; [lst] is the chain of handle_error listeners, each assigning (or not)
   ctx.is_disconnect / ctx.invalidate_pool_on_disconnect and returning None, returning an exception or raising.
   All theorems hold for EVERY oracle, i.e. for every position of every fault in every history, and for every
   listener chain unless stated.  Result codes: RDisc "DBAPIError with connection_invalidated=True", RErr a
   DBAPIError not so classified, RCustom d an exception of a listener replacing an error whose final
   classification was d, RPending PendingRollbackError, RInvalidReq InvalidRequestError;  [is_disc c] = the error
   was classified as a disconnect when the handler finished. *)
From Coq Require Import List Arith Bool.
Import ListNotations.
From SAV.engine Require Import Disconnect DisconnectProofs DisconnectSteps DisconnectInv.

(* invalidated_after_disconnect *)
Theorem c27_invalidated_after_disconnect : forall faults lst o s s' c,
  step faults lst o s = (s', c) -> is_disc c = true -> invalidated s' = true.
Proof. exact invalidated_after_disconnect. Qed.
Print Assumptions c27_invalidated_after_disconnect.

(* older_pooled_connections_not_reused: after a disconnect hit the live connection (listener did not switch
   invalidate_pool_on_disconnect off), in every continuation every execute / commit / rollback runs on a DBAPI
   connection opened after the failure (ids are handed out in opening order) *)
Theorem c27_older_pooled_connections_not_reused : forall faults lst o s s1 c,
  WF s -> s_cur s <> None -> pool_inv lst = true -> step faults lst o s = (s1, c) -> is_disc c = true ->
  forall h, exists new,
    s_log (final faults lst h s1) = new ++ s_log s1 /\
    Forall (fun kc => use_kind (fst kc) -> s_nconn s1 <= snd kc) new.
Proof. exact older_pooled_connections_not_reused. Qed.
Print Assumptions c27_older_pooled_connections_not_reused.

(* ... where WF (timestamps/ids consistent with the logical clock) holds initially and is preserved *)
Theorem c27_wf_reachable : forall faults lst w h, WF (final faults lst h (init w)).
Proof. intros faults lst w h. exact (wf_final faults lst h (init w) (wf_init w)). Qed.
Print Assumptions c27_wf_reachable.

(* blocked_until_rollback: a disconnect that leaves a transaction in progress blocks the connection ... *)
Theorem c27_disconnect_in_transaction_blocks : forall faults lst o s s' c,
  step faults lst o s = (s', c) -> is_disc c = true -> in_txn s' = true -> blocked s'.
Proof. exact disconnect_in_transaction_blocks. Qed.
Print Assumptions c27_disconnect_in_transaction_blocks.

(* ... the transaction that was in progress at the failure is still in progress after it ... *)
Theorem c27_transaction_survives_failure : forall faults lst o s s' c,
  in_txn s = true -> o <> ORollback -> step faults lst o s = (s', c) -> c <> ROk -> in_txn s' = true.
Proof. exact transaction_survives_failure. Qed.
Print Assumptions c27_transaction_survives_failure.

(* ... and from a blocked state, after any operations other than rollback(), every further operation other than
   rollback() reaches NO DBAPI call (log and call counter unchanged), stays blocked, and execute / begin /
   commit / begin_nested raise (PendingRollbackError; begin: InvalidRequestError; commit: possibly the exception a
   listener substitutes for the PendingRollbackError), releasing an existing
   savepoint raises PendingRollbackError (a savepoint rollback is a silent no-op) *)
Theorem c27_blocked_until_rollback : forall faults lst s h1 o s2 c,
  blocked s -> ~ In ORollback h1 -> o <> ORollback ->
  step faults lst o (final faults lst h1 s) = (s2, c) ->
  s_log s2 = s_log s /\ s_n s2 = s_n s /\ blocked s2 /\
  (raising_op o -> c = RPending \/ c = RInvalidReq \/ exists d, c = RCustom d) /\
  (o = OReleaseSp -> s_nested (final faults lst h1 s) <> [] -> c = RPending).
Proof. exact blocked_until_rollback. Qed.
Print Assumptions c27_blocked_until_rollback.

(* reconnects_after_rollback: rollback() on the blocked connection succeeds without a DBAPI call, and the next
   execute - the database being back (the next two calls succeed) - transparently reconnects and succeeds *)
Theorem c27_rollback_unblocks : forall faults lst s, blocked s ->
  step faults lst ORollback s = (set_txn s TNone [], ROk).
Proof. exact rollback_unblocks. Qed.
Print Assumptions c27_rollback_unblocks.

Theorem c27_reconnects_after_rollback : forall faults lst s, blocked s ->
  faults (S (s_n s)) = FOk -> faults (S (S (s_n s))) = FOk ->
  exists s', step faults lst OExec (fst (step faults lst ORollback s)) = (s', ROk) /\ invalidated s' = false /\
             s_log (fst (step faults lst ORollback s)) = s_log s.
Proof. exact reconnects_after_rollback. Qed.
Print Assumptions c27_reconnects_after_rollback.

(* an invalidated connection WITHOUT a transaction in progress reconnects on the next execute: in EVERY reachable
   state (unguarded since fix fff6083: "no transaction in progress => no current savepoint" is an invariant) *)
Theorem c27_reconnects_when_no_transaction : forall faults lst w h s,
  s = final faults lst h (init w) -> s_cur s = None -> s_txn s = TNone ->
  faults (S (s_n s)) = FOk -> faults (S (S (s_n s))) = FOk ->
  exists s', step faults lst OExec s = (s', ROk) /\ invalidated s' = false /\ in_txn s' = true.
Proof. exact reconnects_when_no_transaction. Qed.
Print Assumptions c27_reconnects_when_no_transaction.

Theorem c27_no_orphan_savepoint : forall faults lst w h,
  no_orphan_savepoint (final faults lst h (init w)).
Proof. intros faults lst w h. exact (final_orphan faults lst h (init w) (fun _ => eq_refl)). Qed.
Print Assumptions c27_no_orphan_savepoint.

(* non_disconnect_leaves_pool_untouched: any outcome other than a disconnect-classified error on a live
   connection leaves the pool (idle records, invalidation time), the connection in use, the number of opened
   connections and the clock exactly as they were *)
Theorem c27_non_disconnect_leaves_pool_untouched : forall faults lst o s s' c,
  s_cur s <> None -> step faults lst o s = (s', c) -> is_disc c = false -> same_pool s s'.
Proof. exact non_disconnect_leaves_pool_untouched. Qed.
Print Assumptions c27_non_disconnect_leaves_pool_untouched.

(* formerly refuted (finding C27-failed-rollback-leaves-savepoint, fixed by fff6083): rollback() that itself
   fails at the DBAPI while an inactive savepoint is open now cancels the savepoint; the next execute reconnects *)
Definition ex_faults_rb (n : nat) : fault := if Nat.eqb n 2 then FErr else if Nat.eqb n 3 then FDisc else FOk.
Example c27_ex_reconnect_after_failed_rollback :
  let r := run ex_faults_rb [] [OSavepoint; OReleaseSp; ORollback; OExec; OExec] (init 1) in
  map fst r = [ROk; RErr; RDisc; ROk; ROk] /\
  map (fun cs => s_nested (snd cs)) r = [[true]; [false]; []; []; []].
Proof. vm_compute. auto. Qed.

(* the handle_error listener chain: the classification the handler ends with is the last value assigned by a
   listener that ran, however the chain ended (all returned None, some returned exceptions, one raised) *)
Theorem c27_listener_chain_final_classification : forall l d ip e,
  run_chain l d ip e =
  (last_set lb_d (executed l) d, last_set lb_p (executed l) ip, e || existsb yields_exn (executed l)).
Proof. exact chain_final. Qed.
Print Assumptions c27_listener_chain_final_classification.

(* Connection._is_disconnect is False again after EVERY run of the handler (for every previous value, verdict of
   the dialect, listener chain, and whether or not the Connection was already invalidated); initially it is the
   class attribute False: invariant over all histories, which is why the handler model starts from False *)
Theorem c27_is_disconnect_flag_cleared : forall lst flag d0 inv, flag_after lst flag d0 inv = false.
Proof. exact flag_after_false. Qed.
Print Assumptions c27_is_disconnect_flag_cleared.

(* non-vacuity *)
Definition ex_faults (n : nat) : fault := if Nat.eqb n 2 then FDisc else FOk.
Example c27_ex_blocked :
  let r := run ex_faults [] [OExec; OExec; OExec; OCommit; ORollback; OExec] (init 1) in
  map fst r = [ROk; RDisc; RPending; RPending; ROk; ROk] /\
  map (fun cs => invalidated (snd cs)) r = [false; true; true; true; true; false] /\
  rev (s_log (final ex_faults [] [OExec; OExec; OExec; OCommit; ORollback; OExec] (init 1))) =
    [(K_EXEC, 0); (K_EXEC, 0); (K_CLOSE, 0); (K_CLOSE, 1); (K_CONNECT, 2); (K_EXEC, 2)].
Proof. vm_compute. auto. Qed.
(* the guard pool_inv lst = true of c27_older_pooled_connections_not_reused is needed: a listener that switches
   invalidate_pool_on_disconnect off gets the older pooled connection 1 back *)
Example c27_ex_listener_keeps_pool :
  rev (s_log (final ex_faults [mkl None (Some false) 0] [OExec; OExec; ORollback; OExec] (init 1))) =
    [(K_EXEC, 0); (K_EXEC, 0); (K_CLOSE, 0); (K_EXEC, 1)].
Proof. vm_compute. reflexivity. Qed.
(* a listener that upgrades a plain error to a disconnect AND raises its own exception, inside a transaction: the
   classification counts - invalidated, blocked until rollback() *)
Definition ex_faults_err2 (n : nat) : fault := if Nat.eqb n 2 then FErr else FOk.
Example c27_ex_listener_upgrade_and_raise :
  let r := run ex_faults_err2 [mkl (Some true) None 2] [OBegin; OExec; OExec; OExec; ORollback; OExec] (init 1) in
  map fst r = [ROk; ROk; RCustom true; RPending; ROk; ROk] /\
  map (fun cs => invalidated (snd cs)) r = [false; false; true; true; true; false].
Proof. vm_compute. auto. Qed.
