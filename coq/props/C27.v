(* C27 - placeholder while the development is being built *)
From Coq Require Import List.
From SAV.engine Require Import Disconnect.
Theorem c27_placeholder : forall w, invalidated (init w) = false.
Proof. intros w. reflexivity. Qed.
Print Assumptions c27_placeholder.
