(* C21 - generated and truncated names are bounded, deterministic and unique.
   Statements only; every proof is [exact <lemma>].  md5 is an arbitrary function (no property of it is
   needed for the bounds); [benv] is an arbitrary assignment of bind parameter objects. *)
From Coq Require Import List NArith ZArith Bool.
Import ListNotations.
From SAV.sql Require Import Trunc TruncDigits TruncMaxlen TruncLabels TruncRunProofs TruncExtra TruncRename.
Local Open Scope Z_scope.

(* ================= constraint and index names ================= *)

(* the truncation  name[0:max-8] + "_" + md5(name)[-4:]  fits whenever max >= 8 *)
Theorem c21_rendered_len_bounded : forall (md5_hex : str -> str) name max_,
  8 <= max_ -> slen (truncate_maxlen md5_hex name max_) <= max_.
Proof. exact truncate_maxlen_bounded. Qed.
Print Assumptions c21_rendered_len_bounded.

(* _truncate_and_render_maxlen_name: a rendered name fits; [truncatable] = _truncated_label *)
Theorem c21_render_bounded : forall md5_hex truncatable name max_ maxid s,
  truncate_and_render_maxlen_name md5_hex truncatable name max_ maxid = Ok s ->
  8 <= max_ -> truncatable = true \/ maxid <= max_ -> slen s <= max_.
Proof. exact render_bounded. Qed.
Print Assumptions c21_render_bounded.

(* ... otherwise IdentifierError, exactly for a non-truncatable name longer than max_identifier_length:
   never an over-long rendering *)
Theorem c21_render_error_iff : forall md5_hex truncatable name max_ maxid e,
  truncate_and_render_maxlen_name md5_hex truncatable name max_ maxid = Raise e
  <-> (truncatable = false /\ maxid < slen name /\ e = IdentifierError).
Proof. exact render_error_iff. Qed.
Print Assumptions c21_render_error_iff.

(* names that fit are rendered unchanged; truncated ones have exactly max-3 characters *)
Theorem c21_short_names_unchanged : forall md5_hex truncatable name max_ maxid,
  slen name <= max_ -> slen name <= maxid ->
  truncate_and_render_maxlen_name md5_hex truncatable name max_ maxid = Ok name.
Proof. exact render_short_id. Qed.
Print Assumptions c21_short_names_unchanged.
Theorem c21_truncated_exact_length : forall md5_hex name max_, (forall s, 4 <= slen (md5_hex s)) ->
  8 <= max_ -> max_ < slen name -> slen (truncate_maxlen md5_hex name max_) = max_ - 3.
Proof. exact truncate_maxlen_exact. Qed.
Print Assumptions c21_truncated_exact_length.

(* the whole DDL path (naming convention at attach time, conv(), _NONE_NAME, format_constraint): every
   rendered constraint / index name is within the dialect's max_identifier_length ... *)
Theorem c21_ddl_name_within_max_identifier_length : forall md5_hex d is_index convention given env s,
  dialect_ok d = true ->
  ddl_name md5_hex d is_index convention given env = Ok (Some s) -> slen s <= d_maxid d.
Proof. exact ddl_name_within_maxid. Qed.
Print Assumptions c21_ddl_name_within_max_identifier_length.

(* ... and within max_index_name_length / max_constraint_name_length, except for a user-given plain name
   on a dialect whose specific limit is smaller than max_identifier_length (validate_identifier only
   looks at max_identifier_length) *)
Theorem c21_ddl_name_within_specific_limit_guarded : forall md5_hex d is_index convention given env s,
  dialect_ok d = true -> specific_guard d is_index convention given = true ->
  ddl_name md5_hex d is_index convention given env = Ok (Some s) -> slen s <= max_for d is_index.
Proof. exact ddl_name_within_specific. Qed.
Print Assumptions c21_ddl_name_within_specific_limit_guarded.
(* the guard excludes exactly the failing names: outside it (and within max_identifier_length) the
   name is rendered unchanged and is longer than the specific limit *)
Theorem c21_specific_guard_exact : forall md5_hex d is_index convention p env, dialect_ok d = true ->
  specific_guard d is_index convention (GPlain p) = false -> slen p <= d_maxid d ->
  ddl_name md5_hex d is_index convention (GPlain p) env = Ok (Some p) /\ max_for d is_index < slen p.
Proof. exact specific_guard_exact. Qed.
Print Assumptions c21_specific_guard_exact.
Theorem c21_ddl_name_within_specific_limit_refuted : forall md5_hex,
  dialect_ok mysql_like = true /\
  exists s, ddl_name md5_hex mysql_like true None (GPlain (repeat 105%N 100)) env0 = Ok (Some s)
            /\ max_for mysql_like true < slen s.
Proof. exact plain_name_exceeds_specific_limit. Qed.
Print Assumptions c21_ddl_name_within_specific_limit_refuted.

(* max < 8 (not the case of any dialect in the translated table): the "truncated" name is longer than
   the limit and even longer than the original *)
Theorem c21_rendered_len_small_max_refuted : forall md5_hex, (forall s, 4 <= slen (md5_hex s)) ->
  exists name max_, 0 < max_ < 8 /\ max_ < slen (truncate_maxlen md5_hex name max_)
                    /\ slen name < slen (truncate_maxlen md5_hex name max_).
Proof. exact small_max_overlong. Qed.
Print Assumptions c21_rendered_len_small_max_refuted.

(* the only failures are the documented ones, with their causes *)
Theorem c21_ddl_name_errors : forall md5_hex d is_index convention given env e,
  ddl_name md5_hex d is_index convention given env = Raise e ->
  (e = IdentifierError /\ plain_path convention given = true
     /\ exists p, given = GPlain p /\ d_maxid d < slen p)
  \/ (e = InvalidRequestError /\ exists tpl, convention = Some tpl /\ mentions_cname tpl = true
                                             /\ (given = GNone \/ given = GNoneName))
  \/ (e = CompileError /\ is_index = true).
Proof. exact ddl_name_errors. Qed.
Print Assumptions c21_ddl_name_errors.

(* same on every compilation: the name depends on the constraint only, not on what was compiled before
   or after it *)
Theorem c21_ddl_name_deterministic : forall md5_hex d pre post is_index convention given env,
  nth (length pre) (ddl_names md5_hex d (pre ++ (is_index, convention, given, env) :: post))
      (Raise CompileError)
  = ddl_name md5_hex d is_index convention given env.
Proof. exact ddl_names_order_independent. Qed.
Print Assumptions c21_ddl_name_deterministic.

(* table form used by the per-run obligation on the translated dialect table *)
Theorem c21_dialect_table_bounded : forall md5_hex tbl, table_ok tbl = true ->
  forall id d, In (id, d) tbl -> forall is_index convention given env s,
  ddl_name md5_hex d is_index convention given env = Ok (Some s) -> slen s <= d_maxid d.
Proof. exact table_within_maxid. Qed.
Print Assumptions c21_dialect_table_bounded.

(* ================= an engine whose dialect detects its limit on first connect ================= *)
(* DefaultDialect.initialize: the engine starts with the detected (or user-fixed) limit and a label
   length that fits it, or refuses with ArgumentError exactly when label_length exceeds that limit *)
Theorem c21_initialize_ok : forall class_maxid user_maxid label_length detected m,
  initialize class_maxid user_maxid label_length detected = Ok m ->
  m = (if truthy user_maxid then py_or user_maxid class_maxid
       else py_or detected (py_or user_maxid class_maxid))
  /\ py_or label_length m <= m.
Proof. exact initialize_ok. Qed.
Print Assumptions c21_initialize_ok.
Theorem c21_initialize_error_iff : forall class_maxid user_maxid label_length detected e,
  initialize class_maxid user_maxid label_length detected = Raise e <->
  (e = ArgumentError /\ exists l, label_length = Some l /\ l <> 0
     /\ (if truthy user_maxid then py_or user_maxid class_maxid
         else py_or detected (py_or user_maxid class_maxid)) < l).
Proof. exact initialize_error_iff. Qed.
Print Assumptions c21_initialize_error_iff.
(* every label / alias / anonymous bind name compiled through a started engine fits the identifier limit
   in force after the first connection *)
Theorem c21_engine_labels_within_identifier_limit : forall benv class_maxid user_maxid label_length detected m rs st os,
  initialize class_maxid user_maxid label_length detected = Ok m -> 6 <= py_or label_length m ->
  (N.of_nat (length rs) < 1048576)%N ->
  run benv (py_or label_length m) init_state rs = Ok (st, os) ->
  (forall c n o, In (RName c (LTrunc n), o) (combine rs os) -> slen o <= m)
  /\ (forall oid t o, In (RBind oid, o) (combine rs os) -> b_key (benv oid) = BTrunc t -> slen o <= m).
Proof. exact engine_labels_within_identifier_limit. Qed.
Print Assumptions c21_engine_labels_within_identifier_limit.

(* ================= rendering of counters ================= *)
(* hex(n)[2:] / str(n) are modelled by a real digit function: it denotes n (so the fuel suffices),
   is injective, and has at most k digits exactly below base^k *)
Theorem c21_digits_value : forall b n, (2 <= b)%N -> dval b (digits b n) = n.
Proof. exact digits_value. Qed.
Print Assumptions c21_digits_value.
Theorem c21_hex_injective : forall n m, slice_from (py_hex n) hex_skip = slice_from (py_hex m) hex_skip -> n = m.
Proof. exact hexs_inj. Qed.
Print Assumptions c21_hex_injective.
Theorem c21_counter_width : forall c,
  ((c < 1048576)%N -> slen (slice_from (py_hex c) hex_skip) <= 5)
  /\ ((1048576 <= c)%N -> 5 < slen (slice_from (py_hex c) hex_skip)).
Proof. intros c. exact (conj (hexs_len_le5 c) (hexs_len_gt5 c)). Qed.
Print Assumptions c21_counter_width.

(* ================= labels, aliases and bind names within one compilation ================= *)
(* for any label_length, any number of requests in any order: two different truncatable names of one
   identifier class get the same rendered name only if they anonymise to the same text and that text is
   short enough not to be truncated (<= label_length - 6); in particular a truncated name never equals
   an untruncated one and two truncated names never coincide *)
Theorem c21_truncated_labels_injective : forall benv ll rs st os cls n1 n2 o,
  run benv ll init_state rs = Ok (st, os) ->
  In (RName cls (LTrunc n1), o) (combine rs os) -> In (RName cls (LTrunc n2), o) (combine rs os) ->
  n1 = n2 \/ (anon_pure (st_am st) n1 = anon_pure (st_am st) n2
              /\ slen (anon_pure (st_am st) n1) <= ll - 6).
Proof. exact run_labels_injective. Qed.
Print Assumptions c21_truncated_labels_injective.

(* label_length < 6: every name is "_<hex counter>", all distinct *)
Theorem c21_truncated_labels_injective_small_label_length : forall benv ll rs st os cls n1 n2 o, ll < 6 ->
  run benv ll init_state rs = Ok (st, os) ->
  In (RName cls (LTrunc n1), o) (combine rs os) -> In (RName cls (LTrunc n2), o) (combine rs os) ->
  n1 = n2.
Proof. exact run_labels_injective_small_ll. Qed.
Print Assumptions c21_truncated_labels_injective_small_label_length.

(* anonymous elements (label(None), anonymous aliases, anonymous binds): same rendered name in a class
   only for the same element *)
Theorem c21_anon_labels_distinct : forall benv ll rs st os cls k1 k2 o,
  run benv ll init_state rs = Ok (st, os) ->
  In (RName cls (LTrunc [Anon (fst k1) (snd k1)]), o) (combine rs os) ->
  In (RName cls (LTrunc [Anon (fst k2) (snd k2)]), o) (combine rs os) -> k1 = k2.
Proof. exact run_anon_labels_distinct. Qed.
Print Assumptions c21_anon_labels_distinct.

(* the unguarded statement "different names get different rendered names" is false: a generated anonymous
   name can coincide with a literal one *)
Theorem c21_labels_injective_refuted :
  exists rs st os n1 n2 o, run no_binds 30 init_state rs = Ok (st, os)
    /\ In (RName cls_colident (LTrunc n1), o) (combine rs os)
    /\ In (RName cls_colident (LTrunc n2), o) (combine rs os) /\ n1 <> n2.
Proof. exact anon_vs_literal_collision. Qed.
Print Assumptions c21_labels_injective_refuted.
Theorem c21_anon_vs_explicit_label_refuted :
  exists rs st os n s, run no_binds 30 init_state rs = Ok (st, os)
    /\ In (RName cls_colident (LTrunc n), s) (combine rs os)
    /\ In (RName cls_colident (LStr s), s) (combine rs os).
Proof. exact anon_vs_plain_collision. Qed.
Print Assumptions c21_anon_vs_explicit_label_refuted.

(* deterministic within the statement: one element, one rendered name *)
Theorem c21_same_element_same_name : forall benv ll rs st os r o1 o2,
  run benv ll init_state rs = Ok (st, os) ->
  In (r, o1) (combine rs os) -> In (r, o2) (combine rs os) -> o1 = o2.
Proof. exact run_stable. Qed.
Print Assumptions c21_same_element_same_name.

(* same on every compilation: the identities (Python id()) inside anonymous names may be renamed by any
   injective function without changing a single rendered name or the success of the compilation *)
Theorem c21_names_independent_of_object_ids : forall (f : N -> N), (forall a b, f a = f b -> a = b) ->
  forall benv benv' : N -> bindrec,
  (forall oid, b_key (benv' oid) = rn_bkey f (b_key (benv oid))
               /\ b_unique (benv' oid) = b_unique (benv oid)
               /\ b_expanding (benv' oid) = b_expanding (benv oid)) ->
  forall ll rs,
  match run benv ll init_state rs, run benv' ll init_state (map (rn_req f) rs) with
  | Ok (_, os), Ok (_, os') => os = os'
  | Raise e, Raise e' => e = e'
  | _, _ => False
  end.
Proof. exact names_independent_of_ids. Qed.
Print Assumptions c21_names_independent_of_object_ids.

(* bind parameters: no two different parameters share a name if one of them is anonymous ("unique") *)
Theorem c21_unique_binds_distinct : forall benv ll rs st os o1 o2 n1 n2,
  run benv ll init_state rs = Ok (st, os) ->
  In (RBind o1, n1) (combine rs os) -> In (RBind o2, n2) (combine rs os) ->
  o1 <> o2 -> b_unique (benv o1) = true \/ b_unique (benv o2) = true -> n1 <> n2.
Proof. exact run_binds_distinct. Qed.
Print Assumptions c21_unique_binds_distinct.
(* ... and when all are anonymous the compilation never fails with a name conflict *)
Theorem c21_anon_binds_never_conflict : forall benv,
  (forall oid, exists b, b_key (benv oid) = BTrunc [Anon oid b]) ->
  forall ll rs, exists st os, run benv ll init_state rs = Ok (st, os).
Proof. exact anon_binds_never_conflict. Qed.
Print Assumptions c21_anon_binds_never_conflict.

(* length: label_length >= 6 and fewer than 16^5 = 1048576 name requests: every rendered truncatable
   name fits label_length ... *)
Theorem c21_label_len_bounded : forall benv ll rs st os, 6 <= ll -> (N.of_nat (length rs) < 1048576)%N ->
  run benv ll init_state rs = Ok (st, os) ->
  (forall cls n o, In (RName cls (LTrunc n), o) (combine rs os) -> slen o <= ll)
  /\ (forall oid t o, In (RBind oid, o) (combine rs os) -> b_key (benv oid) = BTrunc t -> slen o <= ll).
Proof. exact run_len_bounded. Qed.
Print Assumptions c21_label_len_bounded.
(* ... the k-th over-long name of a class gets counter k ... *)
Theorem c21_kth_truncated_name : forall benv ll cls m, exists st os,
  run benv ll init_state (reqs_of cls (family ll (S m))) = Ok (st, os)
  /\ length os = S m
  /\ slen (last os []) = label_cut ll + 1 + slen (hexs (N.of_nat (S m))).
Proof. exact kth_truncated_name. Qed.
Print Assumptions c21_kth_truncated_name.
(* ... so exactly the 1048576th one is one character too long *)
Theorem c21_label_len_bounded_refuted : forall benv ll cls, 6 <= ll -> exists names st os,
  N.of_nat (length names) = 1048576%N /\ NoDup names
  /\ run benv ll init_state (reqs_of cls names) = Ok (st, os)
  /\ slen (last os []) = ll + 1.
Proof. exact label_overflow_at_16_pow_5. Qed.
Print Assumptions c21_label_len_bounded_refuted.

(* ================= non-vacuity ================= *)
Definition ex_md5 : str -> str := fun _ => [48; 49; 50; 51; 97; 98; 99; 100]%N.
Example c21_ex_truncate : truncate_maxlen ex_md5 (repeat 120%N 40) 12 = [120; 120; 120; 120; 95; 97; 98; 99; 100]%N.
Proof. vm_compute; reflexivity. Qed.
Example c21_ex_dialect_ok : dialect_ok {| d_maxid := 63; d_idx := None; d_con := None |} = true
                            /\ specific_guard mysql_like true None (GConv []) = true.
Proof. split; vm_compute; reflexivity. Qed.
(* label_length 10: "aaaaaaaa" twice and "aaaaaaab" as labels, one anonymous bind *)
Example c21_ex_run :
  let a := repeat 97%N 8 in let b := repeat 97%N 7 ++ [98%N] in
  let benv := fun _ => {| b_key := BTrunc [Anon 5 a]; b_unique := true; b_expanding := false |} in
  exists st, run benv 10 init_state
        [RName 0 (LTrunc [Lit a]); RName 0 (LTrunc [Lit b]); RName 0 (LTrunc [Lit a]); RBind 5]
      = Ok (st, [[97; 97; 97; 97; 95; 49]; [97; 97; 97; 97; 95; 50]; [97; 97; 97; 97; 95; 49];
                 [97; 97; 97; 97; 95; 49]]%N).
Proof. eexists. vm_compute. reflexivity. Qed.
Example c21_ex_initialize : initialize 128 None (Some 48) (Some 30) = Raise ArgumentError
                            /\ initialize 128 None (Some 29) (Some 30) = Ok 30
                            /\ initialize 128 (Some 40) (Some 35) (Some 30) = Ok 40.
Proof. repeat split. Qed.
Example c21_ex_bind_conflict :
  let benv := fun oid => if (oid =? 0)%N
                         then {| b_key := BPlain [120; 95; 49]%N; b_unique := false; b_expanding := false |}
                         else {| b_key := BTrunc [Anon 1 [120%N]]; b_unique := true; b_expanding := false |} in
  run benv 30 init_state [RBind 0; RBind 1] = Raise CompileError.
Proof. vm_compute; reflexivity. Qed.
