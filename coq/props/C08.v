(* C08 - LIKE-based string operators with autoescape match literal semantics.
   Statements only; every proof is [exact <lemma>].  Strings are unbounded lists of code points. *)
From Coq Require Import List NArith Bool.
Import ListNotations.
From SAV.sql Require Import Like LikeProofs.
Open Scope N_scope.

(* THE PROPERTY on its correct region.  col.<op>(x, autoescape=True, escape=escape) matches the row
   holding s exactly when the Python test holds (x in s / s.startswith(x) / s.endswith(x); both sides
   ASCII-lowered for the i-variants), for every operand x and every text s, whatever they contain.
   [guard o e]: the effective escape character e (default "/") is neither % nor _, and for the
   i-variants it is not an ASCII letter. *)
Theorem c08_autoescape_literal_guarded : forall o escape x s,
  guard o (eff_escape escape) = true -> op_match o true escape x s = py_test o x s.
Proof. exact autoescape_literal. Qed.
Print Assumptions c08_autoescape_literal_guarded.

(* ... and the code as written VIOLATES it at every excluded point: the guard is exact.  For each of
   the six operators and each excluded escape character there is an operand and a text on which the
   operator and the Python test disagree. *)
Theorem c08_autoescape_literal_refuted : forall o e,
  guard o e = false -> exists x s, op_match o true (Some e) x s <> py_test o x s.
Proof. exact guard_exact. Qed.
Print Assumptions c08_autoescape_literal_refuted.

(* the documented witnesses: contains("a%b", autoescape=True, escape="%") does not match "a%b";
   with escape="_" it matches "a_b" *)
Theorem c08_escape_pct_refuted :
  op_match Contains true (Some pct) [97; 37; 98] [97; 37; 98] = false /\
  py_test Contains [97; 37; 98] [97; 37; 98] = true.
Proof. vm_compute. split; reflexivity. Qed.
Print Assumptions c08_escape_pct_refuted.

Theorem c08_escape_und_refuted :
  op_match Contains true (Some und) [97; 37; 98] [97; 95; 98] = true /\
  py_test Contains [97; 37; 98] [97; 95; 98] = false.
Proof. vm_compute. split; reflexivity. Qed.
Print Assumptions c08_escape_und_refuted.

(* icontains("A", autoescape=True, escape="a"): lower() turns the operand into the escape character;
   the pattern %a% ESCAPE 'a' then means "contains a literal %" *)
Theorem c08_letter_escape_ci_refuted :
  op_match IContains true (Some 97) [65] [97] = false /\ py_test IContains [65] [97] = true /\
  op_match IContains true (Some 97) [65] [37] = true /\ py_test IContains [65] [37] = false.
Proof. vm_compute. repeat split; reflexivity. Qed.
Print Assumptions c08_letter_escape_ci_refuted.

(* per operator, in the notation of the property text (corollaries of the first theorem) *)
Theorem c08_contains_guarded : forall e x s, esc_ok e = true ->
  like (Some e) (pct :: autoescape e x ++ [pct]) s = is_infix x s.
Proof. exact contains_guarded. Qed.
Print Assumptions c08_contains_guarded.

Theorem c08_startswith_guarded : forall e x s, esc_ok e = true ->
  like (Some e) (autoescape e x ++ [pct]) s = is_prefix x s.
Proof. exact startswith_guarded. Qed.
Print Assumptions c08_startswith_guarded.

Theorem c08_endswith_guarded : forall e x s, esc_ok e = true ->
  like (Some e) (pct :: autoescape e x) s = is_suffix x s.
Proof. exact endswith_guarded. Qed.
Print Assumptions c08_endswith_guarded.

Theorem c08_icontains_guarded : forall e x s, esc_ok e = true -> is_letter e = false ->
  like (Some e) (pct :: lower (autoescape e x) ++ [pct]) (lower s) = is_infix (lower x) (lower s).
Proof. exact icontains_guarded. Qed.
Print Assumptions c08_icontains_guarded.

(* the escaped operand alone (col.like(escaped, escape=e)) is string equality *)
Theorem c08_like_escaped_is_equality : forall e x s,
  esc_ok e = true -> like (Some e) (autoescape e x) s = list_eqb x s.
Proof. exact like_escaped_is_equality. Qed.
Print Assumptions c08_like_escaped_is_equality.

(* the three sequential str.replace calls are one character-wise substitution (no re-escaping) *)
Theorem c08_autoescape_is_charwise : forall e x, esc_ok e = true ->
  autoescape e x =
  flat_map (fun c => if N.eqb c e || N.eqb c pct || N.eqb c und then [e; c] else [c]) x.
Proof. exact autoescape_is_charwise. Qed.
Print Assumptions c08_autoescape_is_charwise.

(* the pattern sent to the backend contains valid escape sequences only (escape character followed by
   the escape character, % or _; never a dangling one), so the result does not depend on how a backend
   treats invalid sequences (error vs. literal) *)
Theorem c08_autoescape_wellformed : forall o escape x,
  guard o (eff_escape escape) = true ->
  wf_pattern (eff_escape escape) (op_pattern o true escape x) = true.
Proof. exact autoescape_wellformed. Qed.
Print Assumptions c08_autoescape_wellformed.

(* autoescape=False branch: an operand containing nothing that LIKE interprets is matched literally *)
Theorem c08_plain_literal : forall o escape x s,
  is_esc escape pct = false -> plain_ok escape (fold_case o x) = true ->
  op_match o false escape x s = py_test o x s.
Proof. exact plain_literal. Qed.
Print Assumptions c08_plain_literal.

(* ---- non-vacuity *)
(* the default escape character and the usual explicit ones satisfy the guard for all six operators *)
Example c08_ex_guard_default :
  forallb (fun o => guard o (eff_escape None)) [Contains; Startswith; Endswith; IContains; IStartswith; IEndswith] = true
  /\ guard IContains 94 = true /\ guard Contains 39 = true /\ guard IEndswith 92 = true.
Proof. vm_compute. repeat split; reflexivity. Qed.
(* the excluded region is what the refutation says it is *)
Example c08_ex_guard_excluded :
  guard Contains pct = false /\ guard Startswith und = false /\ guard IContains 65 = false /\
  guard Contains 65 = true.
Proof. vm_compute. repeat split; reflexivity. Qed.
(* "a%_/b" escaped with the default: a/%/_//b ; it matches inside x..y and not when % acts as wildcard *)
Example c08_ex_escape : autoescape slash [97; 37; 95; 47; 98] = [97; 47; 37; 47; 95; 47; 47; 98]
  /\ op_match Contains true None [97; 37; 95; 47; 98] [120; 97; 37; 95; 47; 98; 121] = true
  /\ op_match Contains true None [97; 37; 95; 47; 98] [120; 97; 120; 95; 47; 98; 121] = false
  /\ op_match Contains false None [97; 37; 95; 47; 98] [120; 97; 120; 120; 120; 47; 98; 121] = true.
Proof. vm_compute. repeat split; reflexivity. Qed.
(* case-insensitive: istartswith("A_", autoescape=True) on "a_B" but not on "axB" *)
Example c08_ex_ci : op_match IStartswith true None [65; 95] [97; 95; 66] = true
  /\ op_match IStartswith true None [65; 95] [97; 120; 66] = false
  /\ op_match Startswith true None [65; 95] [97; 95; 66] = false.
Proof. vm_compute. repeat split; reflexivity. Qed.
(* plain_ok is satisfiable, also with an escape character *)
Example c08_ex_plain : plain_ok (Some slash) (fold_case IEndswith [65; 39; 92]) = true
  /\ op_match IEndswith false (Some slash) [65; 39; 92] [120; 97; 39; 92] = true.
Proof. vm_compute. split; reflexivity. Qed.
(* with escape="%" the wrapped pattern of contains("a") ends in a dangling escape character *)
Example c08_ex_illformed : op_pattern Contains true (Some pct) [97] = [37; 97; 37]
  /\ wf_pattern pct (op_pattern Contains true (Some pct) [97]) = false
  /\ wf_pattern slash (op_pattern IContains true None [65; 37; 47]) = true.
Proof. vm_compute. repeat split; reflexivity. Qed.
