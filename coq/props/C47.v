(* C47 - with autoflush on, queries see all pending changes.
   Statements only; every proof is [exact <lemma>] / a one-line application.

   [run ops (init pr cr af nc0 np0)]: the Session after any history of pending changes (add child, add
   parent, set val, re-parent, delete), explicit flushes and queries on tables holding [pr] / [cr]. *)
From Coq Require Import List ZArith NArith Bool String.
Import ListNotations.
From SAV.orm Require Import Autoflush AutoflushProofs AutoflushWf AutoflushSites.

Definition rows_below (cr : rows) (n : N) : Prop := forall i r, row_get i cr = Some r -> (i < n)%N.

(* GUARDED: with autoflush enabled (session flag on, not inside no_autoflush, no autoflush=False option on an
   ORM statement, not inside a flush) every entry point - ORM select, column select, count, Core select,
   scalars, scalar (ORM / Core / text()), execute(text()), legacy Query, get, many-to-one lazy load, collection load, refresh - returns exactly what it
   returns after an explicit flush.  [guardq]: lazy / collection loads are issued on a persistent object,
   get does not hit an object marked deleted, refresh is issued on an object without changes of its own. *)
Theorem c47_autoflush_equiv_explicit_flush_guarded : forall pr cr af nc0 np0 ops, rows_below cr nc0 ->
  let s := run ops (init pr cr af nc0 np0) in
  forall k m a, enabled k m s = true -> guardq k a s = true ->
  snd (exec k m a s) = snd (exec k m a (flush s)).
Proof.
  intros pr cr af nc0 np0 ops H s k m a.
  exact (autoflush_equiv_explicit_flush k m a s (wf_nodup s (wf_run ops _ (wf_init pr cr af nc0 np0 H)))).
Qed.
Print Assumptions c47_autoflush_equiv_explicit_flush_guarded.

(* DOCUMENTED, outside the property: no load is emitted for a PENDING object (relationship.load_on_pending is
   False by default), so attribute access on it returns None / [] without SQL and without autoflush, whereas
   after a flush the (then persistent) object loads the related object(s).  No lazy load is "executed" there;
   this theorem only records that the guard of the main theorem cannot be dropped for such accesses. *)
Theorem c47_no_load_emitted_for_pending_object :
  (exists ops, let s := run ops (init [1%N] [] true 1 2) in
     enabled LazyP MDefault s = true /\ snd (exec LazyP MDefault 1 s) <> snd (exec LazyP MDefault 1 (flush s))) /\
  (exists ops, let s := run ops (init [1%N] [(1%N, (10%Z, 1%N))] true 2 2) in
     enabled Children MDefault s = true /\ snd (exec Children MDefault 2 s) <> snd (exec Children MDefault 2 (flush s))).
Proof.
  split.
  - exists [AddC 10 1]. vm_compute. split; [reflexivity|discriminate].
  - exists [Query Get MDefault 1; AddP; SetPid 1 2]. vm_compute. split; [reflexivity|discriminate].
Qed.
Print Assumptions c47_no_load_emitted_for_pending_object.

(* the statement-executing entry points run on the flushed state: the query itself is evaluated exactly as
   with autoflush off on [flush s] *)
Theorem c47_query_runs_on_flushed_state : forall k m a s, enabled k m s = true ->
  match k with SelEnt | SelCol | Count | Core | Scalars | Legacy | ScalarCore | ScalarText | ExecText | ScalarOrm | ScalarsCore => True | _ => False end ->
  exec k m a s = exec k MNoAutoflushBlock a (flush s).
Proof.
  intros k m a s E K. destruct k; try contradiction; unfold exec, autoflush_then; rewrite E; reflexivity.
Qed.
Print Assumptions c47_query_runs_on_flushed_state.

(* ... and the flushed tables reflect every pending add, modification, re-parent and delete: row i of
   table c after the flush is what the session's object i says (pending: its values; deleted: no row;
   modified: its values; otherwise the stored row) *)
Theorem c47_flush_applies_every_pending_change : forall pr cr af nc0 np0 ops, rows_below cr nc0 ->
  let s := run ops (init pr cr af nc0 np0) in
  forall i, row_get i (dbc (flush s)) = logical s i.
Proof.
  intros pr cr af nc0 np0 ops H s i.
  exact (flush_applies_pending s i (wf_nodup s (wf_run ops _ (wf_init pr cr af nc0 np0 H)))).
Qed.
Print Assumptions c47_flush_applies_every_pending_change.

Theorem c47_flush_idempotent : forall s, flush (flush s) = flush s.
Proof. exact flush_idem. Qed.
Print Assumptions c47_flush_idempotent.

(* autoflush off (Session(autoflush=False), a no_autoflush block, the autoflush=False option on an ORM
   statement, or while flushing): the entry point writes nothing *)
Theorem c47_disabled_writes_nothing : forall k m a s, enabled k m s = false ->
  dbc (fst (exec k m a s)) = dbc s /\ dbp (fst (exec k m a s)) = dbp s.
Proof. exact disabled_writes_nothing. Qed.
Print Assumptions c47_disabled_writes_nothing.

(* object ids stay unique and a pending object has no row, over every history *)
Theorem c47_session_well_formed : forall pr cr af nc0 np0 ops, rows_below cr nc0 ->
  WF (run ops (init pr cr af nc0 np0)).
Proof. intros pr cr af nc0 np0 ops H. exact (wf_run ops _ (wf_init pr cr af nc0 np0 H)). Qed.
Print Assumptions c47_session_well_formed.

(* T1: for every table of references extracted from the source that passes the boolean check [covers]
   (per-run obligation gen_covers), each documented entry point reaches a function that calls
   Session._autoflush through its call chain *)
Theorem c47_entry_points_total : forall t, covers t = true ->
  forall e, In e documented -> exists ch, chain_of e = Some ch /\ chain_valid t ch = true.
Proof. exact entry_points_total. Qed.
Print Assumptions c47_entry_points_total.

(* ---- non-vacuity ---- *)
Example c47_ex_rows_below : rows_below [(1%N, (10%Z, 1%N)); (2%N, (20%Z, 0%N))] 3.
Proof.
  intros i r H. cbn [row_get] in H.
  destruct (N.eqb_spec 1 i) as [<-|]; [exact eq_refl|]. destruct (N.eqb_spec 2 i) as [<-|]; [exact eq_refl|discriminate].
Qed.
(* child 1 loaded and modified, a child added, child 2 re-parented and another deleted: every query kind is
   enabled and inside the guard; the entity query sees all of it *)
Definition ex_s : st :=
  run [Query Get MDefault 1; Query Get MDefault 2; Query GetP MDefault 1; SetVal 1 25; AddC 15 1; SetPid 2 1]
      (init [1%N] [(1%N, (10%Z, 1%N)); (2%N, (20%Z, 0%N))] true 3 2).
Example c47_ex_guard : forallb (fun k => enabled k MDefault ex_s && guardq k 1 ex_s)
  [SelEnt; SelCol; Count; Core; LazyP; Children; GetP; Legacy; Scalars; ScalarCore; ScalarText; ExecText; ScalarOrm; ScalarsCore] = true /\ guardq Get 7 ex_s = true.
Proof. vm_compute. split; reflexivity. Qed.
Example c47_ex_sees_pending :
  snd (exec SelCol MDefault 1 ex_s) = [[1; 25]; [2; 20]; [3; 15]]%Z /\
  snd (exec SelCol MNoAutoflushBlock 1 ex_s) = [[1; 10]]%Z.
Proof. vm_compute. split; reflexivity. Qed.
Example c47_ex_chain : chain_valid
  [("session.Session.refresh", ["_autoflush"; "_load_on_ident"])]%string [("session.Session.refresh", "refresh")]%string = true.
Proof. reflexivity. Qed.
