(* C47 placeholder *)
From SAV.orm Require Import Autoflush AutoflushSites.
