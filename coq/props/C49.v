(* C49 - mutable column values propagate in-place changes to the database.
   Statements only; every proof is [exact <lemma>].

   ov : kind -> list meth     per Mutable class, the methods that call self.changed() (regenerated from
                              the source on every run; the per-run file instantiates the theorems)
   covers_all ov = true       every in-place mutator of dict / list / set is among them (T1 obligation)
   run ord ov ops w           the model of coq/orm/Mutable.v: session instances of two rows, unpickled
                              copies, a saved value reference; operations Mut / SetPlain / Save / SetH /
                              Flush / Commit / Rollback / Expire / Refresh / Pickle / Merge
   in_sync w r                the session instance of row r, if not flagged modified, holds the database value
   stored w r                 the in-memory value of row r equals the database value (Python ==)
   guarded                    excludes (a) mutating a value object recorded as the original in a
                              committed_state, (b) changed() reaching a parent whose attribute is not loaded *)
From Coq Require Import List ZArith Bool Arith.
Import ListNotations.
From SAV.orm Require Import Mutable MutableProofs MutableWitness.
Local Open Scope nat_scope.

(* value changed -> parent flagged modified: for every table covering the builtin mutators and every
   guarded history, an instance that is not flagged holds exactly what the database holds *)
Theorem c49_covers_all_mutators_guarded : forall ord ov, covers_all ov = true ->
  forall d0 d1 ops, guarded ord ov ops (init_world d0 d1) = true ->
  forall r, r < 2 -> in_sync (run ord ov ops (init_world d0 d1)) r.
Proof. exact covers_all_mutators. Qed.
Print Assumptions c49_covers_all_mutators_guarded.

Theorem c49_flush_stores_in_memory_value_guarded : forall ord ov, covers_all ov = true ->
  forall d0 d1 ops, guarded ord ov (ops ++ [Flush]) (init_world d0 d1) = true ->
  forall r, r < 2 -> stored (run ord ov (ops ++ [Flush]) (init_world d0 d1)) r.
Proof. exact flush_stores_in_memory_value. Qed.
Print Assumptions c49_flush_stores_in_memory_value_guarded.

(* the underlying invariant, in particular parent tracking: whoever holds a value object (session
   instance or unpickled copy) is among its _parents, through set / load / refresh / pickle / merge *)
Theorem c49_parent_tracking_guarded : forall ord ov, covers_all ov = true ->
  forall d0 d1 ops, guarded ord ov ops (init_world d0 d1) = true ->
  let w := run ord ov ops (init_world d0 d1) in
  forall p o, slot (objs w p) = Pres (Some o) -> In p (vpar (heap w o)).
Proof. exact (fun ord ov C d0 d1 ops G => iI _ (inv_run ord ov C ops _ (inv_init d0 d1) G)). Qed.
Print Assumptions c49_parent_tracking_guarded.

(* the side condition is necessary: a single mutator that does not notify loses a change *)
Theorem c49_covers_necessary : forall k m ov,
  In m (in_place_mutators k) -> memb m (ov k) = false ->
  exists c o, kind_of c = k /\ meth_of o = m /\
    guarded ord_id ov [Mut (TSess 0) o] (init_world (Some c) None) = true /\
    ~ in_sync (run ord_id ov [Mut (TSess 0) o] (init_world (Some c) None)) 0.
Proof. exact covers_necessary. Qed.
Print Assumptions c49_covers_necessary.

(* the state of the source before commit eb5f802 (no MutableDict.__ior__, no MutableList.__imul__) *)
Theorem c49_dict_ior_before_eb5f802_refuted :
  exists c o, kind_of c = KDict /\ meth_of o = M_ior /\
    guarded ord_id ov_before_eb5f802 [Mut (TSess 0) o] (init_world (Some c) None) = true /\
    ~ in_sync (run ord_id ov_before_eb5f802 [Mut (TSess 0) o] (init_world (Some c) None)) 0.
Proof. exact (covers_necessary KDict M_ior ov_before_eb5f802
                (or_intror (or_intror (or_intror (or_intror (or_intror (or_intror (or_intror (or_introl eq_refl))))))))
                eq_refl). Qed.
Print Assumptions c49_dict_ior_before_eb5f802_refuted.

Theorem c49_list_imul_before_eb5f802_refuted :
  exists c o, kind_of c = KList /\ meth_of o = M_imul /\
    guarded ord_id ov_before_eb5f802 [Mut (TSess 0) o] (init_world (Some c) None) = true /\
    ~ in_sync (run ord_id ov_before_eb5f802 [Mut (TSess 0) o] (init_world (Some c) None)) 0.
Proof. exact (covers_necessary KList M_imul ov_before_eb5f802
                (or_intror (or_intror (or_intror (or_intror (or_intror (or_intror (or_intror (or_intror
                  (or_intror (or_intror (or_intror (or_introl eq_refl))))))))))))
                eq_refl). Qed.
Print Assumptions c49_list_imul_before_eb5f802_refuted.

(* region (a): v = obj.data; obj.data = None; v[1] = 2; obj.data = v; flush - the UPDATE is skipped
   because the recorded original IS the (mutated) current value *)
Theorem c49_reattached_value_refuted :
  covers_all ov_full = true /\
  guarded ord_id ov_full hist_reattach (init_world (Some (CD [(0, 1)]%Z)) None) = false /\
  slot (objs w_reattach 0) = Pres (Some 0) /\
  vcont (heap w_reattach 0) = CD [(0, 1); (1, 2)]%Z /\
  db w_reattach 0 = Some (CD [(0, 1)]%Z) /\
  ~ stored w_reattach 0.
Proof. exact reattach_refuted. Qed.
Print Assumptions c49_reattached_value_refuted.

(* region (b): a value shared by two rows, one of them expired: append raises InvalidRequestError
   after the list was changed and the loaded row is never flagged *)
Theorem c49_shared_value_expired_parent_refuted :
  guarded ord_id ov_full hist_shared (init_world (Some (CL [1]%Z)) None) = false /\
  snd (step ord_id ov_full
         (run ord_id ov_full [Save (TSess 0); SetH (TSess 1); Flush; Expire 0] (init_world (Some (CL [1]%Z)) None))
         (Mut (TSess 1) (OL (CollList.LAppend 7%Z)))) = rc_invalid /\
  slot (objs w_shared 1) = Pres (Some 0) /\
  vcont (heap w_shared 0) = CL [1; 7]%Z /\
  db w_shared 1 = Some (CL [1]%Z) /\
  pmod (objs w_shared 1) = false /\
  ~ in_sync w_shared 1.
Proof. exact shared_expired_refuted. Qed.
Print Assumptions c49_shared_value_expired_parent_refuted.

(* the hypotheses are satisfiable: a guarded history through mutation, pickling, merging, sharing,
   expiry and reload, ending in a flush that writes *)
Example c49_guarded_history_example :
  let ops := [Mut (TSess 0) (OL (CollList.LAppend 7%Z)); Pickle 0; Mut (TCopy 0) (OLSort true); Merge 0;
              Save (TSess 0); SetH (TSess 1); Mut THandle (OL (CollList.LIMul 2%Z)); Flush; Expire 1;
              Refresh 0; Mut (TSess 1) (OL CollList.LReverse)] in
  covers_all ov_full = true /\
  guarded ord_id ov_full (ops ++ [Flush]) (init_world (Some (CL [1; 3]%Z)) None) = true /\
  db (run ord_id ov_full (ops ++ [Flush]) (init_world (Some (CL [1; 3]%Z)) None)) 1
    = Some (CL [1; 3; 7; 1; 3; 7]%Z).
Proof. vm_compute. repeat split; reflexivity. Qed.
