(* C25 - the pool never hands one connection to two holders and respects its limits.
   All statements quantify over every reachable state of the interleaving model, i.e. over every
   schedule of any number of threads (reach c st := exists n trace, run (init n) trace = Some st). *)
From Coq Require Import List ZArith Bool Arith.
Import ListNotations.
From SAV.engine Require Import PoolConc PoolConcProofs.
Open Scope Z_scope.

(* no DBAPI connection is held by two checkouts at the same time - every configuration, including
   max_overflow = -1 and LIFO *)
Theorem c25_no_double_hold : forall c s ts, reach c (s, ts) ->
  forall i j x, owns (nth_error ts i) x -> owns (nth_error ts j) x -> i = j.
Proof. exact no_double_hold. Qed.
Print Assumptions c25_no_double_hold.

(* a held connection is never also idle in the queue *)
Theorem c25_idle_not_held : forall c s ts, reach c (s, ts) ->
  forall i x, owns (nth_error ts i) x -> ~ In x (queue s).
Proof. exact idle_not_held. Qed.
Print Assumptions c25_idle_not_held.

(* never more than pool_size + max_overflow connections open *)
Theorem c25_open_bound : forall c, 0 <= pool_size c -> 0 <= max_overflow c ->
  forall s ts, reach c (s, ts) -> Z.of_nat (length (opened s)) <= pool_size c + max_overflow c.
Proof. exact open_bound. Qed.
Print Assumptions c25_open_bound.

(* never more than pool_size idle *)
Theorem c25_idle_bound : forall c, 0 <= pool_size c -> 0 <= max_overflow c ->
  forall s ts, reach c (s, ts) -> qlen s <= pool_size c.
Proof. exact idle_bound. Qed.
Print Assumptions c25_idle_bound.

(* checkedout() equals the number of live checkouts whenever no thread is inside a pool operation *)
Theorem c25_checkedout_exact : forall c, 0 <= pool_size c -> 0 <= max_overflow c ->
  forall s ts, reach c (s, ts) -> quiescent ts -> pool_size c - qlen s + overflow s = hlen s.
Proof. exact checkedout_exact. Qed.
Print Assumptions c25_checkedout_exact.

(* safety form of "a checkout that waits is served by a connection returned before its timeout" *)
Theorem c25_waiter_served_partial : forall c s ts i, nth_error ts i = Some GW -> queue s <> [] ->
  stepf c (s, ts) (EQEmpty i) = None /\ stepf c (s, ts) (EQWait i) = None /\
  exists x st', stepf c (s, ts) (EQGet i x) = Some st'.
Proof. exact waiter_served_partial. Qed.
Print Assumptions c25_waiter_served_partial.

(* max_overflow = -1 : the unlocked "+= 1" can lose an update; after both threads hold a connection
   and nobody is inside the pool, checkedout() = 1 but two connections are checked out *)
Definition c25_cfg_unbounded : cfg := {| pool_size := 1; max_overflow := -1; lifo := false |}.
Definition c25_lost_update : list ev :=
  [EStart 0; EQEmpty 0; EStart 1; EQEmpty 1; EURd 0 (-1); EURd 1 (-1); EUWr 0 0; EUWr 1 0;
   ECreate 0 10%nat true; ECreate 1 11%nat true].
Theorem c25_checkedout_unbounded_refuted :
  exists s ts, run c25_cfg_unbounded (init c25_cfg_unbounded 2) c25_lost_update = Some (s, ts) /\
    quiescent ts /\ pool_size c25_cfg_unbounded - qlen s + overflow s = 1 /\ hlen s = 2.
Proof.
  eexists. eexists. split; [vm_compute; reflexivity|]. split; [|split; vm_compute; reflexivity].
  intros p Hp. cbn in Hp. destruct Hp as [<-|[<-|[]]]; right; eexists; reflexivity.
Qed.
Print Assumptions c25_checkedout_unbounded_refuted.

(* non-vacuity: a FIFO pool of size 1 with overflow 1, two threads, one waits and is served *)
Definition c25_cfg_ex : cfg := {| pool_size := 1; max_overflow := 0; lifo := false |}.
Example c25_example_reach :
  exists st, run c25_cfg_ex (init c25_cfg_ex 2)
    [EStart 0; ERd1 0 (-1); EQEmpty 0; ERd2 0 (-1); EInc 0 true; ECreate 0 7%nat true;
     EStart 1; ERd1 1 0; EQWait 1; ERelease 0; EQPut 0; EQGet 1 7%nat] = Some st.
Proof. eexists. vm_compute. reflexivity. Qed.
