(* C33 - Session commit/rollback/savepoint keep the session consistent with the database.
   Statements only; every proof is [exact <lemma>]. *)
From Coq Require Import List ZArith Bool Arith.
Import ListNotations.
From SAV.orm Require Import SessTxn SessTxnSpec SessTxnSM SessTxnRefuted.

(* ---- state_machine_closed: for EVERY history (no guard), every operation
   - never ends in IllegalStateChangeError (each decorated method ends in the state it declares),
   - leaves every transaction on the stack ACTIVE, except possibly the innermost one which may be
     DEACTIVE (ids strictly decreasing outwards: no transaction is ever re-entered),
   - moves every existing transaction only along ACTIVE -> DEACTIVE -> CLOSED (a transaction that left
     the stack is CLOSED). *)
Theorem c33_state_machine_closed : forall e st p r st',
  Reach e st -> do_op p st = (r, st') -> r <> Unmodelled ->
  r <> Err E_ILLEGAL /\
  Kwf (nfid st') (stk st') /\
  (forall n, (n < nfid st)%nat -> allowed (frame_state st n) (frame_state st' n)).
Proof. exact sm_transitions. Qed.
Print Assumptions c33_state_machine_closed.

(* illegal calls raise the documented error and change nothing: commit needs ACTIVE/PREPARED, rollback
   ACTIVE/DEACTIVE/PREPARED, a flush (hence begin_nested, refresh, commit) an ACTIVE innermost transaction *)
Theorem c33_illegal_commit_raises : forall st h n, nth_error (handles st) h = Some (Some n) ->
  prereq_ok M_commit (frame_state st n) = false ->
  exists c, do_op (OTCommit h) st = (Err c, st) /\ (c = E_INV \/ c = E_PENDING \/ c = E_CLOSED).
Proof. exact sm_illegal_commit. Qed.
Print Assumptions c33_illegal_commit_raises.

Theorem c33_illegal_rollback_raises : forall st h n, nth_error (handles st) h = Some (Some n) ->
  prereq_ok M_rollback (frame_state st n) = false ->
  exists c, do_op (OTRollback h) st = (Err c, st) /\ (c = E_INV \/ c = E_PENDING \/ c = E_CLOSED).
Proof. exact sm_illegal_rollback. Qed.
Print Assumptions c33_illegal_rollback_raises.

Theorem c33_illegal_flush_raises : forall st f rest, stack st = f :: rest -> prereq_ok M_begin (fstate f) = false ->
  is_clean st = false ->
  exists c, do_op OFlush st = (Err c, st) /\ (c = E_INV \/ c = E_PENDING \/ c = E_CLOSED).
Proof. exact sm_illegal_flush. Qed.
Print Assumptions c33_illegal_flush_raises.

Example c33_ex_prereq : prereq_ok M_commit DEACTIVE = false /\ prereq_ok M_rollback DEACTIVE = true /\
  prereq_ok M_rollback CLOSED = false /\ prereq_ok M_begin DEACTIVE = false.
Proof. vm_compute. repeat split. Qed.

(* ---- session_agrees_with_db_after_each_boundary: REFUTED for the unrestricted alphabet: five
   histories (one per defect of the implementation), each ending in a successful commit/rollback after
   which [agrees] is false; each leaves the guard of the guarded theorem *)
Theorem c33_session_agrees_with_db_after_each_boundary_refuted : forall ps, In ps witnesses ->
  is_boundary (last ps OFlush) = true /\ fst (final true ps) = Ok /\ agrees (snd (final true ps)) = false /\
  first_unguarded (sess0 true) ps 0 <> None.
Proof. exact agreement_refuted. Qed.
Print Assumptions c33_session_agrees_with_db_after_each_boundary_refuted.
