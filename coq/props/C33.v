(* C33 - Session commit/rollback/savepoint keep the session consistent with the database.
   Statements only; every proof is [exact <lemma>]. *)
From Coq Require Import List ZArith Bool Arith.
Import ListNotations.
From SAV.orm Require Import SessTxn SessTxnSpec SessTxnSM SessTxnRefuted SessTxnInv SessTxnCore SessTxnMain SessTxnLaws.

(* ---- state_machine_closed: for EVERY history (no guard), every operation
   - never ends in IllegalStateChangeError (each decorated method ends in the state it declares),
   - leaves every transaction on the stack ACTIVE, except possibly the innermost one which may be
     DEACTIVE (ids strictly decreasing outwards: no transaction is ever re-entered),
   - moves every existing transaction only along ACTIVE -> DEACTIVE -> CLOSED (a transaction that left
     the stack is CLOSED). *)
Theorem c33_state_machine_closed : forall e st p r st',
  Reach e st -> do_op p st = (r, st') -> r <> Unmodelled ->
  r <> Err E_ILLEGAL /\
  Kwf (nfid st') (stk st') /\
  (forall n, (n < nfid st)%nat -> allowed (frame_state st n) (frame_state st' n)).
Proof. exact sm_transitions. Qed.
Print Assumptions c33_state_machine_closed.

(* illegal calls raise the documented error and change nothing: commit needs ACTIVE/PREPARED, rollback
   ACTIVE/DEACTIVE/PREPARED, a flush (hence begin_nested, refresh, commit) an ACTIVE innermost transaction *)
Theorem c33_illegal_commit_raises : forall st h n, nth_error (handles st) h = Some (Some n) ->
  prereq_ok M_commit (frame_state st n) = false ->
  exists c, do_op (OTCommit h) st = (Err c, st) /\ (c = E_INV \/ c = E_PENDING \/ c = E_CLOSED).
Proof. exact sm_illegal_commit. Qed.
Print Assumptions c33_illegal_commit_raises.

Theorem c33_illegal_rollback_raises : forall st h n, nth_error (handles st) h = Some (Some n) ->
  prereq_ok M_rollback (frame_state st n) = false ->
  exists c, do_op (OTRollback h) st = (Err c, st) /\ (c = E_INV \/ c = E_PENDING \/ c = E_CLOSED).
Proof. exact sm_illegal_rollback. Qed.
Print Assumptions c33_illegal_rollback_raises.

Theorem c33_illegal_flush_raises : forall st f rest, stack st = f :: rest -> prereq_ok M_begin (fstate f) = false ->
  is_clean st = false ->
  exists c, do_op OFlush st = (Err c, st) /\ (c = E_INV \/ c = E_PENDING \/ c = E_CLOSED).
Proof. exact sm_illegal_flush. Qed.
Print Assumptions c33_illegal_flush_raises.

Example c33_ex_prereq : prereq_ok M_commit DEACTIVE = false /\ prereq_ok M_rollback DEACTIVE = true /\
  prereq_ok M_rollback CLOSED = false /\ prereq_ok M_begin DEACTIVE = false.
Proof. vm_compute. repeat split. Qed.

(* ---- session_agrees_with_db_after_each_boundary: REFUTED for the unrestricted alphabet: three
   histories (expire_on_commit, operations), one per remaining defect of the implementation, each ending
   in a successful commit/rollback after which [agrees] is false; each leaves the guard of the guarded
   theorem *)
Theorem c33_session_agrees_with_db_after_each_boundary_refuted : forall w, In w witnesses ->
  is_boundary (last (snd w) OFlush) = true /\ fst (final (fst w) (snd w)) = Ok /\
  agrees (snd (final (fst w) (snd w))) = false /\
  first_unguarded (sess0 (fst w)) (snd w) 0 <> None.
Proof. exact agreement_refuted. Qed.

(* the witnesses of the three repaired defects (key-switch merge f8f802f, stale _deleted flag 0c90c34,
   close() and deleted objects 9732dc8) are guarded histories now and end in agreement *)
Example c33_ex_repaired_witnesses_agree : forall ps, In ps repaired ->
  fst (final true ps) = Ok /\ agrees (snd (final true ps)) = true /\ first_unguarded (sess0 true) ps 0 = None.
Proof. exact repaired_agree. Qed.
Print Assumptions c33_session_agrees_with_db_after_each_boundary_refuted.

(* ---- session_agrees_with_db_after_each_boundary, GUARDED: for EVERY history whose operations pass
   the guard (SessTxnSpec.guard: outside the five defective regions g1 g2 g3 g5 g6, object operations not
   while a failed flush waits for its rollback) and stay inside the model:
   after EVERY operation - not only at the boundaries - every persistent object has its row in the
   transaction's view of the database and its loaded, unmodified attribute values equal that row, and no
   object is in the deleted state while its row exists ([agrees]); after every successful
   Session.commit / Session.rollback / handle.commit / handle.rollback nothing is pending, modified or
   marked for deletion *)
Theorem c33_session_agrees_with_db_after_each_boundary_guarded : forall e st p r st',
  GReach e st -> guard st p = true -> do_op p st = (r, st') -> r <> Unmodelled ->
  agrees st' = true /\
  (is_boundary p = true -> r = Ok -> is_clean st' = true /\ no_pending st' = true).
Proof. exact agreement_guarded. Qed.
Print Assumptions c33_session_agrees_with_db_after_each_boundary_guarded.

(* the invariant behind it (objects vs rows, every open transaction vs its snapshot, the savepoint stack
   of the database vs the stack of transactions) holds in every state of a guarded history *)
Theorem c33_guarded_histories_keep_the_invariant : forall e st, GReach e st -> Inv st.
Proof. exact greach_inv. Qed.
Print Assumptions c33_guarded_histories_keep_the_invariant.

(* ---- outer_commits_eq_nested_reference, the part that is proven (for guarded histories):
   (a) the rows other connections see change only when the outermost transaction is committed: by
       Session.commit() - or by a handle.commit() that leaves no transaction open, which cannot happen for
       begin_nested handles (not proven, hence the disjunct);
   (b) a successful Session.commit() publishes exactly the rows the session's own connection sees, and no
       transaction and no savepoint survives it;
   (c) Session.rollback() always succeeds, restores the committed rows on the connection and leaves
       neither transaction nor savepoint;
   (d) in every state the savepoint stack of the database (engine/RefDb.v snapshot-stack semantics, the
       commands are transcribed in SessTxn.v) is exactly the list of the session's live begin_nested
       transactions that hold a connection, innermost first: SAVEPOINT / RELEASE / ROLLBACK TO keep the
       two stacks in step.
   Not proven here: that the rows written by a flush are exactly the pending object changes (the value
   side of the nested-transaction reference semantics); that is compared on the implementation after
   every operation (specs/c33.py oracle: commit / release / rollback laws on the user-visible table). *)
Theorem c33_outer_commits_eq_nested_reference_partial :
  (forall e st p r st', GReach e st -> guard st p = true -> do_op p st = (r, st') -> r <> Unmodelled -> p <> OCommit ->
     committed st' = committed st \/ (exists h, p = OTCommit h /\ r = Ok /\ stack st' = [])) /\
  (forall e st r st', GReach e st -> guard st OCommit = true -> do_op OCommit st = (r, st') -> r = Ok ->
     stack st' = [] /\ saves st' = [] /\ committed st' = work st' /\ is_clean st' = true) /\
  (forall e st, GReach e st ->
     exists st', do_op ORollback st = (Ok, st') /\ stack st' = [] /\ saves st' = [] /\
       committed st' = committed st /\ work st' = committed st /\ is_clean st' = true) /\
  (forall e st, GReach e st -> map fst (saves st) = map fid (filter live_conn (stack st))).
Proof. exact db_laws. Qed.
Print Assumptions c33_outer_commits_eq_nested_reference_partial.
