(* C50 - ordering lists and association proxies behave as their collection types.
   Statements only; every proof is [exact <lemma>].

   ol_step base roa attached   one OrderingList operation (count_from = base, reorder_on_append = roa;
                               attached = the list is a relationship's collection, i.e. instrumented)
   Good base s                 positions_eq_indices: forall i, pos (nth i l) = base + i, and no entity twice
   reload s                    the members in ORDER BY position (what is read back after a flush)
   pl_step / ps_step / pd_step one operation of _AssociationList / _AssociationSet / _AssociationDict
   to_list / to_dict           the view  map getter intermediaries
   plop_ref / psop_ref / pdop_ref  the same operation on the builtin list / set / dict (C38 reference) *)
From Coq Require Import List ZArith Bool Arith.
Import ListNotations.
From SAV.base Require Import PySlice.
From SAV.orm Require Import CollBase CollList CollSet CollDict OrderingList OrderingListProofs
  AssocProxy AssocProxyProofs AssocProxyWitness.
Open Scope Z_scope.

(* ============================== ordering list ============================== *)
(* positions_eq_indices after EVERY guarded operation of an attached list: append / insert / remove /
   pop / l[i] = e (any index) / slice assignment (any slice) / del l[i] / del l[sl] / extend / += /
   clear / reorder; for every count_from and both reorder_on_append settings *)
Theorem c50_positions_eq_indices_guarded : forall base roa s o,
  Good base s -> ol_guard roa s o = true -> Good base (snd (ol_step base roa true s o)).
Proof. exact good_step. Qed.
Print Assumptions c50_positions_eq_indices_guarded.

Theorem c50_positions_eq_indices_history_guarded : forall base roa ops,
  ol_guarded base roa true ops ol_empty = true -> Good base (ol_run base roa true ops ol_empty).
Proof. exact (fun base roa ops => positions_eq_indices base roa ops ol_empty (good_empty base)). Qed.
Print Assumptions c50_positions_eq_indices_history_guarded.

(* "persists that order": when positions equal indices, ORDER BY position reads the list back *)
Theorem c50_persisted_order : forall base s, ordered base s -> reload s = items s.
Proof. exact reload_is_list. Qed.
Print Assumptions c50_persisted_order.

(* the excluded regions *)
(* repaired by 60dfe78: a negative index is no longer excluded by the guard *)
Example c50_setitem_negative_index_fixed :
  ol_guard false (ol3 false) (OSetItem (-1) 7) = true /\
  show (snd (ol_step 0 false true (ol3 false) (OSetItem (-1) 7))) = [(0, Some 0); (1, Some 1); (7, Some 2)].
Proof. exact setitem_negative_fixed. Qed.

Theorem c50_reverse_refuted :
  ol_guard false (ol3 false) OReverse = false /\
  show (snd (ol_step 0 false true (ol3 false) OReverse)) = [(2, Some 2); (1, Some 1); (0, Some 0)].
Proof. exact reverse_refuted. Qed.
Print Assumptions c50_reverse_refuted.

Theorem c50_sort_refuted :
  let s := snd (ol_step 0 false true (ol3 false) (OInsert 0 9)) in
  ol_guard false s OSort = false /\
  show (snd (ol_step 0 false true s OSort)) = [(0, Some 1); (1, Some 2); (2, Some 3); (9, Some 0)].
Proof. exact sort_refuted. Qed.
Print Assumptions c50_sort_refuted.

Theorem c50_imul_refuted :
  ol_guard false (ol3 false) (OIMul 2) = false /\
  show (snd (ol_step 0 false true (ol3 false) (OIMul 2))) =
    [(0, Some 0); (1, Some 1); (2, Some 2); (0, Some 0); (1, Some 1); (2, Some 2)].
Proof. exact imul_refuted. Qed.
Print Assumptions c50_imul_refuted.

Theorem c50_append_positioned_refuted :
  let s := snd (ol_step 0 false true (ol3 false) (ORemove 0)) in
  ol_guard false s (OAppend 0) = false /\
  show (snd (ol_step 0 false true s (OAppend 0))) = [(1, Some 0); (2, Some 1); (0, Some 0)].
Proof. exact append_positioned_refuted. Qed.
Print Assumptions c50_append_positioned_refuted.

(* the class's own slice loop indexes `entities` by absolute position (bare instances only; an attached
   list never reaches it - the collections wrapper decomposes the assignment, see the guarded theorem) *)
Theorem c50_bare_setslice_refuted :
  let r := ol_step 0 false false (ol3 false) (OSetSlice (mkslice (Some 1) (Some 3) None) [8; 9]) in
  fst r = Raise IndexError /\ show (snd r) = [(0, Some 0); (9, Some 1); (2, Some 2)] /\
  py_setslice [0; 1; 2] (mkslice (Some 1) (Some 3) None) [8; 9] = Ok [0; 8; 9].
Proof. exact bare_setslice_refuted. Qed.
Print Assumptions c50_bare_setslice_refuted.

(* ============================== association proxies ============================== *)
(* proxy_is_view, list: every guarded operation is the builtin list's operation on the view
   (result class and contents), and keeps the intermediaries distinct *)
Theorem c50_proxy_list_is_view_guarded : forall s o, wf s -> pl_guard s o = true ->
  wf (snd (pl_step s o)) /\
  (fst (pl_step s o), to_list (snd (pl_step s o))) = plop_ref (to_list s) o.
Proof. exact proxy_list_is_view. Qed.
Print Assumptions c50_proxy_list_is_view_guarded.

(* repaired by 99130b4: slice assignment is inside the guarded theorem for EVERY slice *)
Example c50_proxy_list_setslice_fixed :
  let sl := mkslice (Some 1) (Some 10) None in
  pl_guard px3 (PSetSlice sl [7]) = true /\
  fst (pl_step px3 (PSetSlice sl [7])) = POk /\
  to_list (snd (pl_step px3 (PSetSlice sl [7]))) = [1; 7] /\
  plop_ref (to_list px3) (PSetSlice sl [7]) = (POk, [1; 7]).
Proof. exact proxy_setslice_fixed. Qed.
Example c50_proxy_list_setslice_negative_fixed :
  let sl := mkslice (Some (-2)) None None in
  pl_guard px3 (PSetSlice sl [7]) = true /\
  (fst (pl_step px3 (PSetSlice sl [7])), to_list (snd (pl_step px3 (PSetSlice sl [7])))) = (POk, [1; 7]) /\
  plop_ref (to_list px3) (PSetSlice sl [7]) = (POk, [1; 7]).
Proof. exact proxy_setslice_negative_fixed. Qed.

Theorem c50_proxy_list_imul_negative_refuted :
  pl_guard px3 (PIMul (-1)) = false /\
  to_list (snd (pl_step px3 (PIMul (-1)))) = [1; 2; 3] /\
  plop_ref (to_list px3) (PIMul (-1)) = (POk, []).
Proof. exact proxy_imul_negative_refuted. Qed.
Print Assumptions c50_proxy_list_imul_negative_refuted.

(* dict: every guarded operation (setitem / delitem / clear / pop / popitem / setdefault / update) *)
Theorem c50_proxy_dict_is_view_guarded : forall s o, wf s -> pd_guard s o = true ->
  wf (snd (pd_step s o)) /\
  (fst (pd_step s o), to_dict (snd (pd_step s o))) = pdop_ref (to_dict s) o.
Proof. exact proxy_dict_is_view. Qed.
Print Assumptions c50_proxy_dict_is_view_guarded.

(* repaired by f24ff68: pop(key, default) is inside the guarded theorem *)
Example c50_proxy_dict_pop_default_fixed :
  pd_guard pd1 (DPop 3 (Some 7)) = true /\
  pd_step pd1 (DPop 3 (Some 7)) = (DOk (Some 7), pd1) /\
  pdop_ref (to_dict pd1) (DPop 3 (Some 7)) = (DOk (Some 7), [(0, 5)]).
Proof. exact proxy_dict_pop_default_fixed. Qed.

(* set: add / discard / remove / clear / update / difference_update / |= / -= (partial: the bulk
   intersection and symmetric-difference operations are covered by the check only) *)
Theorem c50_proxy_set_is_view_partial : forall ord s o, wfs s -> ps_covered o = true ->
  wfs (snd (ps_step ord s o)) /\
  (fst (ps_step ord s o), to_list (snd (ps_step ord s o))) = psop_ref ord (to_list s) o.
Proof. exact proxy_set_is_view_partial. Qed.
Print Assumptions c50_proxy_set_is_view_partial.

(* whole-collection assignment obj.proxy = x (_bulk_replace): afterwards the view is the assigned
   collection, for EVERY old contents and every assigned value (list: case PAssign of
   c50_proxy_list_is_view_guarded; dict: as a mapping - new values of shared keys included; set: as a set) *)
Theorem c50_proxy_dict_assign_view : forall s m, wf s ->
  wf (pd_assign s m) /\
  forall k, d_get k (to_dict (pd_assign s m)) = d_get k (d_update [] m).
Proof. exact proxy_dict_assign_view. Qed.
Print Assumptions c50_proxy_dict_assign_view.

Theorem c50_proxy_set_assign_view : forall s vs, wfs s ->
  wfs (ps_assign s vs) /\ forall x, In x (to_list (ps_assign s vs)) <-> In x vs.
Proof. exact proxy_set_assign_view. Qed.
Print Assumptions c50_proxy_set_assign_view.

Example c50_dict_assign_example :
  to_dict (pd_assign (pd_setitem (pd_setitem px_empty 0 5) 1 6) [(1, 9); (2, 7)]) = [(1, 9); (2, 7)].
Proof. vm_compute. reflexivity. Qed.

(* the hypotheses are satisfiable *)
Example c50_guarded_history_example :
  let ops := [OAppend 7; OInsert 0 8; OSetSlice (mkslice (Some 1) (Some 3) None) [20; 21; 22]; ODelItem (-1);
              OSetItem 0 30; OExtend [31; 32]; OPop None; ORemove 20; ODelSlice (mkslice None None (Some 2)); OReorder] in
  ol_guarded 0 false true ops (ol3 false) = true /\
  show (ol_run 0 false true ops (ol3 false)) = [(21, Some 0); (2, Some 1)].
Proof. exact ol_guarded_example. Qed.
Example c50_wf_example : wf px3 /\ pl_guard px3 (PSetSlice (mkslice (Some 1) (Some 2) None) [7; 8]) = true.
Proof. split; [exact wf_px3|reflexivity]. Qed.
