(* C54 - utility collections conform to their reference models.
   Statements only; every proof is [exact <lemma>]. *)
From Coq Require Import List ZArith Bool.
Import ListNotations.
From SAV.util Require Import OrderedSet OrderedSetProofs IdentitySet IdentitySetProofs
  ImmDict ImmDictProofs LRU LRUProofs.
Open Scope Z_scope.

(* ===================== OrderedSet ===================== *)
(* the constructor, for every argument kind (set/dict taking the fast path, list with duplicates,
   iterator, another OrderedSet): invariant (NoDup _list, NoDup set, same elements) and the reference
   content *)
Theorem c54_oset_constructor : forall d, match d with Some a => wf_arg a | None => True end ->
  inv (oinit d) /\ ol (oinit d) = rinit d.
Proof. exact oinit_ref. Qed.
Print Assumptions c54_oset_constructor.

(* EVERY method, operator alias and argument kind: invariant preserved, _list = the reference
   (duplicate-free list) result, same return value / exception; returned sets satisfy the invariant *)
Theorem c54_oset_step_refines_reference : forall st op, inv st -> wf_op op ->
  inv (fst (ostep st op)) /\ ol (fst (ostep st op)) = fst (rstep (ol st) op) /\
  abs_ret (snd (ostep st op)) = snd (rstep (ol st) op) /\ ret_inv (snd (ostep st op)).
Proof. exact ostep_ref. Qed.
Print Assumptions c54_oset_step_refines_reference.

(* every history of any length *)
Theorem c54_oset_history : forall d ops,
  match d with Some a => wf_arg a | None => True end -> Forall wf_op ops ->
  let '(st, outs) := orun (oinit d) ops in
  let '(l, outs') := rrun (rinit d) ops in
  inv st /\ ol st = l /\ map abs_ret outs = outs' /\ Forall ret_inv outs.
Proof. exact oset_history. Qed.
Print Assumptions c54_oset_history.

(* the reference model IS "Python set contents + first-insertion order" *)
Theorem c54_ref_union_is_set_union : forall l seqs x,
  In x (r_update l seqs) <-> In x l \/ exists s, In s seqs /\ In x s.
Proof. exact r_update_In. Qed.
Print Assumptions c54_ref_union_is_set_union.
Theorem c54_ref_union_order_first_insertion : forall l seqs,
  r_update l seqs = l ++ unique_list (filter (fun a => negb (memz a l)) (concat seqs)).
Proof. exact r_update_closed. Qed.
Print Assumptions c54_ref_union_order_first_insertion.
Theorem c54_ref_intersection_is_set_intersection : forall l sets x,
  In x (r_inter l sets) <-> In x l /\ forall s, In s sets -> In x s.
Proof. exact r_inter_In. Qed.
Print Assumptions c54_ref_intersection_is_set_intersection.
Theorem c54_ref_difference_is_set_difference : forall l sets x,
  In x (r_diff l sets) <-> In x l /\ forall s, In s sets -> ~ In x s.
Proof. exact r_diff_In. Qed.
Print Assumptions c54_ref_difference_is_set_difference.
Theorem c54_ref_symmetric_difference_is_set_xor : forall l c x,
  In x (r_sym l c) <-> (In x l /\ ~ In x c) \/ (In x c /\ ~ In x l).
Proof. exact r_sym_In. Qed.
Print Assumptions c54_ref_symmetric_difference_is_set_xor.
(* survivors keep their order; for the symmetric difference the new elements follow in the order of
   their first occurrence in the argument *)
Theorem c54_ref_order_of_survivors : forall l sets c,
  r_inter l sets = filter (in_all sets) l /\ r_diff l sets = filter (in_none sets) l /\
  r_sym l c = filter (fun a => negb (memz a c)) l ++ unique_list (filter (fun a => negb (memz a l)) c).
Proof. intros; exact (conj eq_refl (conj eq_refl eq_refl)). Qed.
Print Assumptions c54_ref_order_of_survivors.
Theorem c54_ref_stays_duplicate_free : forall l op, NoDup l -> NoDup (fst (rstep l op)).
Proof. exact rstep_NoDup. Qed.
Print Assumptions c54_ref_stays_duplicate_free.
(* list.remove after set.remove always finds its element: no ValueError / TypeError escapes *)
Theorem c54_oset_no_internal_error : forall st op, inv st -> wf_op op ->
  snd (ostep st op) <> RExc ValueError /\ snd (ostep st op) <> RExc TypeError.
Proof. exact ostep_no_internal_error. Qed.
Print Assumptions c54_oset_no_internal_error.

(* the repaired defect (3021dc0): a duplicated iterable no longer duplicates members *)
Example c54_ex_symdiff_update_duplicates :
  ol (fst (ostep (oinit (Some (mka KList [1;2;3]))) (OSymUpd (mka KList [3;4;4;5])))) = [1;2;4;5].
Proof. vm_compute; reflexivity. Qed.
Example c54_ex_wf : wf_op (OInterUpd [mka KSet [1;2]; mka KList [2;2;7]; mka KSelf []]).
Proof. repeat constructor; simpl; intuition discriminate. Qed.

(* ===================== IdentitySet ===================== *)
(* every history: every key is the identity of the member stored under it, no identity twice, and
   contents / order / results are those of the reference model over identities (the set operations
   of the reference are the c54_ref_* theorems above; comparisons are subset tests) *)
Theorem c54_iset_history : forall valof objs ops,
  let '(m, outs) := irun valof (i_init objs) ops in
  let '(l, outs') := qrun (unique_list objs) ops in
  iinv m /\ map snd m = l /\ map abs_iret outs = outs' /\ Forall iret_inv outs.
Proof. exact iset_history. Qed.
Print Assumptions c54_iset_history.
(* members are told apart by identity only: their values (== / hash) never matter *)
Theorem c54_iset_values_irrelevant : forall valof valof' objs ops,
  irun valof (i_init objs) ops = irun valof' (i_init objs) ops.
Proof. exact iset_values_irrelevant. Qed.
Print Assumptions c54_iset_values_irrelevant.
Theorem c54_iset_subset_is_inclusion : forall l1 l2, subset l1 l2 = true <-> incl l1 l2.
Proof. exact subset_spec. Qed.
Print Assumptions c54_iset_subset_is_inclusion.

(* two equal-but-not-identical members are both kept *)
Example c54_ex_iset_equal_not_identical :
  snd (irun (fun _ => 0) (i_init [10; 11]) [ILen]) = [JNum 2].
Proof. vm_compute; reflexivity. Qed.
(* the repaired defect (3021dc0): a ^= b updates a in place *)
Example c54_ex_iset_ixor :
  map snd (fst (istep (fun _ => 0) (i_init [0; 1]) (IBin BSym FInOperator false (mkia IKISet [1; 2]))))
  = [0; 2].
Proof. vm_compute; reflexivity. Qed.

(* ===================== immutabledict ===================== *)
(* union / merge_with: whatever path _union_other takes (return self, return the only non-empty
   immutabledict, build a new one) the content is the right-biased merge of self with all arguments *)
Theorem c54_idict_union_is_merge : forall self others, wf_dict self ->
  fst (union_other self others) = fold_left merge (map content others) self.
Proof. exact union_other_is_merge. Qed.
Print Assumptions c54_idict_union_is_merge.
Theorem c54_idict_merge_right_biased : forall pairs d k,
  lookup k (merge d pairs) = match last_of k pairs with Some v => Some v | None => lookup k d end.
Proof. exact lookup_merge. Qed.
Print Assumptions c54_idict_merge_right_biased.
Theorem c54_idict_merge_key_order : forall d pairs,
  keys (merge d pairs) = keys d ++ unique_list (filter (fun k => negb (memz k (keys d))) (map fst pairs)).
Proof. exact merge_keys. Qed.
Print Assumptions c54_idict_merge_key_order.
Theorem c54_idict_or_is_merge : forall d ad a, wf_dict d -> is_dict a = true ->
  snd (dstep d (DOr ad a)) = VDict (merge d (content a)) (-1) /\
  snd (dstep d (DRor ad a)) = VDict (merge (content a) d) (-1).
Proof. exact or_is_merge. Qed.
Print Assumptions c54_idict_or_is_merge.
(* every mutator raises TypeError and leaves the dict unchanged ... *)
Theorem c54_idict_mutators_raise : forall d which, dstep d (DMutate which) = (d, VExc TypeError).
Proof. exact mutators_raise. Qed.
Print Assumptions c54_idict_mutators_raise.
(* ... and no history of operations whatsoever changes the receiver *)
Theorem c54_idict_never_mutated : forall ops d, forallb (fun op => negb (adopts op)) ops = true ->
  fst (drun d ops) = d.
Proof. exact never_mutated. Qed.
Print Assumptions c54_idict_never_mutated.
Theorem c54_idict_keys_stay_unique : forall ops d, wf_dict d -> wf_dict (fst (drun d ops)).
Proof. exact drun_wf. Qed.
Print Assumptions c54_idict_keys_stay_unique.

Example c54_ex_idict_union :
  union_other [(1, 1)] [mkd DNone []; mkd DPairs [(1, 5); (4, 4); (1, 6)]; mkd DImm [(3, 3)]]
  = ([(1, 6); (4, 4); (3, 3)], -1) /\
  union_other [] [mkd DDict []; mkd DImm [(3, 3)]] = ([(3, 3)], 2).
Proof. vm_compute; split; reflexivity. Qed.

(* ===================== LRUCache ===================== *)
(* after ANY history on an initially empty cache, get / [] answer only with the value most recently
   stored under the key (or the default / KeyError) *)
Theorem c54_lru_lookup_only_stored : forall c0 ops k, wf c0 -> empty_cache c0 ->
  let c := fst (lrun c0 ops) in
  (forall dflt v, snd (lstep c (LGet k dflt)) = WVal v -> v = dflt \/ last_set k ops None = Some v) /\
  (forall v, snd (lstep c (LGetitem k)) = WVal v -> last_set k ops None = Some v) /\
  (snd (lstep c (LGetitem k)) = WExc KeyError \/ exists v, snd (lstep c (LGetitem k)) = WVal v).
Proof. exact lookup_only_stored. Qed.
Print Assumptions c54_lru_lookup_only_stored.
(* size bound: len <= capacity + capacity*threshold after every history whose trims are not skipped *)
Theorem c54_lru_size_bound_history : forall c0 ops, wf c0 -> empty_cache c0 ->
  forallb unlocked ops = true -> within (fst (lrun c0 ops)).
Proof. exact history_bound. Qed.
Print Assumptions c54_lru_size_bound_history.
(* and after every unskipped __setitem__, whatever came before (a skipped trim is made up for) *)
Theorem c54_lru_size_bound_after_setitem : forall c0 ops k v, wf c0 -> empty_cache c0 ->
  within (fst (lstep (fst (lrun c0 ops)) (LSet k v false))).
Proof. exact set_bound_after_any_history. Qed.
Print Assumptions c54_lru_size_bound_after_setitem.
(* the invariants hold in every reachable state: unique keys, unique counters <= _counter *)
Theorem c54_lru_reachable_invariant : forall ops c, wf c -> cinv c ->
  wf (fst (lrun c ops)) /\ cinv (fst (lrun c ops)).
Proof. exact lrun_inv. Qed.
Print Assumptions c54_lru_reachable_invariant.
(* __setitem__ = store, then (iff over the bound) one trim *)
Theorem c54_lru_setitem_trims : forall c k v, wf c -> cinv c ->
  let c1 := with_data c (store (mke k v (counter c + 1)) (data c)) (counter c + 1) in
  cinv c1 /\
  (over c1 = true -> data (fst (lstep c (LSet k v false))) = trim_once c1) /\
  (over c1 = false -> fst (lstep c (LSet k v false)) = c1).
Proof. exact set_trims. Qed.
Print Assumptions c54_lru_setitem_trims.
(* a trim leaves exactly [capacity] entries, in their dict order, each used more recently than every
   evicted one *)
Theorem c54_lru_trim_keeps_most_recent : forall c, wf c -> cinv c -> over c = true ->
  let d' := trim_once c in
  length d' = Z.to_nat (cap c) /\
  (exists p, d' = filter p (data c)) /\
  (forall s e, In s d' -> In e (data c) -> ~ In e d' -> ec e < ec s).
Proof. exact trim_keeps_most_recent. Qed.
Print Assumptions c54_lru_trim_keeps_most_recent.
(* "recently used": every use gives the entry the strictly largest counter *)
Theorem c54_lru_use_is_most_recent : forall c k v, cinv c ->
  let c' := with_data c (store (mke k v (counter c + 1)) (data c)) (counter c + 1) in
  In (mke k v (counter c')) (data c') /\
  forall y, In y (data c') -> y <> mke k v (counter c') -> ec y < counter c'.
Proof. exact use_is_most_recent. Qed.
Print Assumptions c54_lru_use_is_most_recent.
(* the while loop of _manage_size terminates (the fuel of the model is never exhausted) *)
Theorem c54_lru_manage_size_terminates : forall c op, wf c -> cinv c -> snd (lstep c op) <> WLoop.
Proof. exact lstep_no_loop. Qed.
Print Assumptions c54_lru_manage_size_terminates.

(* non-vacuity: capacity 2, threshold 1/2: the 4th key trims to the 2 most recently used (key 1 was
   refreshed by the get) *)
Example c54_ex_lru_trim :
  let c := fst (lrun (mkl 2 1 2 false [] 0) [LSet 1 10 false; LSet 2 20 false; LSet 3 30 false;
                                              LGet 1 0; LSet 4 40 false]) in
  map ek (data c) = [1; 4] /\ wf c /\ within c.
Proof. vm_compute. repeat split; discriminate. Qed.
