(* C32 - a failed flush leaves the database untouched and the session recoverable.
   Statements only; every proof is [exact <lemma>].

   [flush_fault ft] is Session.flush() with the crash oracle of orm/FlushFail.v: ft = FStmt k (the driver
   reports a failure for the (k+1)-th INSERT/UPDATE/DELETE, after it ran), FPre / FAfter / FPost (the
   before_flush / after_flush / after_flush_postexec listener raises); real statement errors
   (IntegrityError, StaleDataError) are part of every flush of the model.
   [FReach e st]: st is reached by ANY history of guarded C33 operations (SessTxnSpec.guard) and faulty
   flushes (no condition on the fault: any crash point, any number of failures, also inside savepoints). *)
From Coq Require Import List ZArith Bool Arith.
Import ListNotations.
From SAV.orm Require Import SessTxn SessTxnSpec SessTxnFlushCore FlushFail FlushFailThm.

(* ---- nothing_committed: whatever the crash point, the rows other connections see do not change -
   neither by the failing flush nor by Session.rollback() after it - and after the rollback the
   session's connection shows exactly the committed rows: no partial effect of the flush survives *)
Theorem c32_nothing_committed : forall e ft st r s1,
  FReach e st -> flush_fault ft st = (r, s1) -> r <> Unmodelled ->
  committed s1 = committed st /\
  exists s2, do_op ORollback s1 = (Ok, s2) /\ committed s2 = committed st /\ work s2 = committed st /\ stack s2 = [].
Proof. exact nothing_committed_reach. Qed.
Print Assumptions c32_nothing_committed.

(* ---- after_rollback_objects_agree_with_db: Session.rollback() after the failure succeeds; then every
   persistent object has its row and its loaded values equal it, no object is left in the deleted state
   while its row exists ([agrees], the predicate of C33), nothing is pending, modified or marked deleted *)
Theorem c32_after_rollback_objects_agree_with_db : forall e ft st r s1,
  FReach e st -> flush_fault ft st = (r, s1) -> r <> Unmodelled ->
  exists s2, do_op ORollback s1 = (Ok, s2) /\ agrees s2 = true /\ no_pending s2 = true /\ is_clean s2 = true.
Proof. exact after_rollback_agree_reach. Qed.
Print Assumptions c32_after_rollback_objects_agree_with_db.

(* ---- rerun_equals_failure_free_run, the part that is proven: the state after the failing flush, and the
   state after the rollback, are again states of guarded histories - so whatever the application does
   next (e.g. the re-run) is covered by the C33 theorems exactly as if no failure had happened; objects
   and handles are the same; the innermost transaction is either untouched or DEACTIVE with its snapshot
   already restored (session clean); the rollback ends in a clean session outside any transaction.
   (That the re-run then writes the same rows as a failure-free run is checked on the implementation
   against reference runs, see specs/c32.py.) *)
Theorem c32_rerun_equals_failure_free_run_partial : forall e ft st r s1,
  FReach e st -> flush_fault ft st = (r, s1) -> r <> Unmodelled ->
  FReach e s1 /\ nobj s1 = nobj st /\ handles s1 = handles st /\
  (r <> Ok -> hd_state s1 = hd_state st \/
              (hd_state st = Some ACTIVE /\ hd_state s1 = Some DEACTIVE /\ is_clean s1 = true)) /\
  exists s2, do_op ORollback s1 = (Ok, s2) /\ FReach e s2 /\ stack s2 = [] /\ is_clean s2 = true.
Proof. exact recoverable_reach. Qed.
Print Assumptions c32_rerun_equals_failure_free_run_partial.

(* the crash oracle is not vacuous *)
Example c32_ex_fault_fires : fault_fires_check = true.
Proof. exact fault_fires. Qed.

(* ---- formerly REFUTED, repaired in 6d10bc4 (finding C32-expunged-object-with-key-switch-left-detached):
   new(1,0); flush; o.id = 2; flush failing in after_flush_postexec; rollback - the object added in the
   rolled back transaction is transient again (no identity key, not attached) *)
Example c32_ex_added_object_transient_after_rollback :
  fst (finalf false w_d7) = Ok /\ all_keyless (snd (finalf false w_d7)) = true /\
  oatt (objs (snd (finalf false w_d7)) 0%nat) = false /\ committed (snd (finalf false w_d7)) 1%Z = None.
Proof. exact added_object_transient_again. Qed.
