(* C18 - LIMIT/OFFSET and their dialect emulations return exactly the requested slice.
   Statements only; every proof is [exact <lemma>].

   Vocabulary (coq/sql/Limit.v): [pre] = the projected rows in ORDER BY order before DISTINCT;
   [result distinct pre] = the fully ordered result; [slice off lim rows] = firstn lim (skipn off rows)
   with [None] = unbounded; [which_form d s] = the row limiting form dialect [d] renders for statement
   [s]; [exec plan distinct pre] = what a database returns for it; [spec s pre] = what was asked for;
   [reorder] = the order in which the outer SELECT of a wrapper (no ORDER BY) returns its rows. *)
From Coq Require Import List ZArith Bool Permutation Sorted.
Import ListNotations.
From SAV.sql Require Import Limit LimitListProofs LimitFormProofs LimitWhichProofs LimitCacheProofs LimitCompoundProofs.
Open Scope Z_scope.

(* ---- the Z-indexed list programs of the model are firstn / skipn ---- *)
Theorem c18_slice_is_take_drop : forall A off lim (rows : list A),
  slice off lim rows = match lim with Some l => takeZ l (dropZ off rows) | None => dropZ off rows end.
Proof. exact slice_opt. Qed.
Print Assumptions c18_slice_is_take_drop.

(* ---- each form, for ALL row lists and all values ---- *)
(* MSSQL: SELECT TOP n *)
Theorem c18_top_eq_slice : forall A eqA eqk reorder n distinct (pre : list A),
  exec A eqA eqk reorder (PTop n false false) distinct pre = slice 0 (Some n) (result A eqA distinct pre).
Proof. exact top_eq_slice. Qed.
Print Assumptions c18_top_eq_slice.

(* [OFFSET o ROWS] [FETCH FIRST f ROWS ONLY]  (MSSQL >= 2012, Oracle >= 12c, PG, generic) *)
Theorem c18_offset_fetch_eq_slice : forall A eqA eqk reorder o f distinct (pre : list A),
  exec A eqA eqk reorder (PFetch o f false false) distinct pre
  = slice (opt0 o) f (result A eqA distinct pre).
Proof. exact offset_fetch_eq_slice. Qed.
Print Assumptions c18_offset_fetch_eq_slice.

(* LIMIT l [OFFSET o]  (generic, SQLite incl. its "OFFSET 0", PG) *)
Theorem c18_limit_offset_eq_slice : forall A eqA eqk reorder l o distinct (pre : list A), 0 <= l ->
  exec A eqA eqk reorder (PLimit l o) distinct pre = slice (opt0 o) (Some l) (result A eqA distinct pre).
Proof. exact limit_eq_slice. Qed.
Print Assumptions c18_limit_offset_eq_slice.

(* SQLite / generic: LIMIT -1 OFFSET n *)
Theorem c18_sqlite_limit_minus_one_eq_slice : forall A eqA eqk reorder o distinct (pre : list A),
  exec A eqA eqk reorder (PLimit sqlite_no_limit (Some o)) distinct pre
  = slice o None (result A eqA distinct pre).
Proof. intros. exact (limit_negative_eq_slice A eqA eqk reorder sqlite_no_limit (Some o) distinct pre eq_refl). Qed.
Print Assumptions c18_sqlite_limit_minus_one_eq_slice.

(* PostgreSQL: LIMIT ALL OFFSET n *)
Theorem c18_pg_limit_all_eq_slice : forall A eqA eqk reorder o distinct (pre : list A),
  exec A eqA eqk reorder (PLimitAll o) distinct pre = slice o None (result A eqA distinct pre).
Proof. exact limit_all_eq_slice. Qed.
Print Assumptions c18_pg_limit_all_eq_slice.

(* MySQL: LIMIT [o,] l *)
Theorem c18_mysql_limit_eq_slice : forall A eqA eqk reorder o l distinct (pre : list A),
  exec A eqA eqk reorder (PMySQL o l) distinct pre = slice (opt0 o) (Some l) (result A eqA distinct pre).
Proof. exact mysql_eq_slice. Qed.
Print Assumptions c18_mysql_limit_eq_slice.

(* MySQL: LIMIT o, 18446744073709551615 means "no limit" exactly while the remaining rows fit *)
Theorem c18_mysql_huge_limit_iff : forall A eqA eqk reorder o distinct (pre : list A), 0 <= o ->
  exec A eqA eqk reorder (PMySQL (Some o) mysql_no_limit) distinct pre
    = slice o None (result A eqA distinct pre)
  <-> Z.of_nat (length (result A eqA distinct pre)) - o <= 18446744073709551615.
Proof. exact mysql_no_limit_iff. Qed.
Print Assumptions c18_mysql_huge_limit_iff.

(* MSSQL < 2012: the ROW_NUMBER() wrapper, as a multiset, for every behaviour of the outer SELECT;
   guarded: no DISTINCT, or no duplicate rows for DISTINCT to remove *)
Theorem c18_mssql_rownumber_eq_slice_guarded : forall A eqA eqk reorder lim off distinct (pre : list A),
  (forall l, Permutation (reorder l) l) ->
  is_some lim || is_some off = true -> 0 <= opt0 lim -> 0 <= opt0 off ->
  negb distinct || nodupb A eqA pre = true ->
  Permutation (exec A eqA eqk reorder (mssql_plan lim off) distinct pre)
              (slice (opt0 off) lim (result A eqA distinct pre)).
Proof. exact mssql_rownumber_multiset. Qed.
Print Assumptions c18_mssql_rownumber_eq_slice_guarded.

(* PARTIAL: list equality (the order too) only under the extra hypothesis that the outer SELECT, which
   the wrapper renders without ORDER BY, returns the derived table's rows in their order.  What is
   missing: nothing in SQL guarantees that hypothesis. *)
Theorem c18_mssql_rownumber_outer_order_partial : forall A eqA eqk reorder lim off distinct (pre : list A),
  (forall l, reorder l = l) ->
  is_some lim || is_some off = true -> 0 <= opt0 lim -> 0 <= opt0 off ->
  negb distinct || nodupb A eqA pre = true ->
  exec A eqA eqk reorder (mssql_plan lim off) distinct pre
  = slice (opt0 off) lim (result A eqA distinct pre).
Proof. exact mssql_rownumber_list. Qed.
Print Assumptions c18_mssql_rownumber_outer_order_partial.

(* what the wrapper really computes: the slice of the rows BEFORE DISTINCT *)
Theorem c18_mssql_rownumber_slices_before_distinct : forall A eqA eqk reorder lim off distinct (pre : list A),
  is_some lim || is_some off = true -> 0 <= opt0 lim -> 0 <= opt0 off ->
  exec A eqA eqk reorder (mssql_plan lim off) distinct pre = reorder (slice (opt0 off) lim pre).
Proof. exact exec_rownumber. Qed.
Print Assumptions c18_mssql_rownumber_slices_before_distinct.

(* DEFECT: SELECT DISTINCT x FROM t ORDER BY x LIMIT 3 OFFSET 4 through the wrapper is not even a
   permutation of the slice of the distinct ordered result, whatever the outer SELECT does *)
Theorem c18_mssql_rownumber_distinct_refuted :
  exists (s : sel) (pre : list Z), nonneg s = true /\ s_ordered s = true /\
    StronglySorted (fun a b => (a <=? b) = true) pre /\
    forall reorder, (forall l, Permutation (reorder l) l) ->
      ~ Permutation (exec Z Z.eqb Z.eqb reorder (which_form (MSSQL false) s) (s_distinct s) pre)
                    (spec Z Z.eqb Z.eqb s pre).
Proof. exact mssql_rownumber_distinct_refuted. Qed.
Print Assumptions c18_mssql_rownumber_distinct_refuted.

(* Oracle < 12c: ROWNUM <= lim + off inside, ora_rn > off outside, ROWNUM assigned while filtering *)
Theorem c18_oracle_rownum_eq_slice : forall A eqA eqk reorder lim off distinct (pre : list A),
  (forall l, Permutation (reorder l) l) ->
  is_some lim || is_some off = true -> 0 <= opt0 lim -> 0 <= opt0 off ->
  Permutation (exec A eqA eqk reorder (oracle_plan lim off) distinct pre)
              (slice (opt0 off) lim (result A eqA distinct pre)).
Proof. exact oracle_rownum_multiset. Qed.
Print Assumptions c18_oracle_rownum_eq_slice.

(* PARTIAL: as a list only if the outer SELECT keeps the derived table's order (see above) *)
Theorem c18_oracle_rownum_outer_order_partial : forall A eqA eqk reorder lim off distinct (pre : list A),
  (forall l, reorder l = l) ->
  is_some lim || is_some off = true -> 0 <= opt0 lim -> 0 <= opt0 off ->
  exec A eqA eqk reorder (oracle_plan lim off) distinct pre
  = slice (opt0 off) lim (result A eqA distinct pre).
Proof. exact oracle_rownum_list. Qed.
Print Assumptions c18_oracle_rownum_outer_order_partial.

(* WITH TIES: the database's reading (prefix, then the run of rows tied with its last row) is the
   declarative one (positions < n plus every row with the key of the n-th) on rows sorted by the key *)
Theorem c18_with_ties_eq : forall A (lek eqk : A -> A -> bool),
  (forall a b c, lek a b = true -> lek b c = true -> lek a c = true) ->
  (forall a b, eqk a b = lek a b && lek b a) ->
  forall n (rows : list A), StronglySorted (fun a b => lek a b = true) rows ->
  ties_ext A eqk n rows = with_ties_spec eqk n rows.
Proof. exact ties_ext_spec. Qed.
Print Assumptions c18_with_ties_eq.

(* PERCENT: the row count is the ceiling of p % of the total *)
Theorem c18_percent_eq : forall p total, 0 <= p -> 0 <= total ->
  p * total <= 100 * pct_count p total < p * total + 100.
Proof. exact pct_count_ceil. Qed.
Print Assumptions c18_percent_eq.

(* [OFFSET o ROWS] FETCH FIRST n [PERCENT] ROWS ONLY | WITH TIES, and TOP n [PERCENT] [WITH TIES] *)
Theorem c18_fetch_percent_ties_eq : forall A (eqk lek : A -> A -> bool),
  (forall a b c, lek a b = true -> lek b c = true -> lek a c = true) ->
  (forall a b, eqk a b = lek a b && lek b a) ->
  forall o n percent ties (rows : list A),
  (ties = true -> StronglySorted (fun a b => lek a b = true) rows) ->
  fetch_sem A eqk o (Some n) percent ties rows = fetch_spec A eqk (opt0 o) n percent ties rows.
Proof. exact fetch_sem_spec. Qed.
Print Assumptions c18_fetch_percent_ties_eq.

(* ---- the decision: total, fails exactly where the code raises CompileError ---- *)
Theorem c18_which_form_error_iff : forall d s,
  is_error (which_form d s) = true <->
  exists b, d = MSSQL b /\ has_row_limiting s = true /\ use_top s = false /\
            (s_ordered s = false \/ fetch_percent s || fetch_ties s = true).
Proof. exact which_form_error_iff. Qed.
Print Assumptions c18_which_form_error_iff.

(* ---- THE property: whatever form the dialect picks, the rows are the requested slice (multiset;
   guarded against the DISTINCT defect; MySQL within its 2^64-1 row bound; WITH TIES on sorted rows) *)
Theorem c18_rows_are_the_slice_guarded : forall A (eqA eqk : A -> A -> bool) reorder (lek : A -> A -> bool),
  (forall a b c, lek a b = true -> lek b c = true -> lek a c = true) ->
  (forall a b, eqk a b = lek a b && lek b a) ->
  forall d s (pre : list A),
  (forall l, Permutation (reorder l) l) ->
  nonneg s = true ->
  is_error (which_form d s) = false ->
  guard eqA d s pre = true ->
  (d = MySQL -> Z.of_nat (length (result A eqA (s_distinct s) pre)) <= mysql_no_limit) ->
  (fetch_ties s = true -> StronglySorted (fun a b => lek a b = true) pre) ->
  Permutation (exec A eqA eqk reorder (which_form d s) (s_distinct s) pre) (spec A eqA eqk s pre).
Proof. exact which_form_multiset. Qed.
Print Assumptions c18_rows_are_the_slice_guarded.

(* exactly (as a list) for every native form; PARTIAL for the two wrappers: needs the outer SELECT to
   keep the derived table's order, which SQL does not promise *)
Theorem c18_rows_are_the_slice_in_order_partial : forall A (eqA eqk : A -> A -> bool) reorder (lek : A -> A -> bool),
  (forall a b c, lek a b = true -> lek b c = true -> lek a c = true) ->
  (forall a b, eqk a b = lek a b && lek b a) ->
  forall d s (pre : list A),
  (wrapped (which_form d s) = true -> forall l, reorder l = l) ->
  nonneg s = true ->
  is_error (which_form d s) = false ->
  guard eqA d s pre = true ->
  (d = MySQL -> Z.of_nat (length (result A eqA (s_distinct s) pre)) <= mysql_no_limit) ->
  (fetch_ties s = true -> StronglySorted (fun a b => lek a b = true) pre) ->
  exec A eqA eqk reorder (which_form d s) (s_distinct s) pre = spec A eqA eqk s pre.
Proof. exact which_form_list. Qed.
Print Assumptions c18_rows_are_the_slice_in_order_partial.

(* ---- the compiled cache: the form is a template fixed by the cache key (presence of each clause,
   plain int or not, FETCH options, ORDER BY, DISTINCT - not the values), instantiated with the
   values of the statement being executed ---- *)
Theorem c18_form_is_value_free_template : forall d s,
  which_form d s = subst (lim_val s) (opt0 (val (s_off s))) (which_form d (markers s)).
Proof. exact which_form_template. Qed.
Print Assumptions c18_form_is_value_free_template.

(* the SQL cached for ANY statement [s] of the same key, re-bound with the values of [s'], is the form
   a fresh compilation of [s'] picks - so c18_rows_are_the_slice_guarded applies to every execution *)
Theorem c18_cache_transparent : forall d s s', same_key s s' = true ->
  which_form d s' = subst (lim_val s') (opt0 (val (s_off s'))) (which_form d (markers s)).
Proof. exact cache_transparent. Qed.
Print Assumptions c18_cache_transparent.

(* ---- compound selects (UNION ...): only _row_limit_clause is consulted, so where the dialect relies
   on TOP or on a wrapper the clause is silently not rendered ---- *)
Theorem c18_compound_dropped_iff : forall d s,
  compound_dropped d s = true <->
  has_row_limiting s = true /\
  ((exists b, d = MSSQL b /\ (use_top s = true \/ b = false)) \/
   (d = Oracle false /\ fetch_clause s = None)).
Proof. exact compound_dropped_iff. Qed.
Print Assumptions c18_compound_dropped_iff.

(* DEFECT: a dropped clause returns every row *)
Theorem c18_compound_limit_dropped_refuted :
  exists d s (pre : list Z), nonneg s = true /\ s_ordered s = true /\ compound_dropped d s = true /\
    forall reorder,
      exec Z Z.eqb Z.eqb reorder (compound_form d s) (s_distinct s) pre <> spec Z Z.eqb Z.eqb s pre.
Proof. exact compound_limit_dropped_refuted. Qed.
Print Assumptions c18_compound_limit_dropped_refuted.

Theorem c18_compound_dropped_returns_all_rows : forall A eqA eqk reorder d s (pre : list A),
  compound_dropped d s = true ->
  exec A eqA eqk reorder (compound_form d s) (s_distinct s) pre = result A eqA (s_distinct s) pre.
Proof. exact compound_dropped_all_rows. Qed.
Print Assumptions c18_compound_dropped_returns_all_rows.

(* everywhere else a compound select gets the slice, in order (it is never wrapped) *)
Theorem c18_compound_rows_are_the_slice_guarded : forall A (eqA eqk : A -> A -> bool) reorder (lek : A -> A -> bool),
  (forall a b c, lek a b = true -> lek b c = true -> lek a c = true) ->
  (forall a b, eqk a b = lek a b && lek b a) ->
  forall d s (pre : list A),
  compound_dropped d s = false ->
  nonneg s = true ->
  is_error (compound_form d s) = false ->
  (d = MySQL -> Z.of_nat (length (result A eqA (s_distinct s) pre)) <= mysql_no_limit) ->
  (fetch_ties s = true -> StronglySorted (fun a b => lek a b = true) pre) ->
  exec A eqA eqk reorder (compound_form d s) (s_distinct s) pre = spec A eqA eqk s pre.
Proof. exact compound_rows_guarded. Qed.
Print Assumptions c18_compound_rows_are_the_slice_guarded.

(* ---- non-vacuity ---- *)
(* beyond the end, zero, and the guard / hypotheses are satisfiable *)
Example c18_ex_mssql_wrapper :
  let s := Sel (Limit (Clause false 3)) (Some (Clause true 4)) true false in
  nonneg s = true /\ is_error (which_form (MSSQL false) s) = false /\
  guard Z.eqb (MSSQL false) s [5;6;7;8;9;10] = true /\
  exec Z Z.eqb Z.eqb (fun l => l) (which_form (MSSQL false) s) false [5;6;7;8;9;10] = [9;10].
Proof. vm_compute. repeat split; reflexivity. Qed.
Example c18_ex_oracle_wrapper :
  exec Z Z.eqb Z.eqb (fun l => l)
    (which_form (Oracle false) (Sel (Limit (Clause true 2)) (Some (Clause true 1)) true true))
    true [1;1;2;3;3;4] = [2;3].
Proof. vm_compute. reflexivity. Qed.
Example c18_ex_distinct_guard_holds :
  guard Z.eqb (MSSQL false) (Sel (Limit (Clause true 0)) (Some (Clause true 7)) true true) [1;2;3] = true.
Proof. vm_compute. reflexivity. Qed.
Example c18_ex_with_ties :
  exec Z Z.eqb (fun a b => a / 10 =? b / 10) (fun l => l)
    (which_form (MSSQL true) (Sel (Fetch (Clause true 2) false true) None true false))
    false [10;11;12;20;30] = [10;11;12]
  /\ StronglySorted (fun a b => (a / 10 <=? b / 10) = true) [10;11;12;20;30].
Proof. split; [vm_compute; reflexivity|]. repeat (constructor; [|repeat (constructor; [reflexivity|]); constructor]). constructor. Qed.
Example c18_ex_percent :
  exec Z Z.eqb Z.eqb (fun l => l)
    (which_form (MSSQL false) (Sel (Fetch (Clause true 34) true false) None true false))
    false [1;2;3;4;5;6] = [1;2;3].
Proof. vm_compute. reflexivity. Qed.
Example c18_ex_error :
  which_form (MSSQL true) (Sel (Limit (Clause true 3)) (Some (Clause true 4)) false false) = PError 1.
Proof. reflexivity. Qed.
Example c18_ex_cache_offset_zero_then_five :
  let a := Sel (Limit (Clause true 4)) (Some (Clause true 0)) true false in
  let b := Sel (Limit (Clause true 4)) (Some (Clause true 5)) true false in
  same_key a b = true /\
  subst 4 5 (which_form (Oracle false) (markers a)) = which_form (Oracle false) b /\
  exec Z Z.eqb Z.eqb (fun l => l) (which_form (Oracle false) b) false [1;2;3;4;5;6;7;8;9;10;11] = [6;7;8;9].
Proof. vm_compute. repeat split; reflexivity. Qed.
Example c18_ex_compound_kept :
  compound_dropped (MSSQL true) (Sel (Limit (Clause true 2)) (Some (Clause true 1)) true false) = false /\
  exec Z Z.eqb Z.eqb (fun l => l)
    (compound_form (MSSQL true) (Sel (Limit (Clause true 2)) (Some (Clause true 1)) true false)) false [1;2;3;4] = [2;3].
Proof. vm_compute. split; reflexivity. Qed.
