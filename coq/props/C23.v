(* C23 - Connection transactions and savepoints have nested-transaction semantics.
   Statements only; every proof is [exact <lemma>].

   Model: engine/Txn.v (Connection / RootTransaction / NestedTransaction / TransactionalContext as
   written, running against the reference database engine/RefDb.v).
   Specification: engine/TxnSpec.v (reference nested-transaction model [sstep], and [guard_from]
   = the history stays outside the three defective regions (a)(b)(c) and uses with-blocks as the
   with statement does).
   [trace ops s]  = (result, state) after each operation of the history [ops] (any length, any depth).
   [strace ops p] = (raised?, reference state) after each operation. *)
From Coq Require Import List ZArith NArith Bool Arith.
Import ListNotations.
From SAV.engine Require Import RefDb RefDbProofs Txn TxnBase TxnWF TxnSpec TxnSim TxnTheorems.

(* ---------- every history, misuse included ---------- *)

(* the recursion of NestedTransaction._cancel always terminates within the model's fuel *)
Theorem c23_fuel_sufficient : forall ops d,
  Forall (fun rs => fst rs <> Some OutOfFuel) (trace ops (init d)).
Proof. intros ops d. exact (fuel_sufficient ops (init d) (WF_init d)). Qed.
Print Assumptions c23_fuel_sufficient.

(* ended_txn_raises, part 1: commit/rollback/close/__exit__ on a transaction object that is no longer
   active send nothing to the database and leave the database untouched - in ANY state *)
Theorem c23_ended_txn_sends_nothing : forall o k s, handle_of o = Some k -> active k s = false ->
  (forall j, o <> TEnter j) ->
  s_out (step_st o s) = [] /\ s_db (step_st o s) = s_db s.
Proof. exact inactive_quiet. Qed.
Print Assumptions c23_ended_txn_sends_nothing.

(* ended_txn_raises, part 2: commit() on it raises and changes nothing - in ANY state *)
Theorem c23_ended_txn_commit_raises : forall k s, k < length (txns s) -> active k s = false ->
  exists e, step (TCommit k) s = Some (Raise e, clear_log s).
Proof. exact ended_commit_raises. Qed.
Print Assumptions c23_ended_txn_commit_raises.

(* the autobegin invariant (fix ba42825): after every operation of every history - raising `begin`
   listeners and failing DBAPI rollbacks included - __in_begin is False, so _autobegin is never
   left disabled *)
Theorem c23_in_begin_reset : forall ops d,
  Forall (fun rs => c_in_begin (snd rs) = false) (trace ops (init d)).
Proof. intros ops d. exact (in_begin_reset ops (init d) eq_refl). Qed.
Print Assumptions c23_in_begin_reset.

(* after any history, a statement that executes does so inside an active root transaction
   (never silently outside one, where commit() would be a no-op) *)
Theorem c23_statement_runs_in_transaction : forall ops d v s',
  step (OIns v) (run ops (init d)) = Some (Ok, s') -> in_transaction s' = true.
Proof. exact statement_in_transaction. Qed.
Print Assumptions c23_statement_runs_in_transaction.

(* ---------- guarded histories: full nested-transaction semantics ---------- *)

(* after every operation - so after each outer commit - other connections (and the connection
   itself) see exactly the data of the reference model *)
Theorem c23_committed_data_eq_reference_guarded : forall ops,
  guard_from ops (spec_init []) = true ->
  map (fun rs => (committed (s_db (snd rs)), work (s_db (snd rs)))) (trace ops (init db_empty)) =
  map (fun bp => (p_committed (snd bp), p_cur (snd bp))) (strace ops (spec_init [])).
Proof. exact committed_data_eq_reference. Qed.
Print Assumptions c23_committed_data_eq_reference_guarded.

Theorem c23_flags_agree_guarded : forall ops,
  guard_from ops (spec_init []) = true ->
  map (fun rs => (in_transaction (snd rs), in_nested_transaction (snd rs))) (trace ops (init db_empty)) =
  map (fun bp => (spec_in_transaction (snd bp), spec_in_nested (snd bp))) (strace ops (spec_init [])).
Proof. exact flags_agree. Qed.
Print Assumptions c23_flags_agree_guarded.

(* a handle is active exactly while the reference model keeps its frame open *)
Theorem c23_handles_agree_guarded : forall ops,
  guard_from ops (spec_init []) = true ->
  Forall2 (fun rs bp => forall k, active k (snd rs) = live k (snd bp))
    (trace ops (init db_empty)) (strace ops (spec_init [])).
Proof. exact handles_agree. Qed.
Print Assumptions c23_handles_agree_guarded.

(* ended_txn_raises, part 3: an operation raises exactly when the reference model refuses it (commit on
   an ended transaction, begin inside a transaction, anything on a closed connection or inside a
   with-block whose transaction has ended); it is skipped exactly when the handle does not exist;
   fuel is never exhausted *)
Theorem c23_ended_txn_raises_guarded : forall ops,
  guard_from ops (spec_init []) = true ->
  Forall2 (fun rs bp => res_agree (fst rs) (fst bp)) (trace ops (init db_empty)) (strace ops (spec_init [])).
Proof. exact raises_agree. Qed.
Print Assumptions c23_ended_txn_raises_guarded.

(* every command sent to the database is accepted by it: never ROLLBACK TO / RELEASE of a savepoint
   the database no longer has *)
Theorem c23_commands_well_nested_guarded : forall ops,
  guard_from ops (spec_init []) = true ->
  Forall (fun rs => forallb snd (s_out (snd rs)) = true) (trace ops (init db_empty)).
Proof. exact commands_well_nested. Qed.
Print Assumptions c23_commands_well_nested_guarded.

(* ---------- the three defective regions excluded by the guard ---------- *)

(* (a) s1 = begin_nested(); s2 = begin_nested(); s1.rollback(); s2.rollback():
   the last call sends ROLLBACK TO a savepoint the database has discarded *)
Theorem c23_commands_well_nested_refuted :
  exists ops, existsb rejected (trace ops (init db_empty)) = true.
Proof. exists witness_a. exact refuted_commands_a. Qed.
Print Assumptions c23_commands_well_nested_refuted.

(* (a) after s1.rollback() in_nested_transaction() is still True (s2 stays installed and active) *)
Theorem c23_flags_agree_refuted :
  exists ops, map flags_of (trace ops (init db_empty)) <> map sflags_of (strace ops (spec_init [])).
Proof. exists witness_a. exact refuted_flags_a. Qed.
Print Assumptions c23_flags_agree_refuted.

(* (b) rollback() of the handle of an already committed transaction cancels the savepoints of the
   current transaction (in_nested_transaction() turns False, nothing is sent to the database) *)
Theorem c23_ended_txn_raises_refuted :
  map flags_of (trace witness_b (init db_empty)) <> map sflags_of (strace witness_b (spec_init [])).
Proof. exact refuted_flags_b. Qed.
Print Assumptions c23_ended_txn_raises_refuted.

(* (c) inside a with-block whose savepoint has been committed, rollback() of the enclosing savepoint
   raises but still ends it without ROLLBACK TO; the outer commit publishes the row *)
Theorem c23_committed_data_eq_reference_refuted :
  map (fun rs => committed (s_db (snd rs))) (trace witness_c (init db_empty)) <>
  map (fun bp => p_committed (snd bp)) (strace witness_c (spec_init [])).
Proof. exact refuted_data_c. Qed.
Print Assumptions c23_committed_data_eq_reference_refuted.

(* ---------- the reference database itself (validated against SQLite on every run) ---------- *)

(* a savepoint rollback undoes exactly the work since that savepoint (and keeps the savepoint) *)
Theorem c23_refdb_savepoint_rollback_to : forall d n w',
  exec_cmd (mkDb (committed d) w' ((n, work d) :: saves d)) (RollbackTo n) =
  Some (mkDb (committed d) (work d) ((n, work d) :: saves d)).
Proof. exact savepoint_rollback_to. Qed.
Print Assumptions c23_refdb_savepoint_rollback_to.

(* ROLLBACK TO / RELEASE are rejected exactly for a savepoint the database does not have *)
Theorem c23_refdb_rejects_unknown_savepoint : forall d n,
  (exec_cmd d (RollbackTo n) = None <-> has_save n d = false) /\
  (exec_cmd d (Release n) = None <-> has_save n d = false).
Proof. intros d n. exact (conj (rollback_to_rejected_iff d n) (release_rejected_iff d n)). Qed.
Print Assumptions c23_refdb_rejects_unknown_savepoint.

(* other connections see a change only through COMMIT *)
Theorem c23_refdb_visible_changes_only_by_commit : forall d c d',
  exec_cmd d c = Some d' -> c <> Commit -> committed d' = committed d.
Proof. exact committed_changes_only_by_commit. Qed.
Print Assumptions c23_refdb_visible_changes_only_by_commit.

(* ---------- non-vacuity ---------- *)
(* a guarded history with two savepoint levels, a savepoint rollback, a release, double commit and a
   with-block; its final committed data *)
Definition c23_demo : list op :=
  [OBegin; OIns 1; ONested; OIns 2; ONested; OIns 3; TRollback 2; OIns 4; TCommit 1; TCommit 1;
   ONested; TEnter 3; OIns 5; TExit 3 true; TCommit 0; TCommit 0; OIns 6; ORollback].
Example c23_ex_demo_guarded : guard_from c23_demo (spec_init []) = true.
Proof. vm_compute. reflexivity. Qed.
Example c23_ex_demo_data :
  visible 0%N (s_db (run c23_demo (init db_empty))) = [[1]; [2]; [4]]%Z.
Proof. vm_compute. reflexivity. Qed.
Example c23_ex_witnesses_outside_guard :
  guard_from witness_a (spec_init []) = false /\ guard_from witness_b (spec_init []) = false /\
  guard_from witness_c (spec_init []) = false.
Proof. exact witnesses_unguarded. Qed.
(* faults inside the guard: a `begin` listener that raises once - the first statement raises, the next
   one autobegins normally and commit() publishes it; a DBAPI rollback that reports an error while a
   savepoint is open - the transaction and its savepoint objects are ended (fix fff6083) *)
Definition c23_fault_begin : list op := [FBegin 1; OIns 1; OIns 2; OCommit].
Definition c23_fault_rollback : list op := [ONested; OIns 1; FRollback true; ORollback; OIns 2; TRollback 1; OCommit].
Example c23_ex_fault_begin :
  guard_from c23_fault_begin (spec_init []) = true /\
  map (fun rs => fst rs) (trace c23_fault_begin (init db_empty)) =
    [Some Ok; Some (Raise ListenerError); Some Ok; Some Ok] /\
  visible 0%N (s_db (run c23_fault_begin (init db_empty))) = [[2]]%Z.
Proof. vm_compute. auto. Qed.
Example c23_ex_fault_rollback :
  guard_from c23_fault_rollback (spec_init []) = true /\
  map flags_of (trace c23_fault_rollback (init db_empty)) =
    [(true, true); (true, true); (true, true); (false, false); (true, false); (true, false); (false, false)] /\
  visible 0%N (s_db (run c23_fault_rollback (init db_empty))) = [[2]]%Z.
Proof. vm_compute. auto. Qed.
(* an inactive handle exists in a reachable state (hypotheses of the unguarded theorems) *)
Example c23_ex_inactive_handle :
  let s := run [OBegin; OCommit] (init db_empty) in 0 < length (txns s) /\ active 0 s = false.
Proof. vm_compute. split; [apply le_n|reflexivity]. Qed.
