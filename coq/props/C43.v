(* C43 - ORM-enabled UPDATE/DELETE with synchronize_session='evaluate' keeps in-session objects in sync
   with the database.  Statements only; every proof is [exact <lemma>].

   Vocabulary (orm/Evaluator.v).  CODE SIDE: [ex] is the clause tree the evaluator dispatches on; [check]
   decides the UnevaluatableError raised by process(); [run] / [ev] are the evaluator functions
   (the visit_ methods of _EvaluatorCompiler), [matched] is _get_matched_objects_on_criteria ("is True" or expired),
   [update_obj] / [delete_obj] are the per-object effects of the 'evaluate' synchronisation.
   SPEC SIDE: [sem] is the SQL value of the expression (3-valued logic, truncating %, LIKE, IN as in C07),
   [selected] the WHERE test, [update_row] / [delete_row] the effect of the statement on a row.
   [wt sc e = Some t]: e is in the typed fragment (any depth); [guard e r]: no node of e falls, for the
   row r, into one of the regions where Python and SQL differ (% with a negative operand or zero divisor;
   IN / NOT IN with an empty list and a NULL operand; startswith /
   endswith with LIKE wildcards or upper-case ASCII letters).  [rel v s]: the Python value v is the SQL
   value s (None/NULL, True/1, False/0, equal numbers, equal strings). *)
From Coq Require Import List ZArith NArith Bool.
Import ListNotations.
From SAV.sql Require Import Val3 InList.
From SAV.orm Require Import Evaluator EvaluatorProofs EvaluatorSyncProofs EvaluatorRefuted FetchSync FetchSyncProofs.

(* MAIN: on the typed and guarded fragment the evaluator computes exactly the SQL value, for expression
   trees of any depth *)
Theorem c43_evaluator_faithful_guarded : forall sc e t r,
  wt sc e = Some t -> row_ok sc r -> guard e r = true ->
  exists v, ev sc e (obj_of r) = POk v /\ rel v (sem e r) /\ pv_has t v.
Proof. exact ev_faithful. Qed.
Print Assumptions c43_evaluator_faithful_guarded.

(* hence an object is matched exactly when its row is selected by the WHERE clause *)
Theorem c43_matched_iff_selected_guarded : forall sc crit r,
  wt sc crit = Some TyBool -> row_ok sc r -> guard crit r = true ->
  matched sc crit (obj_of r) = if selected crit r then Matched false else NotMatched.
Proof. exact matched_iff_selected. Qed.
Print Assumptions c43_matched_iff_selected_guarded.

(* "with 'evaluate' the operation instead raises when it cannot evaluate the criteria": UnevaluatableError
   is raised exactly for the clauses process() refuses, and then before anything is applied *)
Theorem c43_unevaluatable_iff : forall sc e o, ev sc e o = PRaise Unevaluatable <-> check sc e = false.
Proof. exact unevaluatable_iff. Qed.
Print Assumptions c43_unevaluatable_iff.
Theorem c43_unevaluatable_raises : forall sc crit sets o, check sc crit = false ->
  update_obj sc crit sets o = ORaise Unevaluatable /\ delete_obj sc crit o = DRaise Unevaluatable.
Proof. exact unevaluatable_raises. Qed.
Print Assumptions c43_unevaluatable_raises.

(* UPDATE: a fully loaded object that agrees with its row agrees with the updated row afterwards
   (SET clauses: distinct targets, typed like their column, guarded; they may read each other's targets -
   since c4d3d0a all right-hand sides are evaluated before any assignment) *)
Theorem c43_update_in_sync_guarded : forall sc crit sets r,
  row_ok sc r -> wt sc crit = Some TyBool -> guard crit r = true ->
  targets_distinct sets = true -> forallb (set_ok sc r) sets = true ->
  exists o', update_obj sc crit sets (obj_of r) = OOk o' /\
             forall c, o' c = obj_of (update_row crit sets r) c.
Proof. exact update_in_sync. Qed.
Print Assumptions c43_update_in_sync_guarded.

(* the loop over the matched objects carries a "to_expire" variable from one object to the next; with
   evaluable SET clauses it stays empty, so every matched object is treated like the first (the theorem above
   therefore holds for each object of a multi-row UPDATE) *)
Theorem c43_update_loop_stateless_guarded : forall sc sets o,
  forallb (fun cv => check sc (snd cv)) sets = true ->
  snd (apply_sets_st sc sets [] o) = [] /\ fst (apply_sets_st sc sets [] o) = apply_sets sc sets o.
Proof. exact apply_sets_st_evaluable. Qed.
Print Assumptions c43_update_loop_stateless_guarded.

(* DELETE: the object leaves the session exactly when its row is deleted *)
Theorem c43_delete_in_sync_guarded : forall sc crit r,
  row_ok sc r -> wt sc crit = Some TyBool -> guard crit r = true ->
  delete_obj sc crit (obj_of r) = if delete_row crit r then DRemoved else DKeep (obj_of r).
Proof. exact delete_in_sync. Qed.
Print Assumptions c43_delete_in_sync_guarded.

(* ---- synchronize_session='fetch' ---- *)
(* the identity keys built from the RETURNING rows are the mapper-order keys of the rows, for EVERY order
   (any list of primary key columns) of mapper.primary_key relative to the table's PRIMARY KEY *)
Theorem c43_fetch_keys_mapper_order : forall m rows,
  m.(sub_table) = false -> incl m.(mpk) m.(tpk) ->
  interpret_returning_rows m (map (returning_row m) rows) = map (identity_of m) rows.
Proof. exact interpret_returning_rows_mapper_order. Qed.
Print Assumptions c43_fetch_keys_mapper_order.

(* with or without RETURNING, exactly the objects of the selected rows are synchronised *)
Theorem c43_fetch_matches_selected : forall m ur crit db r,
  m.(sub_table) = false -> incl m.(mpk) m.(tpk) -> keys_distinct m db -> In r db ->
  in_keys m (fetch_keys m ur crit db) r = selected crit r.
Proof. exact in_keys_iff_selected. Qed.
Print Assumptions c43_fetch_matches_selected.

(* UPDATE / DELETE with 'fetch' keep the objects in sync for ANY criterion (no guard on crit: the database
   evaluates it); only the SET expressions are evaluated in Python *)
Theorem c43_fetch_update_in_sync : forall sc m ur crit sets db r,
  m.(sub_table) = false -> incl m.(mpk) m.(tpk) -> keys_distinct m db -> In r db ->
  row_ok sc r -> targets_distinct sets = true -> forallb (set_ok sc r) sets = true ->
  exists o', fetch_update_obj sc m (fetch_keys m ur crit db) sets r = OOk o' /\
             forall c, o' c = obj_of (update_row crit sets r) c.
Proof. exact fetch_update_in_sync. Qed.
Print Assumptions c43_fetch_update_in_sync.
Theorem c43_fetch_delete_in_sync : forall m ur crit db r,
  m.(sub_table) = false -> incl m.(mpk) m.(tpk) -> keys_distinct m db -> In r db ->
  fetch_delete_obj m (fetch_keys m ur crit db) r = if delete_row crit r then DRemoved else DKeep (obj_of r).
Proof. exact fetch_delete_in_sync. Qed.
Print Assumptions c43_fetch_delete_in_sync.

(* non-vacuity and the reason the order matters: for identity (u, g) on a table keyed (g, u), reading the
   RETURNING row in table order gives the identity of the MIRRORED row *)
Example c43_ex_table_order_is_not_identity_order :
  let m := {| tpk := [0%nat; 1%nat]; mpk := [1%nat; 0%nat]; sub_table := false |} in
  let r1 : row := fun c => match c with 0%nat => SInt 1 | 1%nat => SInt 2 | _ => SNull end in
  let r2 : row := fun c => match c with 0%nat => SInt 2 | 1%nat => SInt 1 | _ => SNull end in
  tuple_getter m.(tpk) (returning_row m r1) = Some (identity_of m r2) /\
  identity_of m r1 <> identity_of m r2 /\
  interpret_returning_rows m [returning_row m r1] = [identity_of m r1].
Proof. exact table_order_is_not_identity_order. Qed.

(* ---- the excluded regions are genuinely defective: session <> database (all reproduced on the code) ---- *)
Theorem c43_mod_negative_refuted : exists sc e r,
  wt sc e = Some TyBool /\ guard e r = false /\ matched sc e (obj_of r) = Matched false /\ selected e r = false.
Proof. eexists _, _, _. exact mod_negative_refuted. Qed.
Print Assumptions c43_mod_negative_refuted.
Theorem c43_empty_in_null_operand_refuted : exists sc e r,
  wt sc e = Some TyBool /\ guard e r = false /\ matched sc e (obj_of r) = NotMatched /\ selected e r = true.
Proof. eexists _, _, _. exact empty_in_null_operand_refuted. Qed.
Print Assumptions c43_empty_in_null_operand_refuted.
Theorem c43_startswith_wildcard_refuted : exists sc e r,
  wt sc e = Some TyBool /\ guard e r = false /\ matched sc e (obj_of r) = NotMatched /\ selected e r = true.
Proof. eexists _, _, _. exact startswith_wildcard_refuted. Qed.
Print Assumptions c43_startswith_wildcard_refuted.
Theorem c43_startswith_case_refuted : exists sc e r,
  wt sc e = Some TyBool /\ guard e r = false /\ matched sc e (obj_of r) = NotMatched /\ selected e r = true.
Proof. eexists _, _, _. exact startswith_case_refuted. Qed.
Print Assumptions c43_startswith_case_refuted.
(* outside the hypotheses "fully loaded object", "boolean criterion" *)
Theorem c43_partially_expired_refuted : exists sc e r o sets c,
  wt sc e = Some TyBool /\ guard e r = true /\ matched sc e o = Matched true /\ selected e r = false /\
  (exists o', update_obj sc e sets o = OOk o' /\ o' c = Loaded (SInt 9)) /\ update_row e sets r c = SInt 0.
Proof. eexists _, _, _, _, _, _. exact partially_expired_refuted. Qed.
Print Assumptions c43_partially_expired_refuted.
Theorem c43_non_boolean_criterion_refuted : exists sc e r,
  wt sc e = Some TyInt /\ matched sc e (obj_of r) = NotMatched /\ selected e r = true.
Proof. eexists _, _, _. exact non_boolean_criterion_refuted. Qed.
Print Assumptions c43_non_boolean_criterion_refuted.

(* repaired by e2dd2ce and c4d3d0a: the former counterexamples are now positive instances *)
Example c43_not_in_null_fixed :
  let e := EIn true (ECol 0) [SInt 1; SNull] in
  let r := mkrow (SInt 0) (SInt 0) SNull SNull in
  wt scx e = Some TyBool /\ guard e r = true /\
  matched scx e (obj_of r) = NotMatched /\ selected e r = false /\ ev scx e (obj_of r) = POk VNone.
Proof. exact not_in_null_now_faithful. Qed.
Example c43_set_order_fixed :
  let e := ETrue in
  let sets := [(0%nat, ECol 1); (1%nat, ECol 0)] in
  let r := mkrow (SInt 1) (SInt 2) SNull SNull in
  (exists o', update_obj scx e sets (obj_of r) = OOk o' /\ o' 0%nat = Loaded (SInt 2) /\ o' 1%nat = Loaded (SInt 1)) /\
  update_row e sets r 0%nat = SInt 2 /\ update_row e sets r 1%nat = SInt 1.
Proof. exact set_order_now_faithful. Qed.

(* the AND defect fixed by 830775e: its witness is now inside the guarded region and faithful *)
Example c43_and_false_null_fixed :
  let e := ENot (EGroup (EAnd [EBin OGt (ECol 0) (lit_i 0); EBin OLt (ECol 1) (lit_i 0)])) in
  let r := mkrow SNull (SInt 0) SNull SNull in
  wt scx e = Some TyBool /\ guard e r = true /\ matched scx e (obj_of r) = Matched false /\ selected e r = true.
Proof. exact and_false_null_now_faithful. Qed.

(* non-vacuity: a deep typed criterion with NULLs, a negative number, IN, LIKE and arithmetic that satisfies
   every hypothesis of the guarded theorems *)
Example c43_ex_hyps :
  let crit := EOr [EAnd [EBin OGt (EBin OAdd (ECol 0) (lit_i 1)) (ECol 1);
                         ENot (EGroup (EOr [EIn false (ECol 1) [SInt 1; SNull]; EBin OIs (ECol 3) ENull]))];
                   EBin OStartsWith (ECol 2) (lit_s [97; 98]%N);
                   EBin OEq (EBin OMod (ECol 1) (lit_i 3)) (lit_i 2)] in
  let r := mkrow (SInt (-7)) (SInt 5) (str [97; 98; 99]%N) SNull in
  let sets := [(0%nat, EBin OMul (ECol 1) (lit_i 2)); (1%nat, EBin OAdd (ECol 0) (lit_i 1));
               (3%nat, EBin OConcat (ECol 2) (lit_s [122]%N))] in
  wt scx crit = Some TyBool /\ guard crit r = true /\ selected crit r = true /\
  targets_distinct sets = true /\ forallb (set_ok scx r) sets = true.
Proof. vm_compute. repeat split. Qed.
