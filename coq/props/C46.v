(* C46 - expired and refreshed attributes reflect the database.
   Model: coq/orm/Expire.v - one Session, any number of persistent instances (primary key k) with attributes a,
   any history of read / set / expire / expire_all / refresh / commit / rollback / populate_existing (full rows, or rows
   that carry only some columns) / expunge / add operations interleaved with updates by an external connection (Ext).  [reach ... r0 s]: s is reached from the state "all
   instances just loaded from rows r0" by some history.  [view s] = the rows the session's transaction sees: its
   snapshot when a transaction is open, the committed rows otherwise.  eoc = expire_on_commit. *)
From Coq Require Import List ZArith NArith Bool Arith.
Import ListNotations.
From SAV.orm Require Import Expire ExpireProofs ExpireMain.
Open Scope Z_scope.

(* clause 1.  After an operation that expires or refreshes attribute a of instance k
     [expires]: k is attached to the session, and the operation is expire(k[, names containing a]), refresh(k[, names
                containing a]), expire_all, populate_existing (whether or not the rows carry column a), commit with
                expire_on_commit (whether or not the transaction emitted SQL), rollback of an open transaction
   and after ANY further history l of operations and external updates in which (k, a) is not set again and no commit
   without expire_on_commit happens and k is not expunged [keeps], a read of k.a returns the value the database currently holds for the
   session's transaction: the committed value when no snapshot is open, the snapshot's value otherwise. *)
Theorem c46_read_after_expire_is_current_db_value :
  forall eoc pks attrs r0 s0 o l k a,
  reach eoc pks attrs r0 s0 -> expires eoc o s0 k a -> Forall (keeps eoc k a) l ->
  let s := run eoc pks attrs l (fst (step eoc pks attrs o s0)) in
  snd (step eoc pks attrs (Read k a) s) = RVal (Some (view s k a)) /\
  (snap s = None -> view s k a = com s k a) /\
  (forall g r, snap s = Some (g, r) -> view s k a = r k a).
Proof. exact main_read_after_expire. Qed.
Print Assumptions c46_read_after_expire_is_current_db_value.

(* clause 2.  A pending change of k.a (value v) that is not expired survives every history of operations that do not
   concern it [undisturbed]: reads (of anything, including reads that load other expired attributes of k), sets of
   other attributes, expire / refresh of other instances or with a name list not containing a, external updates; a
   read of k.a then returns v without a SELECT and changes nothing. *)
Theorem c46_unexpired_pending_kept :
  forall eoc pks attrs s l k a v,
  pending s k a v -> Forall (undisturbed k a) l ->
  step eoc pks attrs (Read k a) (run eoc pks attrs l s) = (run eoc pks attrs l s, RVal (Some v)) /\
  pending (run eoc pks attrs l s) k a v /\
  selects pks attrs (Read k a) (run eoc pks attrs l s) (RVal (Some v)) = 0%nat.
Proof. exact main_pending_kept. Qed.
Print Assumptions c46_unexpired_pending_kept.

Theorem c46_set_makes_pending :
  forall eoc pks attrs s k a v, pending (fst (step eoc pks attrs (SetA k a v) s)) k a v.
Proof. exact main_set_pending. Qed.
Print Assumptions c46_set_makes_pending.

(* clause 3.  refresh(k, names) (empty list = all attributes) of an attached instance in ANY state: exactly the named attributes of exactly
   instance k are overwritten with the transaction's values and lose their pending change; every other attribute
   keeps value, pending change and expired flag; other instances, the database and the transaction's view are
   untouched; one SELECT. *)
Theorem c46_refresh_overwrites_exactly_named_attrs :
  forall eoc pks attrs s k ns, oatt (objs s k) = true ->
  let s' := fst (step eoc pks attrs (Refresh k ns) s) in
  (forall a, named ns a = true ->
     oval (objs s' k) a = Some (view s k a) /\ orig (objs s' k) a = None /\ oexp (objs s' k) a = false) /\
  (forall a, named ns a = false ->
     oval (objs s' k) a = oval (objs s k) a /\ orig (objs s' k) a = orig (objs s k) a /\
     oexp (objs s' k) a = oexp (objs s k) a /\ omod (objs s' k) = omod (objs s k)) /\
  (forall k', k' <> k -> objs s' k' = objs s k') /\
  com s' = com s /\ gen s' = gen s /\ view s' = view s /\ snap s' <> None /\
  selects pks attrs (Refresh k ns) s (snd (step eoc pks attrs (Refresh k ns) s)) = 1%nat.
Proof. exact refresh_exact. Qed.
Print Assumptions c46_refresh_overwrites_exactly_named_attrs.

(* populate_existing from rows that lack loaded columns (partial-column statements, base-class queries): the columns in
   the row are overwritten with the transaction's values, every other attribute is discarded and marked expired, and
   no pending change survives - so nothing keeps an old value *)
Theorem c46_populate_existing_partial_rows :
  forall eoc pks attrs s ns k, oatt (objs s k) = true ->
  let s' := fst (step eoc pks attrs (PopExCols ns) s) in
  forall a, orig (objs s' k) a = None /\
    (in_row ns a = true -> oval (objs s' k) a = Some (view s k a)) /\
    (in_row ns a = false -> oval (objs s' k) a = None /\ oexp (objs s' k) a = true).
Proof. exact popex_cols_exact. Qed.
Print Assumptions c46_populate_existing_partial_rows.

(* the invariants the clauses rest on *)
Theorem c46_wellformed : forall eoc pks attrs r0 s, reach eoc pks attrs r0 s -> wf s.
Proof. exact reach_wf. Qed.
Print Assumptions c46_wellformed.
Theorem c46_synced_preserved : forall eoc pks attrs o s k a,
  keeps eoc k a o -> synced s k a -> synced (fst (step eoc pks attrs o s)) k a.
Proof. exact keeps_synced. Qed.
Print Assumptions c46_synced_preserved.

(* non-vacuity and the meaning of "for the transaction" *)
Example c46_ex_outside_transaction :
  snd (step false two four (Read 1 1) (run false two four [Commit; Expire 1 [1%nat]; Ext 1 1 50] (init r123))) = RVal (Some 50).
Proof. exact ex_outside_txn. Qed.
Example c46_ex_inside_transaction :
  snd (step false two four (Read 1 1) (run false two four [Expire 1 [1%nat]; Ext 1 1 50] (init r123))) = RVal (Some 1).
Proof. exact ex_inside_txn. Qed.
Example c46_ex_pending_kept :
  snd (step false two four (Read 1 2)
         (run false two four [SetA 1 2 77; Expire 1 [1%nat]; Ext 1 2 50; Refresh 1 [1%nat; 3%nat]; Read 1 1] (init r123)))
  = RVal (Some 77).
Proof. exact ex_pending_kept. Qed.
Example c46_ex_pending_discarded_by_its_expiry :
  snd (step false two four (Read 1 2)
         (run false two four [Commit; SetA 1 2 77; Ext 1 2 50; Expire 1 [2%nat]] (init r123)))
  = RVal (Some 50).
Proof. exact ex_pending_discarded. Qed.
Example c46_ex_commit_expire_on_commit :
  snd (step true two four (Read 1 1) (run true two four [SetA 1 1 5; Commit; Ext 1 1 50] (init r123))) = RVal (Some 50) /\
  snd (step false two four (Read 1 1) (run false two four [SetA 1 1 5; Commit; Ext 1 1 50] (init r123))) = RVal (Some 5).
Proof. exact ex_commit_eoc. Qed.
Example c46_ex_database_refuses_stale_flush :
  snd (step false two four Commit (run false two four [Ext 1 1 50; SetA 1 2 7] (init r123))) = RBusy /\
  snd (step false two four (Read 1 2) (run false two four [Ext 1 1 50; SetA 1 2 7; Commit] (init r123))) = RVal (Some 2).
Proof. exact ex_busy. Qed.
Example c46_ex_reattached_instance_expired_by_commit :
  snd (step true two four (Read 1 1)
         (run true two four [Expunge 1; Commit; Ext 1 1 50; Add 1; Commit] (init r123))) = RVal (Some 50) /\
  snd (step true two four (Read 1 1)
         (run true two four [Expunge 1; Commit; Ext 1 1 50] (init r123))) = RVal (Some 1).
Proof. exact ex_reattach. Qed.
Example c46_ex_populate_existing_partial_row :
  snd (step false two four (Read 1 2)
         (run false two four [Commit; Ext 1 2 50; SetA 1 2 77; PopExCols [1%nat]] (init r123))) = RVal (Some 50).
Proof. exact ex_popex_cols. Qed.
Example c46_ex_reachable : reach false two four r123 (run false two four [Commit; Ext 1 1 50] (init r123)).
Proof. exact ex_reach. Qed.
