(* C19 - dependency sorting is a correct topological order; cycles are exactly reported.
   Statements only; every proof is [exact <lemma>]. *)
From Coq Require Import List NArith Bool Permutation.
Import ListNotations.
From SAV.util Require Import Topo Cycles TopoProofs TopoCycle TopoExtra CyclesSound CyclesComplete CyclesExact.

(* each item exactly once *)
Theorem c19_sort_each_item_once : forall ts items out,
  sort ts items = Ok out -> Permutation out items.
Proof. exact sort_perm. Qed.
Print Assumptions c19_sort_each_item_once.

(* every dependency before its dependent (both ends being items) *)
Theorem c19_sort_respects_deps : forall ts items out, sort ts items = Ok out ->
  forall p c, In (p, c) ts -> In p items -> In c items ->
  exists l1 l2, out = l1 ++ l2 /\ In p l1 /\ In c l2.
Proof. exact sort_order. Qed.
Print Assumptions c19_sort_respects_deps.

(* strict layer order for sort_as_subsets *)
Theorem c19_subsets_layer_order : forall ts items r, sort_as_subsets ts items = Ok r ->
  forall p c, In (p, c) ts -> In p items -> In c items -> earlier r p c.
Proof. intros ts items r H. exact (subsets_order _ _ _ _ H). Qed.
Print Assumptions c19_subsets_layer_order.

(* the order is determined by the input only: the dependency pairs matter as a set (no influence of
   duplicates, of their order, or of the hash order of the Python sets built from them) *)
Theorem c19_sort_depends_on_edge_set_only : forall ts ts' items,
  (forall e, In e ts <-> In e ts') -> sort ts items = sort ts' items.
Proof. exact sort_edge_set. Qed.
Print Assumptions c19_sort_depends_on_edge_set_only.

(* fails with the circular-dependency error exactly when the dependencies among the items contain a cycle *)
Theorem c19_sort_fails_iff_cycle : forall ts items,
  sort ts items = Circular <-> exists w, cycle ts w /\ incl w items.
Proof. exact sort_circular_iff. Qed.
Print Assumptions c19_sort_fails_iff_cycle.

(* the fuel of the model is always sufficient: the third result is unreachable *)
Theorem c19_sort_total : forall ts items, sort ts items <> OutOfFuel.
Proof. exact sort_never_out_of_fuel. Qed.
Print Assumptions c19_sort_total.

(* cycle detection returns precisely the nodes lying on some cycle, whatever the iteration orders
   [ord] (of each adjacency set) and [starts] (of the node set) are *)
Theorem c19_find_cycles_exact : forall (ts : list edge) (ord : node -> list node) (starts : list node),
  (forall a b, In b (ord a) <-> In (a, b) ts) ->
  (forall a, In a starts <-> exists b, In (a, b) ts) ->
  exists out, find_cycles ord starts = Some out /\ forall x, In x out <-> on_cycle ts x.
Proof. intros ts ord starts H1 H2. exact (find_cycles_exact ts ord H1 starts H2). Qed.
Print Assumptions c19_find_cycles_exact.

(* non-vacuity: a graph with two overlapping cycles and an acyclic diamond *)
Example c19_ex_cycles :
  cycle [(1,2);(2,3);(3,1);(3,4);(4,2);(5,1)]%N [1;3;2;1]%N /\
  sort [(1,2);(2,3);(3,1);(3,4);(4,2);(5,1)]%N [1;2;3;4;5]%N = Circular.
Proof. split; [|vm_compute; reflexivity]. exists 1%N, [3;2]%N. split; [reflexivity|].
  repeat (apply bwS; [simpl; tauto|]). apply bw1. Qed.
Example c19_ex_diamond : sort [(1,2);(1,3);(2,4);(3,4)]%N [4;3;2;1]%N = Ok [1;3;2;4]%N.
Proof. vm_compute; reflexivity. Qed.
