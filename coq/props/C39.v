(* C39 - cascades follow their configured rules.  Statements only; proofs live in coq/orm/Cascade*.v.
   Model: coq/orm/Cascade.v (objects = nat, relationships = one-to-many + optional many-to-one backref). *)
From Coq Require Import List Bool Arith.
From SAV.orm Require Import Cascade CascadeOpts CascadeOptsProofs CascadeIterProofs CascadeOpsProofs
  CascadeFlushProofs CascadeFlushMain CascadeAppendProofs CascadeHistory CascadeFuel.
Import ListNotations.

(* ================= CascadeOptions: option names -> flags ================= *)
(* names: 0 save-update 1 merge 2 expunge 3 delete 4 delete-orphan 5 refresh-expire 6 all 7 none *)
Theorem c39_opts_invalid_iff : forall vs, parse_options vs = None <-> exists v, In v vs /\ v > 7.
Proof. exact opts_invalid_iff. Qed.
Print Assumptions c39_opts_invalid_iff.

Theorem c39_opts_all : forall vs, valid vs -> In 6 vs -> ~ In 7 vs ->
  exists w, parse_options vs = Some (mkCasc true true true true (mem 4 vs) true, w).
Proof. exact opts_all. Qed.
Print Assumptions c39_opts_all.

Theorem c39_opts_none : forall vs, valid vs -> In 7 vs -> parse_options vs = Some (no_casc, false).
Proof. exact opts_none. Qed.
Print Assumptions c39_opts_none.

Theorem c39_opts_plain : forall vs, valid vs -> ~ In 6 vs -> ~ In 7 vs ->
  parse_options vs = Some (mkCasc (mem 0 vs) (mem 1 vs) (mem 2 vs) (mem 3 vs) (mem 4 vs) (mem 5 vs),
                           mem 4 vs && negb (mem 3 vs)).
Proof. exact opts_plain. Qed.
Print Assumptions c39_opts_plain.

Theorem c39_opts_delete_orphan_requires_delete : forall vs c w,
  parse_options vs = Some (c, w) -> w = (c_do c && negb (c_dl c)).
Proof. exact opts_warning_iff. Qed.
Print Assumptions c39_opts_delete_orphan_requires_delete.

Theorem c39_opts_every_combination : forall c : casc, exists vs, valid vs /\ exists w, parse_options vs = Some (c, w).
Proof. exact opts_every_combination. Qed.
Print Assumptions c39_opts_every_combination.

(* ================= cascade_iterator = reachability along edges that carry the cascade ================= *)
(* for every configuration, every state (cyclic object graphs included), every cascade type and halt predicate *)
Theorem c39_cascade_iterator_eq_reach : forall cfg s t halt o x,
  In x (cascade_iter cfg s t halt o) <-> creach cfg s t halt o x.
Proof. exact cascade_iter_reach. Qed.
Print Assumptions c39_cascade_iterator_eq_reach.

Theorem c39_cascade_iterator_visits_once : forall cfg s t halt o, NoDup (cascade_iter cfg s t halt o).
Proof. exact cascade_iter_nodup. Qed.
Print Assumptions c39_cascade_iterator_visits_once.

(* ================= closures of the session operations (any state, i.e. after any history) ================= *)
(* save_update_closure: in_session after add(o) = before + o + what the save-update cascade reaches from o
   (the iterator halts at objects that are already in the session) *)
Theorem c39_save_update_closure : forall cfg s o,
  was_deleted s o = false ->
  (forall x, creach cfg (add_lead s o) TSU (in_session (add_lead s o)) o x -> was_deleted s x = false) ->
  let s' := fst (op_add cfg s o) in
  snd (op_add cfg s o) = 0 /\ poison s' = poison s /\
  (forall x, in_session s' x = true <->
             in_session s x = true \/ x = o \/ creach cfg (add_lead s o) TSU (in_session (add_lead s o)) o x) /\
  (forall x, x <> o -> ~ creach cfg (add_lead s o) TSU (in_session (add_lead s o)) o x -> st s' x = st s x).
Proof. exact add_closure. Qed.
Print Assumptions c39_save_update_closure.

(* delete marks exactly o and the objects with an identity that the delete cascade reaches *)
Theorem c39_delete_closure_marked : forall cfg s o,
  has_key s o = true -> was_deleted s o = false -> marked s o = false ->
  (forall x, creach cfg s TDL no_halt o x -> was_deleted s x = false) ->
  let s' := fst (op_delete cfg s o) in
  snd (op_delete cfg s o) = 0 /\ poison s' = poison s /\
  (forall x, marked s' x = true <->
             marked s x = true \/ x = o \/ (creach cfg s TDL no_halt o x /\ has_key s x = true)).
Proof. exact delete_closure. Qed.
Print Assumptions c39_delete_closure_marked.

Theorem c39_expunge_closure : forall cfg s o, attached s o = true ->
  let s' := fst (op_expunge cfg s o) in
  snd (op_expunge cfg s o) = 0 /\ poison s' = poison s /\
  (forall x, (x = o \/ creach cfg s TEX no_halt o x) -> st s' x = expunged (st s x)) /\
  (forall x, x <> o -> ~ creach cfg s TEX no_halt o x -> st s' x = st s x) /\
  (forall x, attached s' x = true <-> attached s x = true /\ x <> o /\ ~ creach cfg s TEX no_halt o x).
Proof. exact expunge_closure. Qed.
Print Assumptions c39_expunge_closure.

Theorem c39_refresh_expire_closure : forall cfg s o, st s o = Persistent ->
  let s' := fst (op_expire cfg s o) in
  snd (op_expire cfg s o) = 0 /\ poison s' = poison s /\
  (forall x, expired s' x = true <->
             expired s x = true \/ ((x = o \/ creach cfg s TRE no_halt o x) /\ has_key s x = true)) /\
  (forall x, st s' x = if is_pending s x then
                         (if mem x (cascade_iter cfg s TRE no_halt o) then Transient else Pending)
                       else st s x).
Proof. exact expire_closure. Qed.
Print Assumptions c39_refresh_expire_closure.

(* ================= save-update on append: the known defect ================= *)
Theorem c39_append_save_update_guarded : forall cfg s p ri c,
  attached s p = true -> c_su (fwd (getrel cfg ri)) = true -> mem c (coll s p ri) = false ->
  was_deleted s c = false -> moves_unsaved_child cfg s p ri c = false ->
  in_session (op_append cfg s p ri c) c = true /\ In c (coll (op_append cfg s p ri c) p ri).
Proof. exact append_save_update_guarded. Qed.
Print Assumptions c39_append_save_update_guarded.

Theorem c39_append_save_update_refuted :
  exists cfg s p ri c,
    attached s p = true /\ c_su (fwd (getrel cfg ri)) = true /\ mem c (coll s p ri) = false /\
    was_deleted s c = false /\ in_session s c = true /\ poison (op_append cfg s p ri c) = false /\
    In c (coll (op_append cfg s p ri c) p ri) /\ in_session (op_append cfg s p ri c) c = false /\
    rowp (fst (op_flush cfg (op_append cfg s p ri c))) c = false /\
    rowp (fst (op_flush cfg (op_append cfg s p ri c))) p = true.
Proof. exact append_save_update_refuted. Qed.
Print Assumptions c39_append_save_update_refuted.

Example c39_guard_is_satisfiable_and_excludes_the_witness :
  moves_unsaved_child wit_cfg wit_state 0 0 2 = true /\
  moves_unsaved_child wit_cfg (run wit_cfg [OAdd 0; OAdd 1; OAppend 1 0 2; OFlush]) 0 0 2 = false.
Proof. vm_compute. split; reflexivity. Qed.

(* ================= flush: what is deleted, for every processor order [procs] ================= *)
(* flush_regs cfg procs s u : the unit of work ended its presort loop with registrations u
   (reg u x = Some true: DELETE, Some false: INSERT/UPDATE) *)
Theorem c39_flush_outcome : forall cfg procs s u,
  flush_regs cfg procs s u ->
  existsb (fun o => is_del u o && negb (has_key (fst (flush_top cfg s)) o)) (order u) = false ->
  let s' := fst (flush_with cfg procs s) in
  snd (flush_with cfg procs s) = 0 /\ poison s' = poison s /\
  (forall x, st s' x = match reg u x with
                       | Some true => Deleted | Some false => Persistent | None => st (fst (flush_top cfg s)) x end) /\
  (forall x, rowp s' x = match reg u x with Some b => negb b | None => rowp s x end).
Proof. exact flush_outcome. Qed.
Print Assumptions c39_flush_outcome.

(* the presort loop never runs out of fuel (the distinguished "unmodelled" result is unreachable through it) *)
Theorem c39_flush_fuel_suffices : forall cfg procs s,
  incl procs (all_procs cfg) -> (forall x, in_session s x = true -> x < nobj cfg) ->
  presort cfg (fst (flush_top cfg s)) procs (presort_fuel cfg) (snd (flush_top cfg s)) <> None.
Proof. exact flush_fuel_suffices. Qed.
Print Assumptions c39_flush_fuel_suffices.

(* orphan_rule: removed from a delete-orphan collection (flag cleared: _is_orphan) and not re-associated => deleted *)
Theorem c39_orphan_rule : forall cfg procs s u c,
  flush_regs cfg procs s u ->
  existsb (fun o => is_del u o && negb (has_key (fst (flush_top cfg s)) o)) (order u) = false ->
  In c (top_proc cfg s) -> has_key s c = true -> is_orphan cfg s c = true ->
  (forall p ri, ~ In c (h_added (hist_coll s p ri))) ->
  st (fst (flush_with cfg procs s)) c = Deleted /\ rowp (fst (flush_with cfg procs s)) c = false.
Proof. exact flush_orphan_rule. Qed.
Print Assumptions c39_orphan_rule.

(* delete_closure at flush, first half: whatever Session.delete marked is deleted *)
Theorem c39_flush_marked_deleted : forall cfg procs s u x,
  flush_regs cfg procs s u ->
  existsb (fun o => is_del u o && negb (has_key (fst (flush_top cfg s)) o)) (order u) = false ->
  x < nobj cfg -> marked s x = true -> st s x = Persistent ->
  (forall p ri, ~ In x (h_added (hist_coll s p ri))) ->
  st (fst (flush_with cfg procs s)) x = Deleted /\ rowp (fst (flush_with cfg procs s)) x = false.
Proof. exact flush_marked_deleted. Qed.
Print Assumptions c39_flush_marked_deleted.

(* ... and the hypothesis "not added to another collection" is necessary: register_object(cancel_delete=True) *)
Theorem c39_flush_marked_deleted_refuted :
  exists cfg s x,
    poison s = false /\ marked s x = true /\ st s x = Persistent /\ snd (op_flush cfg s) = 0 /\
    st (fst (op_flush cfg s)) x = Persistent /\ rowp (fst (op_flush cfg s)) x = true /\
    marked (fst (op_flush cfg s)) x = true /\
    (exists p ri, In x (h_added (hist_coll s p ri))) /\
    (exists ri p, rowfk (fst (op_flush cfg s)) x ri = Some p /\ c_do (fwd (getrel cfg ri)) = true /\
                  rowp (fst (op_flush cfg s)) p = false).
Proof. exact flush_marked_deleted_refuted. Qed.
Print Assumptions c39_flush_marked_deleted_refuted.

(* delete_closure at flush, second half: deleted at flush  is included in  marked + orphans + reach_delete(orphans)
   (+ the targets of a many-to-one delete cascade) *)
Theorem c39_flush_deletes_only_justified : forall cfg procs s u x,
  flush_regs cfg procs s u -> reg u x = Some true ->
  marked s x = true \/ (is_orphan cfg s x = true /\ has_key s x = true) \/
  exists y, (orphan_of cfg s y \/ m2o_target cfg s y) /\ (x = y \/ creach cfg s TDL no_halt y x).
Proof. exact flush_deletes_justified. Qed.
Print Assumptions c39_flush_deletes_only_justified.

(* rows after a flush match the object states: deleted objects have no row, saved ones have one *)
Theorem c39_flush_rows_match_states : forall cfg procs s u,
  flush_regs cfg procs s u ->
  existsb (fun o => is_del u o && negb (has_key (fst (flush_top cfg s)) o)) (order u) = false ->
  forall x, reg u x <> None ->
  (st (fst (flush_with cfg procs s)) x = Deleted /\ rowp (fst (flush_with cfg procs s)) x = false) \/
  (st (fst (flush_with cfg procs s)) x = Persistent /\ rowp (fst (flush_with cfg procs s)) x = true).
Proof. exact flush_rows_match_states. Qed.
Print Assumptions c39_flush_rows_match_states.

(* no_dangling_orphan_rows does NOT hold for all histories: appending to a parent that is marked for deletion *)
Theorem c39_no_dangling_orphan_rows_refuted :
  exists cfg ops, poison (run cfg ops) = false /\
    exists c ri p, rowp (run cfg ops) c = true /\ rowfk (run cfg ops) c ri = Some p /\
                   c_do (fwd (getrel cfg ri)) = true /\ rowp (run cfg ops) p = false.
Proof. exact no_dangling_orphan_rows_refuted. Qed.
Print Assumptions c39_no_dangling_orphan_rows_refuted.

(* ================= invariants over ALL histories (induction over the operation list) ================= *)
(* a row exists exactly for the persistent and detached objects; session.deleted holds persistent objects only *)
Theorem c39_rows_iff_identity_all_histories : forall cfg ops x,
  rowp (run cfg ops) x = has_row_state (st (run cfg ops) x) /\
  (marked (run cfg ops) x = true -> st (run cfg ops) x = Persistent).
Proof. exact run_rows_inv. Qed.
Print Assumptions c39_rows_iff_identity_all_histories.

(* hypotheses of the flush theorems are satisfiable: a history that orphans a persistent child *)
Example c39_orphan_rule_example :
  let s := run wit_cfg [OAdd 0; OAppend 0 0 2; OFlush; ORemove 0 0 2] in
  In 2 (top_proc wit_cfg s) /\ has_key s 2 = true /\ is_orphan wit_cfg s 2 = true /\
  st (fst (op_flush wit_cfg s)) 2 = Deleted /\ rowp (fst (op_flush wit_cfg s)) 2 = false /\ rowp s 2 = true.
Proof. vm_compute. repeat split; auto. Qed.
