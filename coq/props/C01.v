(* C01 - rendered SQL preserves the meaning of the expression tree (operator core).
   Statements only; proofs are applications of lemmas from SAV.sql.*. *)
From Coq Require Import List Arith ZArith NArith Bool.
Import ListNotations.
From SAV.sql Require Import Prec SAExpr C01Tables C01Proofs C01Main C01Sem C01Inst C01Ref.

(* 1. generic precedence-climbing round trip: for ANY grammar table and ANY printed tree whose
      unparenthesised operator occurrences bind tightly enough (ok), the parser returns the tree *)
Theorem c01_parse_print_general :
  forall (lbp rbp pbp : nat -> nat) (binops unops : list nat) (lctx rctx uctx ulev : nat -> nat),
  (forall o, In o binops -> rbp o <= rctx o) -> (forall o, In o binops -> lbp o <= rctx o) ->
  (forall o, In o binops -> lbp o <= lctx o) -> (forall u, In u unops -> pbp u <= uctx u) ->
  (forall u, In u unops -> ulev u <= uctx u) ->
  (forall o, In o binops -> stops lbp rbp pbp binops unops ulev (lctx o) o) ->
  forall e, ok lbp binops unops lctx rctx uctx ulev 0 e ->
  exists f, parse lbp rbp pbp f 0 (flat e) = Some (erase e, []).
Proof. exact parse_flat_top. Qed.
Print Assumptions c01_parse_print_general.

(* 2. SQLAlchemy side: under the finite table check, the backend grammar reads the rendered text of
      every constructed expression as its intended tree (n-ary lists read left-nested, Grouping erased).
      [uses allowed x] : every ungrouped parent/child operator pair occurring in x is in [allowed]. *)
Theorem c01_backend_reads_intended_tree :
  forall (T : satab) (Bk : btab) (allowed : nat -> nat -> bool),
  compat T Bk allowed = true -> neg_wf T = true ->
  forall t, wf_u t -> uses allowed (construct T t) ->
  exists f, parse (g_lbp Bk) (g_rbp Bk) (g_pbp Bk) f 0 (render (construct T t))
            = Some (erase (lower (construct T t)), []).
Proof. exact c01_structure. Qed.
Print Assumptions c01_backend_reads_intended_tree.

(* whatever fuel makes the parser answer, the answer is that tree *)
Theorem c01_backend_answer_unique :
  forall (T : satab) (Bk : btab) (allowed : nat -> nat -> bool),
  compat T Bk allowed = true -> neg_wf T = true ->
  forall t, wf_u t -> uses allowed (construct T t) ->
  forall f r, parse (g_lbp Bk) (g_rbp Bk) (g_pbp Bk) f 0 (render (construct T t)) = Some r ->
  r = (erase (lower (construct T t)), []).
Proof. exact c01_structure_unique. Qed.
Print Assumptions c01_backend_answer_unique.

(* full-strength form: if the check passes with every pair allowed, no side condition on the tree *)
Theorem c01_all_trees : forall (T : satab) (Bk : btab),
  compat T Bk allowed_all = true -> neg_wf T = true -> forall t, wf_u t ->
  exists f, parse (g_lbp Bk) (g_rbp Bk) (g_pbp Bk) f 0 (render (construct T t))
            = Some (erase (lower (construct T t)), []).
Proof. intros T Bk Hc Hn t Hw. exact (c01_structure T Bk allowed_all Hc Hn t Hw (uses_all _)). Qed.
Print Assumptions c01_all_trees.

(* 3. meaning: flattening of associative operators and of and_/or_, and negation rewriting
      (NOT (a = b) -> a != b ...) preserve evaluation, for ANY operator semantics with the two laws *)
Theorem c01_meaning_preserved_general :
  forall (T : satab) (V : Type) (bsem : nat -> V -> V -> V) (usem : nat -> V -> V) (env : nat -> V),
  (forall o, In o binops -> flattens T o = true -> forall a b c, bsem o (bsem o a b) c = bsem o a (bsem o b c)) ->
  (forall o no, In o binops -> negate T o = Some no -> forall a b, usem INV (bsem o a b) = bsem no a b) ->
  neg_wf T = true -> forall t, wf_u t ->
  eval V bsem usem env (erase (lower (construct T t))) = eval V bsem usem env (full t).
Proof. exact construct_sound. Qed.
Print Assumptions c01_meaning_preserved_general.

(* ... instantiated with NULL / exact integers / text and Kleene logic: the laws follow from the
   finite per-run check [sem_side] on the regenerated table, for every LIKE matcher and every row *)
Theorem c01_meaning_preserved_3vl :
  forall (T : satab), sem_side T = true -> neg_wf T = true ->
  forall (likeb : list N -> list N -> bool) (row : nat -> sv) t, wf_u t ->
  eval sv (bsem3 likeb) usem3 row (erase (lower (construct T t))) = eval sv (bsem3 likeb) usem3 row (full t).
Proof.
  intros T Hs Hn likeb row t Hw.
  exact (construct_sound T sv (bsem3 likeb) usem3 row (inst_assoc likeb T Hs) (inst_neg likeb T Hs) Hn t Hw).
Qed.
Print Assumptions c01_meaning_preserved_3vl.

(* 4. end to end: what the backend grammar parses out of the rendered text evaluates, on every row, to
      the value of the fully parenthesised tree *)
Theorem c01_rendered_text_means_the_tree :
  forall (T : satab) (Bk : btab) (allowed : nat -> nat -> bool),
  compat T Bk allowed = true -> neg_wf T = true -> sem_side T = true ->
  forall (likeb : list N -> list N -> bool) (row : nat -> sv) t, wf_u t -> uses allowed (construct T t) ->
  forall f p rest, parse (g_lbp Bk) (g_rbp Bk) (g_pbp Bk) f 0 (render (construct T t)) = Some (p, rest) ->
  rest = [] /\ eval sv (bsem3 likeb) usem3 row p = eval sv (bsem3 likeb) usem3 row (full t).
Proof.
  intros T Bk allowed Hc Hn Hs likeb row t Hw Hu f p rest Hp.
  pose proof (c01_structure_unique T Bk allowed Hc Hn t Hw Hu f (p, rest) Hp) as E.
  inversion E; subst. split; [reflexivity|].
  exact (construct_sound T sv (bsem3 likeb) usem3 row (inst_assoc likeb T Hs) (inst_neg likeb T Hs) Hn t Hw).
Qed.
Print Assumptions c01_rendered_text_means_the_tree.

(* 5. the reference table: SQLite and PostgreSQL claims hold on their allowed regions ... *)
Example c01_ref_compat_sqlite_guarded : compat T_ref B_sqlite allowed_sqlite = true.
Proof. vm_compute; reflexivity. Qed.
Example c01_ref_compat_pg_guarded : compat T_ref B_pg allowed_pg = true.
Proof. vm_compute; reflexivity. Qed.
Example c01_ref_side : neg_wf T_ref = true /\ sem_side T_ref = true.
Proof. split; vm_compute; reflexivity. Qed.

(* ... and the unrestricted SQLite claim is REFUTED: (c0 * c1) || s10 is rendered  c0 * c1 || s10 ,
   which the SQLite grammar reads as  c0 * (c1 || s10)  - not the intended tree *)
Definition c01_witness : uex := UB CONCAT (UB MUL (UA 0) (UA 1)) (UA 10).
Theorem c01_sqlite_refuted :
  compat T_ref B_sqlite allowed_all = false /\
  wf_u c01_witness /\
  parse (g_lbp B_sqlite) (g_rbp B_sqlite) (g_pbp B_sqlite) 20 0 (render (construct T_ref c01_witness))
    = Some (PB MUL (PA 0) (PB CONCAT (PA 1) (PA 10)), []) /\
  erase (lower (construct T_ref c01_witness)) = PB CONCAT (PB MUL (PA 0) (PA 1)) (PA 10).
Proof.
  split; [vm_compute; reflexivity|]. split.
  - cbn. repeat split; try discriminate; vm_compute; tauto.
  - split; vm_compute; reflexivity.
Qed.
Print Assumptions c01_sqlite_refuted.

(* non-vacuity: a tree exercising flattening, negation rewriting, NOT over AND, unary minus *)
Definition c01_example : uex :=
  UOr (UNot (UB EQ (UB ADD (UA 0) (UB ADD (UA 1) (UNeg (UA 2)))) (UA 3)))
      (UAnd (UNot (UAnd (UB LT (UA 0) (UA 1)) (UB LIKE (UA 10) (UA 11)))) (UB IS (UA 2) (UA 99))).
Example c01_example_ok :
  wf_u c01_example /\ uses allowed_sqlite (construct T_ref c01_example) /\
  parse (g_lbp B_sqlite) (g_rbp B_sqlite) (g_pbp B_sqlite) 40 0 (render (construct T_ref c01_example))
    = Some (erase (lower (construct T_ref c01_example)), []).
Proof.
  split; [cbn; repeat split; try discriminate; vm_compute; tauto|].
  split; [vm_compute; tauto|vm_compute; reflexivity].
Qed.
