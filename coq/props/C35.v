(* C35 - object lifecycle states and events follow the documented state machine.
   Statements only; every proof is [exact <lemma>].

   Model: SAV.orm.Lifecycle (one Session, growing set of objects, the operations add / delete / expunge /
   flush / commit / rollback / close / merge / make_transient / make_transient_to_detached; attribute-level
   state and database contents are inputs of each operation and universally quantified here).
   The log of a run records every change of an object's lifecycle state ([Chg i from to]) and every
   lifecycle event the code fires ([Ev i event state_of_the_object_when_fired]). *)
From Coq Require Import List ZArith Bool.
Import ListNotations.
From SAV.orm Require Import Lifecycle LifecycleSpec LifecycleLemmas LifecycleMain LifecycleRefuted.
Open Scope Z_scope.

(* exactly_one_state: the five InstanceState predicates partition every InstanceState (hence every
   reachable one): exactly one of them is true *)
Theorem c35_exactly_one_state : forall o,
  (if is_transient o then 1 else 0) + (if is_pending o then 1 else 0) + (if is_persistent o then 1 else 0)
  + (if is_deleted o then 1 else 0) + (if is_detached o then 1 else 0) = 1.
Proof. exact one_state. Qed.
Print Assumptions c35_exactly_one_state.

(* ... and the state the transition log speaks about is the one whose predicate is true *)
Theorem c35_state_is_the_true_predicate : forall o,
  match lc_of o with
  | Transient => is_transient o | Pending => is_pending o | Persistent => is_persistent o
  | Deleted => is_deleted o | Detached => is_detached o | Absent => false
  end = true.
Proof. exact state_is_lc. Qed.
Print Assumptions c35_state_is_the_true_predicate.

(* only_documented_transitions, on the guarded region: in every history (any length, any objects, any
   database / attribute environment) that stays inside the guard, every state change of every object is
   a row of the documented table *)
Theorem c35_only_documented_transitions_guarded : forall eoc pks h,
  guarded h (init eoc pks) = true ->
  forall i f t, In (Chg i f t) (slog (run h (init eoc pks))) -> exists e, documented f t e = true.
Proof. exact guarded_transitions_documented. Qed.
Print Assumptions c35_only_documented_transitions_guarded.

(* outside the guard it fails: add, flush, delete, flush, rollback moves the object deleted -> transient *)
Theorem c35_only_documented_transitions_refuted : exists eoc pks h i f t,
  In (Chg i f t) (slog (run h (init eoc pks))) /\ forall e, documented f t e = false.
Proof. exists true, [1], h_flush_delete_rollback, 0%nat, Deleted, Transient. exact flush_delete_rollback_undocumented. Qed.
Print Assumptions c35_only_documented_transitions_refuted.

(* events_iff_transitions, on the guarded region: the log is a sequence of blocks "documented transition,
   then exactly its event" / "documented event-less transition" *)
Theorem c35_events_iff_transitions_guarded : forall eoc pks h,
  guarded h (init eoc pks) = true -> wf (slog (run h (init eoc pks))).
Proof. exact guarded_log_wf. Qed.
Print Assumptions c35_events_iff_transitions_guarded.

(* what [wf] means, item by item: each transition is followed at once by the event documented for it
   (same object, object in the target state), unless it is documented without an event ... *)
Theorem c35_each_transition_fires_its_event_once : forall eoc pks h,
  guarded h (init eoc pks) = true ->
  forall l1 i f t l2, slog (run h (init eoc pks)) = l1 ++ Chg i f t :: l2 ->
  documented f t None = true \/ exists e l3, documented f t (Some e) = true /\ l2 = Ev i e t :: l3.
Proof. intros eoc pks h G. exact (wf_transition_then_event _ (guarded_log_wf eoc pks h G)). Qed.
Print Assumptions c35_each_transition_fires_its_event_once.

(* ... and no event fires otherwise: each event directly follows the transition it is documented for *)
Theorem c35_no_event_without_its_transition : forall eoc pks h,
  guarded h (init eoc pks) = true ->
  forall l1 i e t l2, slog (run h (init eoc pks)) = l1 ++ Ev i e t :: l2 ->
  exists l0 f, l1 = l0 ++ [Chg i f t] /\ documented f t (Some e) = true.
Proof. intros eoc pks h G. exact (wf_event_after_transition _ (guarded_log_wf eoc pks h G)). Qed.
Print Assumptions c35_no_event_without_its_transition.

(* refuted outside the guard: add, flush, expunge, rollback - the expunged object is still in the snapshot of the
   transaction, rollback() moves it detached -> transient and announces persistent_to_transient *)
Theorem c35_events_iff_transitions_refuted : exists eoc pks h,
  guarded h (init eoc pks) = false /\ ~ wf (slog (run h (init eoc pks))).
Proof. exists true, [1], h_expunge_rollback. split; [vm_compute; reflexivity|exact expunge_rollback_not_wf]. Qed.
Print Assumptions c35_events_iff_transitions_refuted.

(* further deviations found while building the check; each lies outside the guard *)
Theorem c35_delete_twice_refuted : ~ wf (slog (run h_redelete (init true [1]))).
Proof. exact redelete_not_wf. Qed.
Print Assumptions c35_delete_twice_refuted.
Theorem c35_delete_of_was_deleted_refuted : ~ wf (slog (run h_delete_was_deleted (init true [1]))).
Proof. exact delete_was_deleted_not_wf. Qed.
Print Assumptions c35_delete_of_was_deleted_refuted.
Theorem c35_was_already_deleted_refuted : ~ wf (slog (run h_was_already_deleted (init true [1; 1]))).
Proof. exact was_already_deleted_not_wf. Qed.
Print Assumptions c35_was_already_deleted_refuted.
Theorem c35_second_snapshot_restore_refuted : ~ wf (slog (run h_second_restore (init true [1; 2]))).
Proof. exact second_restore_not_wf. Qed.
Print Assumptions c35_second_snapshot_restore_refuted.

(* the guard is satisfiable by a history through all ten operations and nine of the ten events *)
Example c35_ex_guarded : guarded h_good (init true [1; 2]) = true /\
  length (slog (run h_good (init true [1; 2]))) = 26%nat.
Proof. exact good_guarded. Qed.
(* the formerly known defect - delete(obj) without a flush, then rollback(), fired deleted_to_persistent although the
   object never left persistent - is repaired (/repo 93a87c1): the history is inside the guard and fires nothing *)
Example c35_ex_delete_rollback_repaired : guarded h_delete_rollback (init true [1]) = true /\
  slog (run h_delete_rollback (init true [1])) =
    [Chg 0 Transient Pending; Ev 0 T2P Pending; Chg 0 Pending Persistent; Ev 0 P2S Persistent].
Proof. exact (conj delete_rollback_guarded delete_rollback_log). Qed.
(* the remaining witnesses are outside it *)
Example c35_ex_unguarded : guarded h_redelete (init true [1]) = false.
Proof. vm_compute. reflexivity. Qed.
