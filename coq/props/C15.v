(* C15 - reflection reproduces the schema that was created (PARTIAL: SQLite; the UNIQUE-constraint parser,
   the constraint-name group it shares with the FOREIGN KEY / PRIMARY KEY patterns, and type affinity are
   modelled; see coq/sql/Reflect.v).  The per-run file Gen_C15_obl.v re-instantiates ddl_parse_roundtrip and
   type_affinity_stable with the identifier and type tables regenerated from the current source. *)
From Coq Require Import List NArith Bool.
Import ListNotations.
From SAV.sql Require Import Ident Reflect ReflectProofs ReflectAffinity ReflectTheorems ReflectIndex ReflectInfo.
Open Scope N_scope.

(* parse_master_sql (render_ddl tbl) = constraints_of tbl: for EVERY text made of arbitrary segments (header,
   column specifications, other clauses, separators) and rendered UNIQUE clauses, the regex parser of
   get_unique_constraints returns exactly the created constraints - names and column lists - provided the
   boolean guard holds: names contain no newline and no double quote followed by white space, names left bare
   consist of [\w$]; columns contain no double quote / newline / ")" and bare ones consist of [a-z0-9_]; no match
   starts inside a segment *)
Theorem c15_ddl_parse_roundtrip : forall uni p, prep_dq p = true ->
  forall ps text, wf_parts uni p ps = true -> render_parts p ps = Ok text ->
  parse_uqs uni text = uniques_of ps.
Proof. exact ddl_parse_roundtrip. Qed.
Print Assumptions c15_ddl_parse_roundtrip.
Example c15_wf_satisfiable : prep_dq demo_prep = true /\
  wf_parts no_uni demo_prep (demo_parts (Some [117; 113; 32; 49]) [97; 32; 98]) = true /\
  wf_parts no_uni demo_prep (demo_parts (Some [117; 113]) [120]) = true /\
  wf_parts no_uni demo_prep (demo_parts (Some [97; 34; 98]) [120]) = true /\
  wf_parts no_uni demo_prep (demo_parts (Some [98; 36]) [120]) = true.
Proof. exact wf_demo. Qed.

(* ... and get_unique_constraints (the join with SQLite's sqlite_autoindex signatures) reports them all *)
Theorem c15_reflect_uniques_roundtrip : forall uni p, prep_dq p = true ->
  forall ps text auto inline, wf_parts uni p ps = true -> render_parts p ps = Ok text ->
  NoDup (map snd (uniques_of ps)) -> incl (map snd (uniques_of ps)) auto -> NoDup auto ->
  (forall s, In s inline -> ~ In s auto \/ In s (map snd (uniques_of ps))) ->
  reflect_uniques uni auto inline text = uniques_of ps.
Proof. exact reflect_uniques_roundtrip. Qed.
Print Assumptions c15_reflect_uniques_roundtrip.

(* one clause: whatever follows it, the attempt at its first character yields name, column text and the rest *)
Theorem c15_unique_clause_matched : forall uni p, prep_dq p = true ->
  forall n cols qn qcols rest, quote_opt p n = Ok qn -> quote_all p cols = Ok qcols ->
  opt_name_ok uni p n = true -> cols <> [] -> cols_ok p cols = true ->
  uq_at uni (render_unique qn qcols ++ rest) = Some (n, join_cols qcols, rest).
Proof. exact uq_at_rendered. Qed.
Print Assumptions c15_unique_clause_matched.

(* the CONSTRAINT-name group (shared by UNIQUE_PATTERN, FK_PATTERN and PK_PATTERN) reads a rendered name back,
   whatever keyword clause follows *)
Theorem c15_constraint_name_group : forall uni p, prep_dq p = true ->
  forall R (tail : str -> option R) v q X x, quote p v = Ok q -> name_ok uni v q = true ->
  (forall c X', X = c :: X' -> is_space c = false) -> X <> [] -> tail X = Some x ->
  named uni tail (lit_constraint ++ q ++ sp :: X) = Some (v, x).
Proof. exact named_rendered. Qed.
Print Assumptions c15_constraint_name_group.

(* REFUTED outside the guard (each reproduced on live SQLite on every run) *)
(* repaired (/repo ae21374, 24f65cc): names containing a double quote, bare names containing $ *)
Example c15_uq_name_dquote_roundtrip : demo_reflect (Some [97; 34; 98]) [120] = Some [(Some [97; 34; 98], [[120]])].
Proof. exact uq_name_dquote_roundtrip. Qed.
Example c15_uq_name_dollar_roundtrip : demo_reflect (Some [98; 36]) [120] = Some [(Some [98; 36], [[120]])].
Proof. exact uq_name_dollar_roundtrip. Qed.
Theorem c15_uq_name_dquote_space_refuted : demo_reflect (Some evil_name) [120] <> Some [(Some evil_name, [[120]])].
Proof. exact uq_name_dquote_space_refuted. Qed.
Theorem c15_uq_name_newline_refuted : demo_reflect (Some [97; 10; 98]) [120] = Some [(None, [[120]])].
Proof. exact uq_name_newline_refuted. Qed.
Theorem c15_uq_col_dollar_refuted : demo_reflect None [98; 36] = Some [(None, [[98]])].
Proof. exact uq_col_dollar_refuted. Qed.
Theorem c15_uq_col_dquote_refuted : demo_reflect None [97; 34; 98] = Some [(None, [[97]; [98]])].
Proof. exact uq_col_dquote_refuted. Qed.
Theorem c15_uq_col_rparen_refuted : demo_reflect None [97; 41; 98] = Some [(None, [[97]])].
Proof. exact uq_col_rparen_refuted. Qed.
Theorem c15_uq_col_newline_refuted : demo_reflect None [97; 10; 98] = Some [].
Proof. exact uq_col_newline_refuted. Qed.
Theorem c15_uq_col_dropped_refuted :
  reflect_uniques no_uni [[[98; 36]]] []
    (match render_parts demo_prep (demo_parts None [98; 36]) with Ok t => t | RaiseIndexError => [] end) = [].
Proof. exact uq_col_dropped_refuted. Qed.
Print Assumptions c15_uq_name_newline_refuted.
Print Assumptions c15_uq_col_dropped_refuted.

(* type_affinity_stable: reflect -> re-create -> reflect is a fixed point: the type the dialect reflects,
   rendered by the type compiler, reflects to the same class and renders to the same text - for every type
   table passing the boolean check (evaluated per run on the table regenerated from the dialect) *)
Theorem c15_type_affinity_stable : forall tab, aff_ok tab = true ->
  forall t text, canon_args t -> render_type tab t = Some text ->
  rt_class (affinity tab text) = rt_class t /\ render_type tab (affinity tab text) = Some text.
Proof. exact type_affinity_stable. Qed.
Print Assumptions c15_type_affinity_stable.
(* every reflected type satisfies the hypothesis *)
Theorem c15_reflected_types_canonical : forall tab s, canon_args (affinity tab s).
Proof. exact affinity_canon. Qed.
Print Assumptions c15_reflected_types_canonical.

(* ---- attributes that do not come from the CREATE TABLE text *)
(* nullable: reflect(create(T)) = T for EVERY column, primary key members included, for every rule that ignores
   the primary key flag (the rule is extracted from get_columns on every run: gen_nullable_rule_ok) *)
Theorem c15_nullable_roundtrip : forall rule, (forall nn pk, rule nn pk = negb nn) ->
  forall c, reflect_nullable rule c = c_nullable c.
Proof. exact nullable_roundtrip. Qed.
Print Assumptions c15_nullable_roundtrip.
Theorem c15_nullable_pk_rule_refuted :
  reflect_nullable (fun nn pk => negb nn && negb pk) {| c_nullable := true; c_pk := 2 |} = false.
Proof. exact nullable_pk_rule_refuted. Qed.

(* partial indexes: the WHERE predicate of the rendered CREATE INDEX is read back ... *)
Theorem c15_index_pred_roundtrip : forall unique qname qtable qcols w,
  pred_ok w = true ->
  iclean (render_index_head unique qname qtable qcols) (rpar :: [sp] ++ kwWHERE ++ [sp] ++ w) = true ->
  pred_search (render_index unique qname qtable qcols (Some w)) = Some w.
Proof. exact index_pred_roundtrip. Qed.
Print Assumptions c15_index_pred_roundtrip.
Example c15_index_guard_satisfiable : pred_ok [120; 32; 62; 32; 48] = true /\
  iclean (render_index_head true [117; 113] [116] [[120]]) (rpar :: [sp] ++ kwWHERE ++ [sp] ++ [120; 32; 62; 32; 48]) = true.
Proof. vm_compute. auto. Qed.
(* ... through the catalog of the schema the table lives in (sqlite_where and its absence), provided the
   lookup query names that schema (extracted from get_indexes on every run: gen_index_query_qualified_ok) *)
Theorem c15_reflect_where_roundtrip : forall ms schema m iname unique qname qtable qcols where_,
  assoc_s ms (query_schema true schema) = Some m ->
  assoc_s m iname = Some (render_index unique qname qtable qcols where_) ->
  match where_ with
  | Some w => pred_ok w = true /\
              iclean (render_index_head unique qname qtable qcols) (rpar :: [sp] ++ kwWHERE ++ [sp] ++ w) = true
  | None => iclean (render_index_head unique qname qtable qcols) [rpar] = true
  end ->
  reflect_where true ms schema iname = where_.
Proof. exact reflect_where_roundtrip. Qed.
Print Assumptions c15_reflect_where_roundtrip.
Theorem c15_unqualified_index_query_refuted :
  reflect_where true demo_masters (Some [97; 117; 120]) [117; 113] = Some [120; 32; 62; 32; 48] /\
  reflect_where false demo_masters (Some [97; 117; 120]) [117; 113] = None.
Proof. exact unqualified_index_query_refuted. Qed.
Example c15_index_pred_newline_roundtrip :
  pred_search (render_index false [105] [116] [[120]] (Some [34; 97; 10; 98; 34; 32; 62; 32; 48])) =
  Some [34; 97; 10; 98; 34; 32; 62; 32; 48].
Proof. exact index_pred_newline_roundtrip. Qed.

(* ---- _ReflectionInfo.update: the merge used when a table is reflected because a foreign key points at it keeps
        EVERY category of the pulled-in table (unique constraints included), when update() visits every category
        (extracted from the source on every run: gen_info_merged_ok) *)
Theorem c15_reflection_info_update_complete : forall merged nfields, (forall f, f < nfields -> memN' f merged = true) ->
  forall self other f k, f < nfields ->
  lookup (update merged self other) f k =
  match lookup other f k with Some v => Some v | None => lookup self f k end.
Proof. exact update_complete. Qed.
Print Assumptions c15_reflection_info_update_complete.
Theorem c15_update_missing_category_refuted :
  let self := fun f => Some [(1, 10 + f)] in
  let other := fun f => Some [(2, 20 + f)] in
  lookup (update [0; 1; 2; 3; 5; 6; 7; 8] self other) 4 2 = None /\
  lookup (update [0; 1; 2; 3; 4; 5; 6; 7; 8] self other) 4 2 = Some 24.
Proof. exact update_missing_category_refuted. Qed.
