(* C28 - event listeners fire exactly as registered.

   Sequential part (Events.v): [run init ops] is the model of sqlalchemy.event executing the
   operation sequence [ops] (class / instance creation, listen with insert/propagate/once/wrapper
   options, remove, contains, dispatch); [srun sinit ops] is the registration-log specification;
   both return the list of results (the calls made by every dispatch, the result of every remove and
   contains).  [guard sinit ops = true] restricts the sequences to single-inheritance hierarchies in
   which a class-level listen() does not register an unwrapped function that is live on an ancestor
   or descendant class; each excluded region has a refutation.

   Concurrent part (ExecOnce.v): [xreach (s, ts)] = some schedule of some number of threads calling
   exec_once / exec_once_unless_exception / _exec_w_sync_on_first_run leads to the state (s, ts). *)
From Coq Require Import List Arith Bool.
Import ListNotations.
From SAV.event Require Import Events EventsProofs EventsTheorems ExecOnce ExecOnceProofs.
From SAV.event Require Import ExecOnceWrap ExecOnceWrapProofs EventsProp EventsPropProofs.

(* ------------------------------------------------------------------ every sequence in the guarded region *)
Theorem c28_dispatch_calls_exactly_registered_guarded : forall ops, guard sinit ops = true ->
  snd (run init ops) = snd (srun sinit ops).
Proof. exact dispatch_calls_exactly_registered_guarded. Qed.
Print Assumptions c28_dispatch_calls_exactly_registered_guarded.

(* the same, as "calls (dispatch target) = spec_calls log target" in every reachable state *)
Theorem c28_dispatch_is_spec_calls_guarded : forall ops i, guard sinit ops = true ->
  i < length (insts (fst (run init ops))) ->
  snd (step (fst (run init ops)) (Dispatch i)) = OCalls (spec_calls (fst (srun sinit ops)) i).
Proof. exact dispatch_is_spec_calls. Qed.
Print Assumptions c28_dispatch_is_spec_calls_guarded.

(* no ValueError, no fuel exhaustion, no dangling registry entry in the guarded region *)
Theorem c28_no_internal_error_guarded : forall ops, guard sinit ops = true ->
  existsb internal_error (snd (run init ops)) = false.
Proof. exact guarded_no_internal_error. Qed.
Print Assumptions c28_no_internal_error_guarded.

(* the fuel of walk_subclasses is sufficient in every state whatsoever *)
Theorem c28_walk_fuel_sufficient : forall st o, snd (step st o) <> OFuel.
Proof. exact fuel_sufficient. Qed.
Print Assumptions c28_walk_fuel_sufficient.

(* remove() undoes listen(): afterwards the pair is not registered and every dispatch calls what it
   called before the listen() *)
Theorem c28_remove_is_inverse_guarded : forall ops t f fl,
  let st := fst (run init ops) in
  guard sinit (ops ++ [Listen t f fl; Remove t f]) = true ->
  valid_target (length (classes st)) (length (insts st)) t = true ->
  snd (step st (Contains t f)) = OBool false ->
  let st1 := fst (step st (Listen t f fl)) in
  let st2 := fst (step st1 (Remove t f)) in
  snd (step st1 (Remove t f)) = OOk /\
  snd (step st2 (Contains t f)) = OBool false /\
  forall i, snd (step st2 (Dispatch i)) = snd (step st (Dispatch i)).
Proof. exact remove_is_inverse. Qed.
Print Assumptions c28_remove_is_inverse_guarded.

(* a subclass created after the registrations: its first instance is called with exactly the
   class-level registrations of the base and its ancestors, in the order a fresh instance of the
   base itself is called with *)
Theorem c28_later_subclass_inherits_guarded : forall ops b,
  let st := fst (run init ops) in
  let sp := fst (srun sinit ops) in
  guard sinit ops = true -> b < length (classes st) ->
  let d := length (classes st) in
  let j := length (insts st) in
  snd (run st [NewClass [b] (b :: EventsWalk.mro (classes st) b); NewInst d; Dispatch j])
    = [OOk; OOk; OCalls (class_calls sp b)] /\
  snd (run st [NewInst b; Dispatch j]) = [OOk; OCalls (class_calls sp b)].
Proof. exact later_subclass_inherits. Qed.
Print Assumptions c28_later_subclass_inherits_guarded.

(* propagate=True changes nothing in the modelled operations (it only feeds _Dispatch._update) *)
Theorem c28_propagate_inert : forall st t f fl b,
  step st (Listen t f {| fl_insert := fl_insert fl; fl_prop := b; fl_once := fl_once fl; fl_wrap := fl_wrap fl |})
  = step st (Listen t f fl).
Proof. exact propagate_inert. Qed.
Print Assumptions c28_propagate_inert.

(* ------------------------------------------------------------------ refutations outside the guard *)
Definition c28_fl : flags := {| fl_insert := false; fl_prop := false; fl_once := false; fl_wrap := false |}.
Definition c28_fl_ins : flags := {| fl_insert := true; fl_prop := false; fl_once := false; fl_wrap := false |}.
(* class 0 = A, 1 = B(A), 2 = C(A), 3 = D(B, C); functions 0 = fc, 1 = fb, 2 = fa, 3 = fb2 *)
Definition c28_abc : list op := [NewClass [] []; NewClass [0] [0]; NewClass [0] [0]].
Definition c28_regs : list op :=
  [Listen (TCls 2) 0 c28_fl; Listen (TCls 1) 1 c28_fl; Listen (TCls 0) 2 c28_fl; Listen (TCls 1) 3 c28_fl_ins].
Definition c28_mkD : op := NewClass [1; 2] [1; 2; 0].
Definition c28_late : list op := c28_abc ++ c28_regs ++ [c28_mkD; NewInst 3; Dispatch 0].
Definition c28_early : list op := c28_abc ++ [c28_mkD] ++ c28_regs ++ [NewInst 3; Dispatch 0].

(* (g1) a subclass with two listening bases: created after the registrations it is called in MRO-merge
   order [fb2, fb, fa, fc]; created before them in registration order [fb2, fc, fb, fa] *)
Theorem c28_late_diamond_order_refuted :
  last (snd (run init c28_late)) OOk = OCalls [3; 1; 2; 0] /\
  last (snd (srun sinit c28_late)) OOk = OCalls [3; 0; 1; 2] /\
  last (snd (run init c28_early)) OOk = OCalls [3; 0; 1; 2] /\
  snd (run init c28_early) = snd (srun sinit c28_early).
Proof. vm_compute. repeat split; reflexivity. Qed.
Print Assumptions c28_late_diamond_order_refuted.

(* (g1) the same function on both bases is de-duplicated for the late subclass, and the second
   remove() raises ValueError *)
Definition c28_late_dedup : list op :=
  c28_abc ++ [Listen (TCls 1) 0 c28_fl; Listen (TCls 2) 0 c28_fl; c28_mkD; NewInst 3; Dispatch 0;
              Remove (TCls 1) 0; Remove (TCls 2) 0].
Theorem c28_late_diamond_remove_raises_refuted :
  skipn 7 (snd (run init c28_late_dedup)) = [OCalls [0]; OOk; OValueError] /\
  skipn 7 (snd (srun sinit c28_late_dedup)) = [OCalls [0; 0]; OOk; OOk].
Proof. vm_compute. split; reflexivity. Qed.
Print Assumptions c28_late_diamond_remove_raises_refuted.

(* formerly a refutation (C28-class-double-listen, repaired): listen() twice for the same (class, fn) -
   the repeat is ignored, one remove() undoes the registration; the sequence is inside the guard and
   the model agrees with the specification *)
Definition c28_double : list op :=
  [NewClass [] []; Listen (TCls 0) 0 c28_fl; Listen (TCls 0) 0 c28_fl; NewInst 0; Dispatch 0;
   Remove (TCls 0) 0; Contains (TCls 0) 0; Dispatch 0; Remove (TCls 0) 0].
Example c28_class_double_listen_fixed :
  guard sinit c28_double = true /\
  skipn 4 (snd (run init c28_double)) = [OCalls [0]; OOk; OBool false; OCalls []; OInvalidRequest] /\
  snd (run init c28_double) = snd (srun sinit c28_double).
Proof. vm_compute. repeat split; reflexivity. Qed.

(* (g3) f on the base, g on the subclass, f on the subclass; remove(subclass, f) deletes the FIRST f of
   the subclass's deque: the surviving call of f moves behind g *)
Definition c28_shared : list op :=
  [NewClass [] []; NewClass [0] [0]; Listen (TCls 0) 0 c28_fl; Listen (TCls 1) 1 c28_fl;
   Listen (TCls 1) 0 c28_fl; Remove (TCls 1) 0; NewInst 1; Dispatch 0].
Theorem c28_remove_shared_fn_order_refuted :
  last (snd (run init c28_shared)) OOk = OCalls [1; 0] /\
  last (snd (srun sinit c28_shared)) OOk = OCalls [0; 1].
Proof. vm_compute. split; reflexivity. Qed.
Print Assumptions c28_remove_shared_fn_order_refuted.

(* each witness leaves the guard, and only through the clause named *)
Example c28_witnesses_outside_guard :
  guard sinit c28_late = false /\ guard sinit c28_late_dedup = false /\
  guard sinit c28_shared = false /\
  guard sinit (c28_abc ++ c28_regs) = true.
Proof. vm_compute. repeat split; reflexivity. Qed.

(* non-vacuity: a guarded sequence with once, wrapper, insert, instance-level listeners, a dispatch
   between, removal and a late subclass; the results of the model *)
Definition c28_once : flags := {| fl_insert := false; fl_prop := false; fl_once := true; fl_wrap := false |}.
Definition c28_wrap_ins : flags := {| fl_insert := true; fl_prop := true; fl_once := false; fl_wrap := true |}.
Definition c28_example : list op :=
  [NewClass [] []; NewClass [0] [0]; NewInst 1;
   Listen (TInst 0) 0 c28_fl; Listen (TCls 0) 1 c28_once; Listen (TCls 1) 2 c28_wrap_ins;
   Listen (TInst 0) 0 c28_fl_ins; Listen (TCls 1) 0 c28_fl; Dispatch 0; Dispatch 0;
   Remove (TCls 0) 1; Remove (TCls 0) 1; NewClass [1] [1; 0]; NewInst 2; Dispatch 1; Contains (TCls 1) 2].
Example c28_example_guarded :
  guard sinit c28_example = true /\
  snd (run init c28_example) =
    [OOk; OOk; OOk; OOk; OOk; OOk; OOk; OOk; OCalls [2; 1; 0; 0]; OCalls [2; 0; 0];
     OOk; OInvalidRequest; OOk; OOk; OCalls [2; 0]; OBool true].
Proof. vm_compute. split; reflexivity. Qed.
Example c28_remove_is_inverse_example :
  guard sinit ([NewClass [] []; NewInst 0; Listen (TCls 0) 1 c28_fl] ++ [Listen (TCls 0) 0 c28_fl_ins; Remove (TCls 0) 0]) = true.
Proof. vm_compute. reflexivity. Qed.

(* ------------------------------------------------------------------ exec_once under every schedule *)
(* the listeners run at most once through exec_once / exec_once_unless_exception: at most one run ends
   by setting _exec_once (a success, or a failure under exec_once); every other run is a failed
   exec_once_unless_exception run *)
Theorem c28_exec_once_at_most_once : forall s ts, xreach (s, ts) ->
  n_succ s + n_fail_o s <= 1 /\ n_run s <= 1 + n_fail_u s.
Proof. exact exec_once_at_most_once. Qed.
Print Assumptions c28_exec_once_at_most_once.

(* exactly once if no listener raised: all threads idle, at least one call completed *)
Theorem c28_exec_once_exactly_once : forall s ts, xreach (s, ts) -> quiescent ts -> n_done s >= 1 ->
  n_run s >= 1 /\ (n_fail_o s = 0 -> n_fail_u s = 0 -> n_run s = 1).
Proof. exact exec_once_exactly_once. Qed.
Print Assumptions c28_exec_once_exactly_once.

(* once the flag is set the listeners never run again through these entry points *)
Theorem c28_no_run_after_flag : forall tr s ts s' ts', xreach (s, ts) -> f_once s = true ->
  xrun (s, ts) tr = Some (s', ts') -> n_run s' = n_run s.
Proof. exact no_run_after_flag. Qed.
Print Assumptions c28_no_run_after_flag.

(* runs under the mutex never overlap *)
Theorem c28_mutex_exclusive : forall s ts, xreach (s, ts) -> forall i j p q,
  nth_error ts i = Some p -> nth_error ts j = Some q -> holds p = true -> holds q = true -> i = j.
Proof. exact mutex_exclusive. Qed.
Print Assumptions c28_mutex_exclusive.

(* _exec_w_sync_on_first_run: until one run has succeeded no two threads are inside the listeners *)
Theorem c28_sync_first_run_exclusive : forall s ts, xreach (s, ts) -> f_sync s = false -> forall i j p q,
  nth_error ts i = Some p -> nth_error ts j = Some q -> inside p = true -> inside q = true -> i = j.
Proof. exact sync_first_run_exclusive. Qed.
Print Assumptions c28_sync_first_run_exclusive.

(* the retry rule: an exception under exec_once_unless_exception leaves the flag unset and the next
   call runs the listeners again; an exception under exec_once sets the flag and the next call returns *)
Theorem c28_unless_exception_retries : forall s ts i j,
  nth_error ts i = Some Idle -> nth_error ts j = Some Idle -> mutex s = None -> f_once s = false ->
  exists s' ts',
    xrun (s, ts) ([ECall i KUnless; ERead i false false; ELock i; ERead i false false; EBegin i; EEnd i true; EUnlock i]
                  ++ [ECall j KUnless; ERead j false false; ELock j; ERead j false false; EBegin j]) = Some (s', ts')
    /\ f_once s' = false /\ n_run s' = 2 + n_run s.
Proof. exact unless_exception_retries. Qed.
Print Assumptions c28_unless_exception_retries.

Theorem c28_once_exception_no_retry : forall s ts i j k, is_sync k = false ->
  nth_error ts i = Some Idle -> nth_error ts j = Some Idle -> mutex s = None -> f_once s = false ->
  exists s' ts',
    xrun (s, ts) ([ECall i KOnce; ERead i false false; ELock i; ERead i false false; EBegin i; EEnd i true; EWrite i; EUnlock i]
                  ++ [ECall j k; ERead j false true]) = Some (s', ts')
    /\ f_once s' = true /\ n_run s' = 1 + n_run s /\ nth_error ts' j = Some Idle.
Proof. exact once_exception_no_retry. Qed.
Print Assumptions c28_once_exception_no_retry.

(* non-vacuity: two threads pass the unlocked check together; the second finds the flag set inside
   the mutex and does not run the listeners *)
Example c28_race_example :
  exists s ts,
    xrun (xinit 2) [ECall 0 KOnce; ECall 1 KOnce; ERead 0 false false; ERead 1 false false; ELock 1; ERead 1 false false;
                    EBegin 1; EEnd 1 false; EWrite 1; EUnlock 1; ELock 0; ERead 0 false true; EUnlock 0] = Some (s, ts)
    /\ quiescent ts /\ n_run s = 1 /\ n_done s = 2.
Proof.
  eexists. eexists. split; [vm_compute; reflexivity|]. split; [|split; reflexivity].
  intros p Hp. cbn in Hp. destruct Hp as [<-|[<-|[]]]; reflexivity.
Qed.

(* ------------------------------------------------------------------ propagation (_update) and the two registry maps
   [prun pinit ops] is the model of instance-level listen / remove / contains / dispatch together with
   insts[j].dispatch._update(insts[i].dispatch) and BOTH registry maps (_key_to_collection as p_fwd,
   _collection_to_key as p_rev); [pguard pinit ops = true] = no function object ever occurs twice in one
   collection. *)
(* the forward and the reverse registry map hold the same associations after every operation *)
Theorem c28_registry_maps_agree_guarded : forall ops, pguard pinit ops = true ->
  let st := fst (prun pinit ops) in
  forall k o a, In (k, o, a) (p_fwd st) <-> In (o, a, k) (p_rev st).
Proof. exact registry_maps_agree. Qed.
Print Assumptions c28_registry_maps_agree_guarded.

(* what the harness observes of the two maps (PSnapshot) is equal *)
Theorem c28_snapshot_maps_equal_guarded : forall ops nf l l', pguard pinit ops = true ->
  snd (pstep (fst (prun pinit ops)) (PSnapshot nf)) = PMaps l l' -> l = l'.
Proof. exact snapshot_maps_equal. Qed.
Print Assumptions c28_snapshot_maps_equal_guarded.

(* every listener of every collection, however many _update hops it went through, is known to the
   registry for that collection - and nothing else is *)
Theorem c28_propagated_listeners_registered_guarded : forall ops, pguard pinit ops = true ->
  let st := fst (prun pinit ops) in
  forall j c a, get_coll st j = Some c -> (In a (idents c) <-> exists k, In (k, j, a) (p_fwd st)).
Proof. exact propagated_listeners_registered. Qed.
Print Assumptions c28_propagated_listeners_registered_guarded.

(* event.remove() reaches every copy: it succeeds, contains() is false afterwards and every listener
   any collection still holds is registered there under another (target, fn) pair *)
Theorem c28_remove_reaches_every_copy_guarded : forall ops i f, pguard pinit ops = true ->
  let st := fst (prun pinit ops) in
  snd (pstep st (PContains i f)) = POut (OBool true) ->
  let st' := fst (pstep st (PRemove i f)) in
  snd (pstep st (PRemove i f)) = POut OOk /\
  snd (pstep st' (PContains i f)) = POut (OBool false) /\
  forall j c a, get_coll st' j = Some c -> In a (idents c) -> exists k, k <> (i, f) /\ In (k, j, a) (p_fwd st').
Proof. exact remove_reaches_every_copy. Qed.
Print Assumptions c28_remove_reaches_every_copy_guarded.

Theorem c28_propagation_no_internal_error_guarded : forall ops, pguard pinit ops = true ->
  existsb internal (snd (prun pinit ops)) = false.
Proof. exact propagation_no_internal_error. Qed.
Print Assumptions c28_propagation_no_internal_error_guarded.

(* outside the guard: f listened on instance 0 (propagate), copied to 1, listened on 1 too, copied to 2;
   the maps disagree, and after remove() on 0 and on 1 neither contains() is true but 2 still calls f *)
Definition c28_fp : flags := {| fl_insert := false; fl_prop := true; fl_once := false; fl_wrap := false |}.
Definition c28_dupfn : list pop :=
  [PNewInst; PNewInst; PNewInst; PListen 0 0 c28_fp; PUpdate 1 0 true; PListen 1 0 c28_fp; PSnapshot 1;
   PUpdate 2 1 true; PRemove 0 0; PRemove 1 0; PContains 0 0; PContains 1 0; PDispatch 2].
Theorem c28_propagation_duplicate_fn_refuted :
  pguard pinit c28_dupfn = false /\
  nth 6 (snd (prun pinit c28_dupfn)) (POut OOk)
    = PMaps [true; false; false; true; true; false; false; false; false]
            [true; false; false; false; true; false; false; false; false] /\
  skipn 8 (snd (prun pinit c28_dupfn))
    = [POut OOk; POut OOk; POut (OBool false); POut (OBool false); POut (OCalls [0])].
Proof. vm_compute. repeat split; reflexivity. Qed.
Print Assumptions c28_propagation_duplicate_fn_refuted.

(* non-vacuity: three propagation hops, then removal on the original target *)
Definition c28_chain : list pop :=
  [PNewInst; PNewInst; PNewInst; PNewInst; PListen 0 0 c28_fp; PListen 0 1 c28_fl; PUpdate 1 0 true; PUpdate 2 1 true;
   PUpdate 3 2 true; PDispatch 3; PRemove 0 0; PContains 0 0; PDispatch 3; PDispatch 1].
Example c28_chain_guarded :
  pguard pinit c28_chain = true /\
  skipn 9 (snd (prun pinit c28_chain)) = [POut (OCalls [0]); POut OOk; POut (OBool false); POut (OCalls []); POut (OCalls [])].
Proof. vm_compute. split; reflexivity. Qed.

(* ------------------------------------------------------------------ util.only_once under every interleaving
   (threads and re-entrant dispatch): the body of a once=True listener is never entered while it is
   running, and at most once altogether (once per re-armed failure with _once_unless_exception) *)
Theorem c28_once_listener_at_most_once : forall retry s, wreach retry s ->
  length (w_in s) <= 1 /\ w_enter s <= 1 + w_fail s /\ (retry = false -> w_enter s <= 1).
Proof. exact once_listener_at_most_once. Qed.
Print Assumptions c28_once_listener_at_most_once.

Example c28_once_reentrant_example :
  exists s, wrun false winit [WEnter 0; WSkip 1; WSkip 2; WExit 0 false; WSkip 3] = Some s /\ w_enter s = 1.
Proof. eexists. split; [vm_compute; reflexivity|reflexivity]. Qed.
