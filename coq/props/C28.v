(* C28 stub *)
From Coq Require Import List Arith Bool.
Import ListNotations.
From SAV.event Require Import Events ExecOnce.
Example c28_stub : fst (step init (NewClass [] [])) = fst (step init (NewClass [] [])).
Proof. reflexivity. Qed.
