(* C55 - compiled and pure-Python implementations are interchangeable (PARTIAL: the compiled side is a
   model of what Cython/C do with the compiled branch; see specs/c55.py and coq/cy/Dual.v).
   For every `if cython.compiled:` pair: inside the range of the declared C types both branches give the
   same value / exception / call log (the branch_equiv theorems); outside it the difference is stated (the range_divergence theorems). *)
From Coq Require Import List ZArith Bool Lia.
Import ListNotations.
From SAV.cy Require Import Dual DualProofs DualTheorems DualSites DualAlias.
Open Scope Z_scope.

(* ---- generic: PyList_New/PyTuple_New + SET_ITEM over range(n) is the list comprehension *)
Theorem c55_array_fill_is_comprehension : forall n step, cfill n step = mapM step (seq 0 n).
Proof. exact cfill_is_comprehension. Qed.
Print Assumptions c55_array_fill_is_comprehension.

(* ---- 1. unique_list: seen-set de-duplication == list(dict.fromkeys(seq)), TypeError at the same element *)
Theorem c55_branch_equiv_unique_list : forall l, ul_compiled l = ul_pure l.
Proof. exact branch_equiv_unique_list. Qed.
Print Assumptions c55_branch_equiv_unique_list.

(* ---- 2. engine._row_cy._apply_processors: equal for ALL processor vectors and rows (the length assertion
        is in both branches), same calls in the same order, and the unchecked reads are never out of bounds *)
Theorem c55_branch_equiv_row_apply_processors : forall procs data, ap_row_compiled procs data = ap_row_pure procs data.
Proof. exact branch_equiv_row_apply_processors. Qed.
Print Assumptions c55_branch_equiv_row_apply_processors.
Theorem c55_row_apply_processors_compiled_defined : forall procs data, Forall total procs ->
  snd (ap_row_compiled procs data) <> Raise UB.
Proof. exact row_apply_processors_compiled_defined. Qed.
Print Assumptions c55_row_apply_processors_compiled_defined.
Example c55_total_inhabited : Forall total [None; Some (1, fun x => Ok (x + 10))].
Proof. repeat constructor. intros x. eexists. reflexivity. Qed.

(* ---- 3. engine._result_cy._apply_processors: equal when the row has as many elements as there are processors *)
Theorem c55_branch_equiv_result_apply_processors : forall procs data, length data = length procs ->
  ap_res_compiled procs data = ap_res_pure procs data.
Proof. exact branch_equiv_result_apply_processors. Qed.
Print Assumptions c55_branch_equiv_result_apply_processors.
(* REFUTED at full strength: the length is asserted for the first row of single_row only *)
Theorem c55_result_apply_processors_refuted : exists procs data,
  ap_res_compiled procs data <> ap_res_pure procs data.
Proof. exists [Some (1, fun x => Ok (x + 10))], [1; 2]. vm_compute. discriminate. Qed.
Print Assumptions c55_result_apply_processors_refuted.
Theorem c55_range_divergence_result_apply_processors_long : forall procs d1 extra, length d1 = length procs ->
  ap_res_compiled procs (d1 ++ extra) = ap_res_compiled procs d1 /\
  ap_res_pure procs (d1 ++ extra) = bind (ap_res_compiled procs d1) (fun vs => ret (vs ++ extra)).
Proof. exact range_divergence_result_apply_processors_long. Qed.
Print Assumptions c55_range_divergence_result_apply_processors_long.
Theorem c55_range_divergence_result_apply_processors_short : forall procs data, Forall total procs ->
  (length data < length procs)%nat ->
  snd (ap_res_compiled procs data) = Raise UB /\ snd (ap_res_pure procs data) <> Raise UB.
Proof. exact range_divergence_result_apply_processors_short. Qed.
Print Assumptions c55_range_divergence_result_apply_processors_short.

(* ---- 4. many_rows / many_rows_simple / interim_rows: indexed fill == comprehension, any row constructor *)
Theorem c55_branch_equiv_many_rows : forall make rows, Z.of_nat (length rows) <= ssize_max ->
  many_compiled make rows = many_pure make rows.
Proof. exact branch_equiv_many_rows. Qed.
Print Assumptions c55_branch_equiv_many_rows.
Example c55_many_rows_hyp : Z.of_nat (length [1; 2; 3]) <= ssize_max.
Proof. vm_compute. discriminate. Qed.

(* ---- 5. BaseRow: __getattribute__ fast path + fallback == plain lookup + __getattr__; _set_attrs *)
Theorem c55_branch_equiv_baserow_getattr : forall r n, getattr_compiled r n = getattr_pure r n.
Proof. exact branch_equiv_baserow_getattr. Qed.
Print Assumptions c55_branch_equiv_baserow_getattr.
Theorem c55_branch_equiv_baserow_set_attrs : forall ca k d, set_attrs_compiled ca k d = set_attrs_pure ca k d.
Proof. exact branch_equiv_baserow_set_attrs. Qed.
Print Assumptions c55_branch_equiv_baserow_set_attrs.

(* ---- 6. anon_map: explicit __getitem__ + `unsigned int` counter == dict.__getitem__/__missing__ + int counter,
        for every operation sequence that keeps the counter below 2^32 *)
Theorem c55_branch_equiv_anon_map : forall ops s, 0 <= am_index s ->
  am_index s + Z.of_nat (length ops) < uint_mod -> am_compiled s ops = am_pure s ops.
Proof. exact branch_equiv_anon_map. Qed.
Print Assumptions c55_branch_equiv_anon_map.
Example c55_anon_map_hyp : 0 <= am_index {| am_dict := []; am_index := 0 |} /\ 0 + Z.of_nat (length [Get 1; GetAnon 2]) < uint_mod.
Proof. vm_compute. split; [discriminate|reflexivity]. Qed.
Theorem c55_anon_map_refuted : exists s ops, 0 <= am_index s /\ am_compiled s ops <> am_pure s ops.
Proof. exists {| am_dict := []; am_index := uint_mod - 1 |}, [Get 1; Get 2]. split; [vm_compute; discriminate|vm_compute; discriminate]. Qed.
Print Assumptions c55_anon_map_refuted.
Theorem c55_range_divergence_anon_map_index : forall d k1 k2, k1 <> k2 ->
  lookup k1 d = None -> lookup k2 d = None ->
  let s := {| am_dict := d; am_index := uint_mod - 1 |} in
  snd (am_compiled s [Get k1; Get k2]) = [(uint_mod - 1, false); (0, false)] /\
  snd (am_pure s [Get k1; Get k2]) = [(uint_mod - 1, false); (uint_mod, false)].
Proof. exact range_divergence_anon_map_index. Qed.
Print Assumptions c55_range_divergence_anon_map_index.

(* ---- 7. _get_id *)
Theorem c55_branch_equiv_get_id : forall addr, 0 <= addr < ulonglong_mod -> get_id_compiled addr = get_id_pure addr.
Proof. exact branch_equiv_get_id. Qed.
Print Assumptions c55_branch_equiv_get_id.

(* ---- 8. OrderedSet.insert(pos: Py_ssize_t) / __getitem__(key: Py_ssize_t) *)
Theorem c55_branch_equiv_orderedset_insert : forall l pos x, in_ssize pos = true ->
  os_insert_compiled l pos x = os_insert_pure l pos x.
Proof. exact branch_equiv_orderedset_insert. Qed.
Print Assumptions c55_branch_equiv_orderedset_insert.
Theorem c55_orderedset_insert_refuted : exists l pos x, os_insert_compiled l pos x <> os_insert_pure l pos x.
Proof. exists [1], (2 ^ 63), 1. vm_compute. discriminate. Qed.
Print Assumptions c55_orderedset_insert_refuted.
Theorem c55_range_divergence_orderedset_insert : forall l pos x, in_ssize pos = false ->
  os_insert_compiled l pos x = Raise OverflowError /\
  os_insert_pure l pos x = (if memz x l then Ok l else Raise OverflowError).
Proof. exact range_divergence_orderedset_insert. Qed.
Print Assumptions c55_range_divergence_orderedset_insert.
Theorem c55_branch_equiv_orderedset_getitem : forall l key, in_ssize key = true ->
  os_getitem_compiled l key = os_getitem_pure l key.
Proof. exact branch_equiv_orderedset_getitem. Qed.
Print Assumptions c55_branch_equiv_orderedset_getitem.
Theorem c55_range_divergence_orderedset_getitem : forall l key, in_ssize key = false ->
  os_getitem_compiled l key = Raise OverflowError /\ os_getitem_pure l key = Raise IndexError.
Proof. exact range_divergence_orderedset_getitem. Qed.
Print Assumptions c55_range_divergence_orderedset_getitem.
Example c55_ssize_examples : in_ssize 5 = true /\ in_ssize (2 ^ 63) = false /\ in_ssize (- 2 ^ 63) = true.
Proof. vm_compute. auto. Qed.

(* ---- 9. tuplegetter / _is_contiguous (prev, curr: Py_ssize_t) *)
Theorem c55_branch_equiv_tuplegetter : forall idx, Forall idx_ok idx -> tg_compiled idx = tg_pure idx.
Proof. exact branch_equiv_tuplegetter. Qed.
Print Assumptions c55_branch_equiv_tuplegetter.
Example c55_idx_ok_example : Forall idx_ok [0; 1; 7].
Proof. repeat constructor; vm_compute; auto; discriminate. Qed.
Theorem c55_range_divergence_tuplegetter_overflow : forall a b r, in_ssize a = false ->
  tg_compiled (a :: b :: r) = Raise OverflowError /\ exists g, tg_pure (a :: b :: r) = Ok g.
Proof. exact range_divergence_tuplegetter_overflow. Qed.
Print Assumptions c55_range_divergence_tuplegetter_overflow.
Theorem c55_range_divergence_tuplegetter_wrap :
  tg_compiled [ssize_max; ssize_min] = Ok (GSlice ssize_max (ssize_min + 1)) /\
  tg_pure [ssize_max; ssize_min] = Ok (GItems [ssize_max; ssize_min]).
Proof. exact range_divergence_tuplegetter_wrap. Qed.
Print Assumptions c55_range_divergence_tuplegetter_wrap.

(* ---- 10. immutabledict._union_other: PyDict_Update == dict.update *)
Theorem c55_branch_equiv_immutabledict_update : forall a b, pydict_update_compiled a b = pydict_update_pure a b.
Proof. exact branch_equiv_immutabledict_update. Qed.
Print Assumptions c55_branch_equiv_immutabledict_update.

(* ---- T1: every site of the source the model was written against has a proved pair *)
Theorem c55_known_sites_covered : forallb (fun s : site => existsb (Z.eqb (snd s)) proved_pairs) known_sites = true.
Proof. vm_compute. reflexivity. Qed.
Print Assumptions c55_known_sites_covered.

(* ---- reference semantics of result processors: EVERY processor is applied to EVERY value of the row
        (None included - a value like any other), in index order: both branches equal the zip-apply [spec_c] *)
Theorem c55_apply_processors_is_map2 : forall procs data, length data = length procs ->
  ap_res_compiled procs data = spec_c procs data /\ ap_res_pure procs data = spec_c procs data.
Proof.
  intros procs data H. split.
  - unfold ap_res_compiled. apply ap_compiled_spec.
  - rewrite ap_res_pure_spec. symmetry. apply spec_equal_lengths. congruence.
Qed.
Print Assumptions c55_apply_processors_is_map2.

(* ---- aliasing: unique_list (and OrderedSet(iterable)._list built from it) is a FRESH object in both branches:
        a later mutation of the argument is invisible through the result and vice versa *)
Theorem c55_unique_list_result_is_fresh : forall uniq, (uniq = a_unique_compiled \/ uniq = a_unique_pure) ->
  forall st src x, (src < length st)%nat ->
  let '(r, st') := uniq st src in
  r <> src /\ a_read st' src = a_read st src /\
  a_read (a_upd st' src (a_read st' src ++ [x])) r = a_read st' r /\
  a_read (a_upd st' r (a_read st' r ++ [x])) src = a_read st' src.
Proof. exact unique_list_result_is_fresh. Qed.
Print Assumptions c55_unique_list_result_is_fresh.
Theorem c55_alias_runs_agree : forall ops st, a_run a_unique_compiled st ops = a_run a_unique_pure st ops.
Proof. exact alias_runs_agree. Qed.
Print Assumptions c55_alias_runs_agree.
