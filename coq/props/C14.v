(* C14 - DDL (create_all / drop_all) is emitted in dependency order for any foreign-key graph, cycles
   broken by ALTER; sorted_tables lists referenced tables first.  Statements only; every proof is
   [exact <lemma>].

   Vocabulary (sql/DDLOrder.v): [metadata] = list of tables (name, ForeignKeyConstraints (id, referred
   table, use_alter, named), add_is_dependent_on parents); [create_plan]/[drop_plan existing checkfirst
   md] = Plan ordered unordered | ErrCircular | ErrCompile; the unordered block is what the code emits
   from list(remaining_fkcs) (a set) - theorems hold for EVERY order of it; [exec db script] runs a
   script on the reference catalog ([None] = some statement rejected); [wf] = table names unique, FKs
   resolve, constraints of a table distinct; [consistent db md] = db holds a referentially closed part
   of md; [cat_equiv db md] = db is exactly md. *)
From Coq Require Import List NArith Bool Permutation.
Import ListNotations.
From SAV.util Require Import Topo Cycles TopoProofs TopoCycle TopoExtra CyclesSound CyclesComplete CyclesExact.
From SAV.sql Require Import DDLOrder DDLOrderBase DDLOrderSort DDLOrderExec DDLOrderCreate DDLOrderDrop DDLOrderSorted DDLOrderHistory DDLOrderExplicit.

(* ------------------------------------------------------------------ create_all *)
(* ANY foreign-key graph (self references, parallel constraints, cycles of any shape, use_alter or
   not), any set of already existing tables with checkfirst: unless the add_is_dependent_on edges
   themselves form a cycle, every statement of the plan is accepted and the catalog ends up being
   exactly the metadata *)
Theorem c14_create_all_succeeds : forall md db0 checkfirst,
  wf md -> consistent db0 md -> (checkfirst = false -> db0 = []) ->
  ~ (exists w, cycle (fixed md) w /\ incl w (names md)) ->
  exists o u, create_plan (map fst db0) checkfirst md = Plan o u /\
    forall u', Permutation u' u ->
    exists db', exec db0 (o ++ u') = Some db' /\ cat_equiv db' md.
Proof. exact create_all_succeeds_main. Qed.
Print Assumptions c14_create_all_succeeds.

(* ... and it raises CircularDependencyError exactly on a cycle of add_is_dependent_on edges among the
   tables to create; no other error, the model's fuel always suffices *)
Theorem c14_create_all_raises_iff_fixed_cycle : forall existing checkfirst md,
  create_plan existing checkfirst md = ErrCircular <->
  exists w, cycle (fixed (create_tables existing checkfirst md)) w /\
            incl w (names (create_tables existing checkfirst md)).
Proof. exact create_plan_circular_iff. Qed.
Print Assumptions c14_create_all_raises_iff_fixed_cycle.

Theorem c14_create_all_no_other_error : forall existing checkfirst md,
  create_plan existing checkfirst md <> ErrFuel /\ create_plan existing checkfirst md <> ErrCompile.
Proof. exact create_plan_total. Qed.
Print Assumptions c14_create_all_no_other_error.

(* ------------------------------------------------------------------ drop_all *)
(* guarded: use_alter constraints are named (documented), the dependencies that ALTER cannot remove
   (unnamed constraints, add_is_dependent_on) are acyclic (documented), and no table has a named and
   an unnamed constraint to the same table (NOT documented: see the refutation below) *)
Theorem c14_drop_all_succeeds_guarded : forall md db0 checkfirst,
  wf md -> consistent db0 md ->
  (checkfirst = false -> forall t, In t md -> has_table (t_name t) db0 = true) ->
  alter_named md -> siblings_agree md ->
  ~ (exists w, cycle (fixed md ++ unnamed_deps md) w /\ incl w (names md)) ->
  exists o u, drop_plan (map fst db0) checkfirst md = Plan o u /\
    forall u', Permutation u' u -> exec db0 (u' ++ o) = Some [].
Proof. exact drop_all_succeeds_main. Qed.
Print Assumptions c14_drop_all_succeeds_guarded.

(* without [siblings_agree] the claim is false: t0 with a named and an unnamed FK to t1, t1 with a
   named FK to t0.  drop_all emits ALTER..DROP for the two named constraints and then DROP TABLE t1
   while the unnamed constraint of t0 still references it; the other DROP order would be accepted *)
Theorem c14_drop_all_unguarded_refuted :
  exists md s, wf md /\ alter_named md /\
    ~ (exists w, cycle (fixed md ++ unnamed_deps md) w /\ incl w (names md)) /\
    drop_script (drop_plan (names md) false md) = Some s /\
    exec (catalog_of md) s = None /\
    exists s', Permutation s' s /\ exec (catalog_of md) s' = Some [].
Proof. exact drop_all_unguarded_refuted. Qed.
Print Assumptions c14_drop_all_unguarded_refuted.

(* the documented errors of drop_all happen only for their documented reasons *)
Theorem c14_drop_all_circular_only_on_unnamed_cycle : forall existing checkfirst md,
  drop_plan existing checkfirst md = ErrCircular ->
  exists w, cycle (fixed md ++ unnamed_deps md) w /\ incl w (names md).
Proof. exact drop_plan_circular_unnamed. Qed.
Print Assumptions c14_drop_all_circular_only_on_unnamed_cycle.

Theorem c14_drop_all_circular_iff : forall existing checkfirst md,
  drop_plan existing checkfirst md = ErrCircular <->
  exists w, cycle (fixed (drop_tables existing checkfirst md) ++
                   stuck_edges drop_filter (drop_tables existing checkfirst md)) w /\
            incl w (names (drop_tables existing checkfirst md)).
Proof. exact drop_plan_circular_iff. Qed.
Print Assumptions c14_drop_all_circular_iff.

Theorem c14_drop_all_compile_error_only_on_unnamed_use_alter : forall existing checkfirst md,
  drop_plan existing checkfirst md = ErrCompile ->
  exists t f, In t md /\ In f (t_fks t) /\ fk_alter f = true /\ fk_named f = false.
Proof. exact drop_plan_compile_error. Qed.
Print Assumptions c14_drop_all_compile_error_only_on_unnamed_use_alter.

Theorem c14_drop_all_fuel_suffices : forall existing checkfirst md,
  drop_plan existing checkfirst md <> ErrFuel.
Proof. exact drop_plan_total. Qed.
Print Assumptions c14_drop_all_fuel_suffices.

(* create_all then drop_all on an empty database leaves it empty *)
Theorem c14_create_then_drop : forall md, wf md -> alter_named md -> siblings_agree md ->
  ~ (exists w, cycle (fixed md ++ unnamed_deps md) w /\ incl w (names md)) ->
  exists c d, create_script (create_plan [] false md) = Some c /\
              drop_script (drop_plan (names md) false md) = Some d /\
              exec [] (c ++ d) = Some [].
Proof. exact create_then_drop. Qed.
Print Assumptions c14_create_then_drop.

(* ------------------------------------------------------------------ sorted_tables *)
(* [deps md] = add_is_dependent_on edges + one edge per constraint without use_alter to another
   table.  sorted_tables is a permutation of the tables; a referred table precedes the referring one
   for every dependency whose referring table lies on no dependency cycle (all of them when there is
   no cycle, which is also exactly when no warning is emitted); add_is_dependent_on edges are always
   respected *)
Theorem c14_sorted_tables_respects_acyclic_deps : forall md o w,
  wf md -> sorted_tables md = Ok (o, w) ->
  Permutation o (names md) /\
  (forall t f, In t md -> In f (t_fks t) -> fk_alter f = false -> fk_ref f <> t_name t ->
     ~ on_cycle (deps md) (t_name t) -> before o (fk_ref f) (t_name t)) /\
  (forall t p, In t md -> In p (t_extra t) -> In p (names md) -> before o p (t_name t)) /\
  (w = false <-> ~ exists c, cycle (deps md) c /\ incl c (names md)) /\
  (w = false -> forall t f, In t md -> In f (t_fks t) -> fk_alter f = false -> fk_ref f <> t_name t ->
     before o (fk_ref f) (t_name t)).
Proof. exact sorted_tables_spec. Qed.
Print Assumptions c14_sorted_tables_respects_acyclic_deps.

Theorem c14_sorted_tables_raises_iff_fixed_cycle : forall md,
  sorted_tables md = Circular <-> exists c, cycle (fixed md) c /\ incl c (names md).
Proof. exact sorted_tables_circular_iff. Qed.
Print Assumptions c14_sorted_tables_raises_iff_fixed_cycle.

Theorem c14_sorted_tables_fuel_suffices : forall md, sorted_tables md <> OutOfFuel.
Proof. exact sorted_tables_total. Qed.
Print Assumptions c14_sorted_tables_fuel_suffices.

(* the stronger reading "every dependency EDGE that is on no cycle is respected" is false (and
   documented as such: all foreign keys of a table on a cycle are left out of the sort): t1 <-> t2,
   t1 -> t3 gives [t1; t2; t3] *)
Theorem c14_sorted_tables_edge_reading_refuted :
  exists md t f o, wf md /\ In t md /\ In f (t_fks t) /\ fk_alter f = false /\ fk_ref f <> t_name t /\
    ~ on_cycle (deps md) (fk_ref f) /\
    sorted_tables md = Ok (o, true) /\ ~ before o (fk_ref f) (t_name t).
Proof. exact sorted_tables_edge_reading_refuted. Qed.
Print Assumptions c14_sorted_tables_edge_reading_refuted.

(* ------------------------------------------------------------------ explicit dependencies *)
(* Table.add_is_dependent_on edges are never taken out of the sort - not even when the same (referred,
   table) pair is also an FK edge that the cycle handling removes: CREATE TABLE follows them, DROP TABLE
   follows them in reverse (sorted_tables: third clause of c14_sorted_tables_respects_acyclic_deps),
   and a cycle made of them always raises *)
Theorem c14_create_order_respects_explicit_deps : forall existing checkfirst md o u,
  create_plan existing checkfirst md = Plan o u ->
  forall t p, In t (create_tables existing checkfirst md) -> In p (t_extra t) ->
    In p (names (create_tables existing checkfirst md)) -> before (created_order o) p (t_name t).
Proof. exact create_order_respects_explicit. Qed.
Print Assumptions c14_create_order_respects_explicit_deps.

Theorem c14_drop_order_respects_explicit_deps : forall existing checkfirst md o u,
  drop_plan existing checkfirst md = Plan o u ->
  forall t p, In t (drop_tables existing checkfirst md) -> In p (t_extra t) ->
    In p (names (drop_tables existing checkfirst md)) -> before (dropped_order o) (t_name t) p.
Proof. exact drop_order_respects_explicit. Qed.
Print Assumptions c14_drop_order_respects_explicit_deps.

Theorem c14_drop_all_explicit_cycle_raises : forall existing checkfirst md,
  (exists w, cycle (fixed (drop_tables existing checkfirst md)) w /\
             incl w (names (drop_tables existing checkfirst md))) ->
  drop_plan existing checkfirst md = ErrCircular.
Proof. exact drop_explicit_cycle_raises. Qed.
Print Assumptions c14_drop_all_explicit_cycle_raises.

Example c14_ex_explicit_on_cycle_edge :
  let md := [mktable 1 [mkfk 0 2 false true] [2]; mktable 2 [mkfk 0 1 false true] []]%N in
  create_plan [] false md =
    Plan [CreateT 2 []; CreateT 1 []]%N [AddFK 1 (mkfk 0 2 false true); AddFK 2 (mkfk 0 1 false true)]%N /\
  drop_plan [] false md =
    Plan [DropT 1; DropT 2]%N [DropFK 1 (mkfk 0 2 false true); DropFK 2 (mkfk 0 1 false true)]%N /\
  sorted_tables md = Ok ([2; 1]%N, true).
Proof. exact explicit_on_cycle_edge. Qed.

(* ------------------------------------------------------------------ metadata histories *)
(* The MetaData may be the result of any history of Table(...) definitions, MetaData.remove and
   Table(..., extend_existing=True) ([run_history]/[current]: dict semantics, a re-definition goes to
   the end, extend_existing replaces the re-specified constraints).  The plans are functions of the
   metadata the history leaves behind - the tables in it NOW, every foreign key referring to the table
   that has the referred name NOW - and of nothing else *)
Theorem c14_plans_depend_on_current_metadata_only : forall h h', current h = current h' ->
  (forall ex cf, create_after ex cf h = create_after ex cf h') /\
  (forall ex cf, drop_after ex cf h = drop_after ex cf h') /\
  sorted_after h = sorted_after h'.
Proof. exact plans_depend_on_current_only. Qed.
Print Assumptions c14_plans_depend_on_current_metadata_only.

(* a history keeps table names unique and the constraints of each table distinct: the metadata it
   leaves is well-formed as soon as its foreign keys resolve against the tables it contains now *)
Theorem c14_history_leaves_wellformed_metadata : forall h md,
  Forall step_ok h -> current h = Some md ->
  (forall t f, In t md -> In f (t_fks t) -> In (fk_ref f) (names md)) -> wf md.
Proof. exact history_wf. Qed.
Print Assumptions c14_history_leaves_wellformed_metadata.

(* hence create_all after ANY history is accepted and produces exactly the current metadata *)
Theorem c14_create_all_after_history : forall h md db0 checkfirst,
  Forall step_ok h -> current h = Some md ->
  (forall t f, In t md -> In f (t_fks t) -> In (fk_ref f) (names md)) ->
  consistent db0 md -> (checkfirst = false -> db0 = []) ->
  ~ (exists w, cycle (fixed md) w /\ incl w (names md)) ->
  exists o u, create_after (map fst db0) checkfirst h = Some (Plan o u) /\
    forall u', Permutation u' u -> exists db', exec db0 (o ++ u') = Some db' /\ cat_equiv db' md.
Proof. exact create_all_after_history. Qed.
Print Assumptions c14_create_all_after_history.

(* referred table defined first, referring table second, referred table removed and defined again *)
Example c14_ex_history_redefine_parent :
  let h := [Define (mktable 0 [] []); Define (mktable 1 [mkfk 0 0 false false] []);
            Remove 0; Define (mktable 0 [] [])]%N in
  current h = Some [mktable 1 [mkfk 0 0 false false] []; mktable 0 [] []]%N /\
  create_after [] false h = Some (Plan [CreateT 0 []; CreateT 1 [mkfk 0 0 false false]]%N []) /\
  drop_after [] false h = Some (Plan [DropT 1; DropT 0]%N []) /\
  sorted_after h = Some (Ok ([0; 1]%N, false)).
Proof. exact history_redefine_parent. Qed.

(* ------------------------------------------------------------------ the model's err.cycles *)
(* the model evaluates find_cycles with one canonical iteration order of the Python sets; every other
   order yields the same set of tables, so the plans do not depend on it (C19) *)
Theorem c14_cycles_independent_of_set_order : forall ts (ord : node -> list node) (starts : list node),
  (forall a b, In b (ord a) <-> In (a, b) ts) ->
  (forall a, In a starts <-> exists b, In (a, b) ts) ->
  exists out out', find_cycles ord starts = Some out /\ cycles_of ts = Some out' /\
                   forall x, In x out <-> In x out'.
Proof. exact cycles_of_any_order. Qed.
Print Assumptions c14_cycles_independent_of_set_order.

(* ------------------------------------------------------------------ non-vacuity *)
(* a 3-cycle t1 -> t2 -> t3 -> t1 (all named), t3 self-referential (unnamed; deferred with the others
   on CREATE, kept on DROP), t4 -> t1 with use_alter, t2 with two constraints to t3: satisfies every
   hypothesis above *)
Definition ex_md : metadata :=
  [ mktable 1 [mkfk 0 2 false true] [];
    mktable 2 [mkfk 0 3 false true; mkfk 1 3 false true] [];
    mktable 3 [mkfk 0 1 false true; mkfk 1 3 false false] [];
    mktable 4 [mkfk 0 1 true true] [1] ]%N.

Example c14_ex_create :
  create_plan [] false ex_md =
  Plan [CreateT 1 []; CreateT 2 []; CreateT 3 []; CreateT 4 []]%N
       [AddFK 1 (mkfk 0 2 false true); AddFK 2 (mkfk 0 3 false true); AddFK 2 (mkfk 1 3 false true);
        AddFK 3 (mkfk 0 1 false true); AddFK 3 (mkfk 1 3 false false); AddFK 4 (mkfk 0 1 true true)]%N.
Proof. vm_compute; reflexivity. Qed.

Example c14_ex_drop :
  drop_plan [] false ex_md =
  Plan [DropT 4; DropT 3; DropT 2; DropT 1]%N
       [DropFK 1 (mkfk 0 2 false true); DropFK 2 (mkfk 0 3 false true); DropFK 2 (mkfk 1 3 false true);
        DropFK 3 (mkfk 0 1 false true); DropFK 4 (mkfk 0 1 true true)]%N.
Proof. vm_compute; reflexivity. Qed.

Example c14_ex_hyps :
  wf ex_md /\ alter_named ex_md /\ siblings_agree ex_md /\ consistent [] ex_md /\
  ~ (exists w, cycle (fixed ex_md ++ unnamed_deps ex_md) w /\ incl w (names ex_md)) /\
  ~ (exists w, cycle (fixed ex_md) w /\ incl w (names ex_md)) /\
  (exists c, cycle (deps ex_md) c /\ incl c (names ex_md)).
Proof.
  split; [|split; [|split; [|split; [|split; [|split]]]]].
  - unfold wf, ex_md. split; [|split].
    + simpl. repeat constructor; simpl; intuition discriminate.
    + intros t f Ht Hf. simpl in Ht. destruct Ht as [<-|[<-|[<-|[<-|[]]]]]; simpl in Hf;
        intuition (subst; simpl; auto).
    + intros t Ht. simpl in Ht. destruct Ht as [<-|[<-|[<-|[<-|[]]]]]; simpl;
        repeat constructor; simpl; intuition discriminate.
  - unfold alter_named, ex_md. intros t f Ht Hf Ha. simpl in Ht.
    destruct Ht as [<-|[<-|[<-|[<-|[]]]]]; simpl in Hf; intuition (subst; simpl in *; congruence).
  - unfold siblings_agree, ex_md. intros t f f' Ht Hf Hf' Hr. simpl in Ht.
    destruct Ht as [<-|[<-|[<-|[<-|[]]]]]; simpl in Hf, Hf'; intuition (subst; simpl in *; congruence).
  - apply consistent_nil.
  - apply no_cycle_by_sort. vm_compute. discriminate.
  - apply no_cycle_by_sort. vm_compute. discriminate.
  - apply sort_circular_iff. vm_compute. reflexivity.
Qed.

(* a sorted_tables result with an emitted warning and a respected acyclic dependency (t4 -> t1 is
   use_alter but add_is_dependent_on(t1) is a fixed edge) *)
Example c14_ex_sorted : sorted_tables ex_md = Ok ([1; 2; 3; 4]%N, true).
Proof. vm_compute; reflexivity. Qed.

(* the unbreakable cycle: add_is_dependent_on both ways *)
Example c14_ex_fixed_cycle :
  create_plan [] false [mktable 1 [] [2]; mktable 2 [] [1]]%N = ErrCircular.
Proof. vm_compute; reflexivity. Qed.

(* the documented drop errors *)
Example c14_ex_drop_unnamed_cycle :
  drop_plan [] false [mktable 1 [mkfk 0 2 false false] []; mktable 2 [mkfk 0 1 false false] []]%N = ErrCircular.
Proof. vm_compute; reflexivity. Qed.
Example c14_ex_drop_unnamed_use_alter :
  drop_plan [] false [mktable 1 [mkfk 0 2 true false] []; mktable 2 [] []]%N = ErrCompile.
Proof. vm_compute; reflexivity. Qed.
