"""Run one function of a spec module inside the implementation interpreter and print its JSON result.

usage: python -m vlib.implcall <module> <function> [<json-arg>]
Orchestrator side: vlib.implcall.call(module, function, arg) -> value
"""
import importlib
import json
import os
import sys


def call(mod, fn, arg=None, timeout=600):
    from .common import IMPL_PY, VERIF, impl_env, run
    import tempfile

    with tempfile.NamedTemporaryFile("r", suffix=".json", delete=False) as tf:
        outp = tf.name
    try:
        rc, out = run(
            [IMPL_PY, "-m", "vlib.implcall", mod, fn, json.dumps(arg), outp], timeout, cwd=VERIF, env=impl_env()
        )
        if rc != 0:
            raise RuntimeError("implcall %s.%s failed rc=%s: %s" % (mod, fn, rc, out[-3000:]))
        with open(outp) as f:
            return json.load(f)
    finally:
        try:
            os.remove(outp)
        except OSError:
            pass


if __name__ == "__main__":
    from vlib import purepy_loader

    purepy_loader.install()
    mod, fn = sys.argv[1:3]
    arg = json.loads(sys.argv[3]) if len(sys.argv) > 3 else None
    outp = sys.argv[4]
    m = importlib.import_module(mod)
    res = getattr(m, fn)(arg) if arg is not None else getattr(m, fn)()
    with open(outp, "w") as f:
        json.dump(res, f)
