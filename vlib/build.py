"""Minimal dependency-driven builder for the static Coq files (full .vo compilation with coqc).

Every static file lives under /verif/coq and imports its siblings only in the form
    From SAV.<dir>[.<dir>] Require [Import|Export] A B C.
A target is (re)compiled when its .vo is missing or older than its source or than a dependency's
.vo.  An unrelated broken file cannot disturb a check: only the transitive dependencies of the
requested targets are touched.
"""
from __future__ import annotations

import fcntl
import os
import re
from concurrent.futures import ThreadPoolExecutor

from .common import COQ, run

REQ = re.compile(r"From\s+SAV((?:\.\w+)*)\s+Require\s+(?:Import\s+|Export\s+)?([\w\s.]+?)\.(?=\s)", re.S)
REQ2 = re.compile(r"^\s*Require\s+(?:Import\s+|Export\s+)?((?:SAV\.[\w.]+\s*)+)\.", re.M)


def strip_comments(src):
    from .coqrun import strip_comments as sc

    return sc(src)


def deps_of(rel):
    with open(os.path.join(COQ, rel)) as f:
        src = strip_comments(f.read())
    out = []
    for m in REQ.finditer(src):
        d = m.group(1).strip(".").replace(".", "/")
        for name in m.group(2).split():
            name = name.replace(".", "/")
            p = os.path.join(d, name + ".v") if d else name + ".v"
            out.append(p)
    for m in REQ2.finditer(src):
        for q in m.group(1).split():
            out.append(q[len("SAV."):].replace(".", "/") + ".v")
    res = []
    for p in out:
        if p not in res:
            res.append(p)
    return res


def closure(targets):
    order, seen, stack = [], set(), set()

    def visit(rel):
        if rel in seen:
            return
        if rel in stack:
            raise RuntimeError("dependency cycle at " + rel)
        if not os.path.exists(os.path.join(COQ, rel)):
            raise RuntimeError("missing Coq source " + rel)
        stack.add(rel)
        for d in deps_of(rel):
            visit(d)
        stack.discard(rel)
        seen.add(rel)
        order.append(rel)

    for t in targets:
        visit(t)
    return order


def _mtime(p):
    try:
        return os.path.getmtime(p)
    except OSError:
        return 0.0


def stale(rel):
    src = os.path.join(COQ, rel)
    vo = src[:-2] + ".vo"
    t = _mtime(vo)
    if t == 0.0 or t < _mtime(src):
        return True
    for d in deps_of(rel):
        if _mtime(os.path.join(COQ, d)[:-2] + ".vo") > t:
            return True
    return False


def compile_one(rel, timeout=1800):
    vo = os.path.join(COQ, rel)[:-2] + ".vo"
    try:
        os.remove(vo)
    except OSError:
        pass
    return run(["coqc", "-q", "-Q", COQ, "SAV", rel], timeout, cwd=COQ)


class Lock:
    def __enter__(self):
        self.f = open(os.path.join(COQ, ".buildlock"), "w")
        fcntl.flock(self.f, fcntl.LOCK_EX)
        return self

    def __exit__(self, *a):
        fcntl.flock(self.f, fcntl.LOCK_UN)
        self.f.close()


def build(targets, jobs=8):
    """targets: .v paths relative to coq/. Returns (ok, log, compiled list)."""
    logs = []
    compiled = []
    with Lock():
        try:
            order = closure(targets)
        except RuntimeError as e:
            return False, str(e), compiled
        done = set()
        failed = set()
        remaining = list(order)
        while remaining:
            ready = [r for r in remaining if all(d in done for d in deps_of(r))]
            blocked = [r for r in remaining if any(d in failed for d in deps_of(r))]
            for b in blocked:
                failed.add(b)
                remaining.remove(b)
                logs.append("%s: not built (a dependency failed)" % b)
            ready = [r for r in ready if r not in failed]
            if not ready:
                break
            todo = [r for r in ready if stale(r)]
            for r in ready:
                if r not in todo:
                    done.add(r)
                    remaining.remove(r)
            if todo:
                with ThreadPoolExecutor(max_workers=jobs) as ex:
                    res = list(ex.map(compile_one, todo))
                for r, (rc, out) in zip(todo, res):
                    remaining.remove(r)
                    if rc == 0:
                        done.add(r)
                        compiled.append(r)
                    else:
                        failed.add(r)
                        logs.append("%s: coqc rc=%s\n%s" % (r, rc, out[-2500:]))
    ok = all(t in done for t in targets)
    return ok, "\n".join(logs), compiled


def all_static():
    out = []
    for d, dirs, fs in os.walk(COQ):
        for f in fs:
            if f.endswith(".v"):
                rel = os.path.relpath(os.path.join(d, f), COQ)
                if not rel.startswith("run" + os.sep):
                    out.append(rel)
    return sorted(out)


def write_coqproject():
    order = closure(all_static())
    with open(os.path.join(COQ, "_CoqProject"), "w") as f:
        f.write("-Q . SAV\n" + "\n".join(order) + "\n")
