"""Shared constants and small helpers for the /verif check machinery."""
from __future__ import annotations

import json
import os
import subprocess
import sys
import time

VERIF = os.path.dirname(os.path.dirname(os.path.abspath(__file__)))
COQ = os.path.join(VERIF, "coq")
BUILD = os.environ.get("VERIF_BUILD_DIR") or os.path.join(VERIF, "build")
EVIDENCE = os.environ.get("VERIF_EVIDENCE_DIR") or os.path.join(VERIF, "evidence")
REPLAY = os.path.join(EVIDENCE, "replay")
IMPL_PY = "/venv/bin/python"


def repo() -> str:
    return os.environ.get("VERIF_REPO", "/repo")


def impl_env() -> dict:
    env = dict(os.environ)
    env["PYTHONPATH"] = os.path.join(repo(), "lib") + os.pathsep + VERIF
    env["PYTHONHASHSEED"] = "0"
    env["SQLALCHEMY_VERIF"] = "1"
    env["PYTHONDONTWRITEBYTECODE"] = "1"
    env.pop("PYTHONSTARTUP", None)
    return env


def S(s: str) -> list:
    """Python str -> tree (list of code points)."""
    return [ord(c) for c in s]


def unS(t) -> str:
    return "".join(chr(c) for c in t)


def tree_to_coq(t) -> str:
    if isinstance(t, bool):
        return "I %d" % int(t)
    if isinstance(t, int):
        return "I (%d)" % t if t < 0 else "I %d" % t
    if t is None:
        return "L []"
    if isinstance(t, str):
        t = S(t)
    return "L [" + "; ".join(tree_to_coq(x) for x in t) + "]"


def norm_tree(t):
    """canonical JSON-able form of a tree (bools -> ints, None -> [], str -> code points)."""
    if isinstance(t, bool):
        return int(t)
    if isinstance(t, int):
        return t
    if t is None:
        return []
    if isinstance(t, str):
        return S(t)
    return [norm_tree(x) for x in t]


def run(cmd, timeout, cwd=None, env=None, input=None):
    """subprocess.run with a hard timeout; returns (rc, stdout+stderr)."""
    try:
        p = subprocess.run(
            cmd,
            cwd=cwd,
            env=env,
            input=input,
            stdout=subprocess.PIPE,
            stderr=subprocess.STDOUT,
            timeout=timeout,
            text=True,
        )
        return p.returncode, p.stdout
    except subprocess.TimeoutExpired as e:
        out = e.stdout or ""
        if isinstance(out, bytes):
            out = out.decode("utf8", "replace")
        return 124, out + "\n[timeout after %ss]" % timeout


def log(msg: str) -> None:
    sys.stdout.write("# " + msg + "\n")
    sys.stdout.flush()


def jdump(obj, path):
    os.makedirs(os.path.dirname(path), exist_ok=True)
    tmp = path + ".tmp%d" % os.getpid()
    with open(tmp, "w") as f:
        json.dump(obj, f, indent=1, sort_keys=True, default=str)
        f.write("\n")
    os.replace(tmp, path)


class Timer:
    def __init__(self):
        self.t0 = time.time()

    def s(self):
        return round(time.time() - self.t0, 2)
