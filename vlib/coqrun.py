"""Driving Coq: static build (make), per-run compilation in build/<id>/, cases.v evaluation."""
from __future__ import annotations

import fcntl
import os
import re
import shutil
from concurrent.futures import ThreadPoolExecutor

from .common import BUILD, COQ, VERIF, run, tree_to_coq

FORBIDDEN = re.compile(
    r"\b(Admitted|admit|Axiom|Axioms|Parameter|Parameters|Conjecture|Conjectures|"
    r"Admit Obligations|bypass_check|native_compute)\b|Unset\s+Guard|Unset\s+Positivity|"
    r"Unset\s+Universe|type-in-type|impredicative-set"
)
# Variable/Hypothesis are allowed only inside Sections; checked by a simple section-depth scan.
SECT_OPEN = re.compile(r"^\s*Section\s+\w+\s*\.", re.M)


def strip_comments(src: str) -> str:
    out = []
    depth = 0
    i = 0
    n = len(src)
    while i < n:
        if src.startswith("(*", i):
            depth += 1
            i += 2
        elif src.startswith("*)", i) and depth:
            depth -= 1
            i += 2
        else:
            if depth == 0:
                out.append(src[i])
            elif src[i] == "\n":
                out.append("\n")
            i += 1
    return "".join(out)


def gate_file(path: str) -> list:
    """returns a list of problems (forbidden constructs) in one .v file"""
    with open(path) as f:
        src = strip_comments(f.read())
    probs = []
    for m in FORBIDDEN.finditer(src):
        line = src.count("\n", 0, m.start()) + 1
        probs.append("%s:%d: forbidden `%s`" % (path, line, m.group(0)))
    depth = 0
    for ln, line in enumerate(src.split("\n"), 1):
        if re.match(r"\s*(Section|Module)\s+\w+", line) and not re.match(r"\s*Module\s+Import", line):
            if re.match(r"\s*Section\s+\w+", line):
                depth += 1
        elif re.match(r"\s*End\s+\w+\s*\.", line):
            if depth:
                depth -= 1
        elif re.match(r"\s*(Variable|Variables|Hypothesis|Hypotheses|Context)\b", line) and depth == 0:
            probs.append("%s:%d: Variable/Hypothesis outside a Section" % (path, ln))
    return probs


def gate_tree(files=None) -> list:
    probs = []
    if files is None:
        files = []
        for d, _, fs in os.walk(COQ):
            for f in fs:
                if f.endswith(".v"):
                    files.append(os.path.join(d, f))
    for p in files:
        probs += gate_file(p)
    return probs


def _unused_coqproject_files() -> list:
    out = []
    with open(os.path.join(COQ, "_CoqProject")) as f:
        for line in f:
            line = line.strip()
            if line.endswith(".v"):
                out.append(line)
    return out


def make_targets(targets, timeout=3000, jobs=8):
    """build the given static .vo targets (paths relative to coq/, .vo or .v suffix)."""
    from . import build

    rels = [t[:-3] + ".v" if t.endswith(".vo") else t for t in targets]
    ok, log_, _ = build.build(rels, jobs=jobs)
    return ok, log_


def make_all(jobs=16):
    from . import build

    ok, log_, comp = build.build(build.all_static(), jobs=jobs)
    try:
        build.write_coqproject()
    except RuntimeError:
        pass
    return ok, log_ + "\ncompiled: %d files" % len(comp)


def build_dir(pid: str) -> str:
    d = os.path.join(BUILD, pid)
    shutil.rmtree(d, ignore_errors=True)
    os.makedirs(d)
    return d


def coqc(path: str, bdir: str, timeout=600, out_vo=None):
    cmd = ["coqc", "-q", "-Q", COQ, "SAV", "-Q", bdir, "Gen"]
    if out_vo:
        cmd += ["-o", out_vo]
    cmd.append(path)
    return run(cmd, timeout, cwd=bdir)


THM_RE = re.compile(r"^\s*(Theorem|Lemma|Corollary|Example|Fact|Remark|Proposition)\s+(\w+)", re.M)
PA_RE = re.compile(r"^\s*Print Assumptions\s+(\w+)\s*\.", re.M)


def theorem_names(path: str) -> list:
    with open(path) as f:
        src = strip_comments(f.read())
    return [m.group(2) for m in THM_RE.finditer(src)]


def compile_props(pid: str, props_rel: str, bdir: str):
    """Recompile the (small) props file into the build dir to capture Print Assumptions output.
    Returns (ok, names, assumptions: {name: text}, log)."""
    src = os.path.join(COQ, props_rel)
    names = theorem_names(src)
    # compile a copy under a different logical name so the static .vo is not touched
    dst = os.path.join(bdir, "Props_%s.v" % pid)
    shutil.copy(src, dst)
    rc, out = coqc(dst, bdir, timeout=900)
    assum = {}
    if rc == 0:
        with open(src) as f:
            order = PA_RE.findall(strip_comments(f.read()))
        # output blocks: either "Closed under the global context" or "Axioms:\n..." per Print Assumptions
        blocks = re.split(r"(?=^Closed under the global context|^Axioms:|^Section Variables:)", out, flags=re.M)
        blocks = [b.strip() for b in blocks if b.strip() and re.match(r"Closed|Axioms:|Section", b.strip())]
        for n, b in zip(order, blocks):
            assum[n] = b
        if len(order) != len(blocks):
            assum["_unparsed"] = out[-2000:]
    return rc == 0, names, assum, out


TOK = re.compile(r"-?\d+|[\[\];()]|I|L")


def parse_tree_text(txt: str):
    toks = TOK.findall(txt)
    pos = 0

    def tree():
        nonlocal pos
        t = toks[pos]
        if t == "(":
            pos += 1
            r = tree()
            assert toks[pos] == ")"
            pos += 1
            return r
        if t == "I":
            pos += 1
            if toks[pos] == "(":
                v = int(toks[pos + 1])
                assert toks[pos + 2] == ")"
                pos += 3
            else:
                v = int(toks[pos])
                pos += 1
            return v
        if t == "L":
            pos += 1
            assert toks[pos] == "["
            pos += 1
            items = []
            while toks[pos] != "]":
                items.append(tree())
                if toks[pos] == ";":
                    pos += 1
            pos += 1
            return items
        raise ValueError("bad token %r at %d" % (t, pos))

    return tree()


HEADER = """From Coq Require Import List ZArith.
Import ListNotations.
Require Import SAV.base.Tree.
Require Import %(mod)s.
Open Scope Z_scope.
Set Printing Depth 1000000.
Set Printing Width 100000.
"""


def _write_cases(path, mod, fn, pairs):
    with open(path, "w") as f:
        f.write(HEADER % {"mod": mod})
        f.write("Definition cases : list (tree * tree) := [\n")
        f.write(";\n".join("(%s, %s)" % (tree_to_coq(i), tree_to_coq(o)) for i, o in pairs))
        f.write("\n].\n")
        f.write("Eval vm_compute in (bad_indices %s cases).\n" % fn)


def _parse_bad(out):
    m = re.search(r"=\s*(.*?)\s*:\s*list nat", out, re.S)
    if not m:
        return None
    return [int(x) for x in re.findall(r"\d+", m.group(1))]


def run_cases(bdir, mod, fn, pairs, shard=400, jobs=12, timeout=900):
    """pairs: list of (input_tree, expected_tree). Returns (bad_indices, errors:list[str])."""
    shards = [pairs[i : i + shard] for i in range(0, len(pairs), shard)]
    paths = []
    for k, sh in enumerate(shards):
        p = os.path.join(bdir, "cases_%d.v" % k)
        _write_cases(p, mod, fn, sh)
        paths.append(p)

    def one(p):
        return coqc(p, bdir, timeout=timeout)

    bad, errs = [], []
    with ThreadPoolExecutor(max_workers=jobs) as ex:
        results = list(ex.map(one, paths))
    # a shard that timed out (an overloaded machine) is evaluated once more on its own with a longer limit;
    # a second timeout is reported as a model-evaluation error (fail closed)
    for k, (rc, out) in enumerate(results):
        if rc == 124:
            results[k] = coqc(paths[k], bdir, timeout=timeout * 4)
    for k, (rc, out) in enumerate(results):
        if rc != 0:
            errs.append("cases_%d.v: coqc rc=%s: %s" % (k, rc, out[-1500:]))
            continue
        b = _parse_bad(out)
        if b is None:
            errs.append("cases_%d.v: unparsable output: %s" % (k, out[-500:]))
            continue
        bad += [k * shard + i for i in b]
    return bad, errs


def model_outputs(bdir, mod, fn, inputs, timeout=600):
    """evaluate the model on a few inputs, returning the output trees (for replay files)."""
    outs = []
    for k, i in enumerate(inputs):
        p = os.path.join(bdir, "probe_%d.v" % k)
        with open(p, "w") as f:
            f.write(HEADER % {"mod": mod})
            f.write("Eval vm_compute in (%s (%s)).\n" % (fn, tree_to_coq(i)))
        rc, out = coqc(p, bdir, timeout=timeout)
        if rc != 0:
            outs.append({"error": out[-800:]})
            continue
        m = re.search(r"=\s*(.*?)\s*:\s*tree", out, re.S)
        try:
            outs.append(parse_tree_text(m.group(1)))
        except Exception as e:  # pragma: no cover
            outs.append({"error": "unparsable: %s" % e})
    return outs
