"""Deterministic cooperative scheduler for real Python threads (C25, C28, C52).

Worker threads run one at a time.  A worker gives control back only at *yield points* placed by
scheduler-aware replacements of the synchronisation objects of the code under test (lock acquire,
condition wait) and by the harness's own instrumentation (shared-variable reads/writes).  The
scheduler then picks the next worker from an explicit schedule (a seeded random.Random), so a run is
replayable from (seed, programs).  Everything between two yield points is atomic with respect to the
other workers.
"""
from __future__ import annotations

import threading


class Deadlock(Exception):
    pass


class Worker:
    def __init__(self, sched, tid, fn):
        self.sched = sched
        self.tid = tid
        self.fn = fn
        self.sem = threading.Semaphore(0)
        self.state = "new"  # new | parked | running | done
        self.want_lock = None
        self.wait_cond = None  # condition this worker waits on
        self.wait_timeout = None
        self.notified = False
        self.timed_out = False
        self.error = None
        self.thread = threading.Thread(target=self._main, daemon=True)

    def _main(self):
        self.sched._local.worker = self
        self.sem.acquire()
        try:
            self.fn(self)
        except BaseException as e:  # recorded, never propagates into the scheduler
            self.error = e
        self.state = "done"
        self.sched._ctl.release()


class Sched:
    def __init__(self, rng, timeout_prob=0.15):
        self.rng = rng
        self.workers = []
        self._local = threading.local()
        self._ctl = threading.Semaphore(0)
        self.clock = 0.0
        self.steps = 0
        self.timeout_prob = timeout_prob
        self.on_step = None  # callback run in scheduler context after every step

    def current(self):
        return getattr(self._local, "worker", None)

    def spawn(self, fn):
        w = Worker(self, len(self.workers), fn)
        self.workers.append(w)
        return w

    def time(self):
        return self.clock

    # ---- called from worker threads ----
    def yield_(self, want_lock=None):
        w = self.current()
        if w is None:
            return
        w.want_lock = want_lock
        w.state = "parked"
        self._ctl.release()
        w.sem.acquire()
        w.state = "running"
        w.want_lock = None

    def wait_on(self, cond, timeout):
        """park until notified or until the scheduler decides the wait timed out"""
        w = self.current()
        w.wait_cond = cond
        w.wait_timeout = timeout
        w.notified = False
        w.timed_out = False
        w.state = "parked"
        self._ctl.release()
        w.sem.acquire()
        w.state = "running"
        w.wait_cond = None
        return w.notified

    # ---- scheduler loop ----
    def _runnable(self):
        out = []
        for w in self.workers:
            if w.state != "parked":
                continue
            if w.wait_cond is not None:
                if w.notified:
                    out.append((w, "go"))
                elif w.wait_timeout is not None:
                    out.append((w, "timeout"))
                continue
            lk = w.want_lock
            if lk is not None and lk.owner is not None and lk.owner is not w:
                continue
            out.append((w, "go"))
        return out

    def run(self, max_steps=20000):
        for w in self.workers:
            w.thread.start()
            w.state = "parked"
        while True:
            if all(w.state == "done" for w in self.workers):
                return
            cands = self._runnable()
            go = [c for c in cands if c[1] == "go"]
            to = [c for c in cands if c[1] == "timeout"]
            if go and to and self.rng.random() < self.timeout_prob:
                w, kind = self.rng.choice(to)
            elif go:
                w, kind = self.rng.choice(go)
            elif to:
                w, kind = self.rng.choice(to)
            else:
                raise Deadlock("no runnable worker: " + ", ".join("%d:%s" % (w.tid, w.state) for w in self.workers))
            if kind == "timeout":
                w.timed_out = True
                self.clock += 1000.0
            self.steps += 1
            if self.steps > max_steps:
                raise Deadlock("step limit exceeded")
            w.sem.release()
            self._ctl.acquire()
            if self.on_step is not None:
                self.on_step()


class SchedLock:
    """replacement for threading.Lock / RLock whose acquire is a yield point"""

    def __init__(self, sched, on_event=None):
        self.sched = sched
        self.owner = None
        self.count = 0
        self.on_event = on_event

    def acquire(self, blocking=True, timeout=-1):
        me = self.sched.current()
        if me is None:
            self.count += 1
            return True
        while True:
            self.sched.yield_(want_lock=self)
            if self.owner is None or self.owner is me:
                break
            if not blocking:
                return False
        self.owner = me
        self.count += 1
        if self.on_event and self.count == 1:
            self.on_event("lk", me.tid)
        return True

    def release(self):
        me = self.sched.current()
        self.count -= 1
        if self.count == 0:
            self.owner = None
            if self.on_event and me is not None:
                self.on_event("ul", me.tid)

    __enter__ = acquire

    def __exit__(self, *a):
        self.release()

    def _is_owned(self):
        return self.owner is self.sched.current()


class SchedCondition:
    def __init__(self, sched, lock, on_wait=None):
        self.sched = sched
        self.lock = lock
        self.waiters = []
        self.on_wait = on_wait

    def acquire(self, *a, **k):
        return self.lock.acquire(*a, **k)

    def release(self):
        return self.lock.release()

    def __enter__(self):
        return self.lock.acquire()

    def __exit__(self, *a):
        self.lock.release()

    def wait(self, timeout=None):
        me = self.sched.current()
        saved = self.lock.count
        self.lock.count = 0
        self.lock.owner = None
        self.waiters.append(me)
        if self.on_wait:
            self.on_wait(me.tid)
        notified = self.sched.wait_on(self, timeout)
        if me in self.waiters:
            self.waiters.remove(me)
        while True:
            if self.lock.owner is None:
                break
            self.sched.yield_(want_lock=self.lock)
        self.lock.owner = me
        self.lock.count = saved
        return notified

    def notify(self, n=1):
        for w in list(self.waiters[:n]):
            w.notified = True
            self.waiters.remove(w)

    def notify_all(self):
        self.notify(len(self.waiters))
