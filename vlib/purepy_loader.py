"""Force the seven Cython-able modules to load from their .py source.

/repo/lib/sqlalchemy contains prebuilt, git-ignored *_cy*.so files which shadow the .py source of
the same name; an edit to the .py would otherwise be invisible.  Cython is not installed, so the
extension modules cannot be rebuilt here.  install() must run before `import sqlalchemy`.
"""
import importlib.abc
import importlib.util
import os
import sys

CY_MODULES = (
    "sqlalchemy.util._collections_cy",
    "sqlalchemy.util._immutabledict_cy",
    "sqlalchemy.engine._processors_cy",
    "sqlalchemy.engine._result_cy",
    "sqlalchemy.engine._row_cy",
    "sqlalchemy.engine._util_cy",
    "sqlalchemy.sql._util_cy",
)


class _Finder(importlib.abc.MetaPathFinder):
    def __init__(self, libdir):
        self.libdir = libdir

    def find_spec(self, fullname, path=None, target=None):
        if fullname in CY_MODULES:
            p = os.path.join(self.libdir, *fullname.split(".")) + ".py"
            if os.path.exists(p):
                return importlib.util.spec_from_file_location(fullname, p)
        return None


def install():
    if os.environ.get("VERIF_USE_SO") == "1":
        return
    repo = os.environ.get("VERIF_REPO", "/repo")
    libdir = os.path.join(repo, "lib")
    if "sqlalchemy" in sys.modules:
        raise RuntimeError("purepy_loader.install() must run before sqlalchemy is imported")
    sys.meta_path.insert(0, _Finder(libdir))
