"""./check <Cxx> [--tier quick|thorough] [--replay file]

Protocol (DESIGN.md section 1.1): gate -> regenerate -> prove -> correspond -> known findings;
on any break: search for a concrete failing input of the property itself.
"""
from __future__ import annotations

import argparse
import collections
import importlib
import json
import os
import random
import shutil
import sys

from . import coqrun
from .common import (
    BUILD,
    COQ,
    EVIDENCE,
    IMPL_PY,
    REPLAY,
    VERIF,
    Timer,
    impl_env,
    jdump,
    log,
    norm_tree,
    repo,
    run,
)


class TranslateError(Exception):
    pass


def load_findings(pid):
    p = os.path.join(VERIF, "known_findings.json")
    if not os.path.exists(p):
        return []
    with open(p) as f:
        data = json.load(f)
    return [e for e in data.get("findings", []) if e.get("property") == pid]


def run_impl(spec_mod, cases, bdir, tag, timeout):
    inp = os.path.join(bdir, "impl_in_%s.json" % tag)
    outp = os.path.join(bdir, "impl_out_%s.json" % tag)
    with open(inp, "w") as f:
        json.dump(cases, f)
    rc, out = run(
        [IMPL_PY, "-m", "vlib.implrun", spec_mod, inp, outp], timeout, cwd=VERIF, env=impl_env()
    )
    if rc != 0 or not os.path.exists(outp):
        return None, {}, "impl driver failed rc=%s: %s" % (rc, out[-3000:])
    with open(outp) as f:
        data = json.load(f)
    return data["results"], data.get("facts", {}), None


def _match(spec, c, v):
    """known-finding matcher of the spec; a matcher that crashes matches nothing (the hit is then reported)"""
    if not hasattr(spec, "match_finding"):
        return None
    try:
        return spec.match_finding(c, v)
    except Exception:
        return None


def main(argv=None):
    ap = argparse.ArgumentParser()
    ap.add_argument("pid")
    ap.add_argument("--tier", default=os.environ.get("VERIF_TIER", "quick"))
    ap.add_argument("--replay")
    ap.add_argument("--keep-build", action="store_true")
    a = ap.parse_args(argv)
    pid = a.pid
    tier = a.tier if a.tier in ("quick", "thorough") else "quick"
    seed = int(os.environ.get("VERIF_SEED", "0") or 0)
    tm = Timer()
    spec_mod = "specs." + pid.lower()
    spec = importlib.import_module(spec_mod)
    bdir = coqrun.build_dir(pid)
    findings = load_findings(pid)
    broken = []  # list of dicts {phase, name, detail}
    ev_cov = {}
    log("check %s tier=%s seed=%d repo=%s" % (pid, tier, seed, repo()))

    if a.replay:
        return do_replay(spec, spec_mod, pid, a.replay, bdir, findings)

    # ---- 0. gate ----
    props_rel = spec.PROPS
    # the gate covers every static file this property's theorems and runner depend on (the whole tree
    # is scanned by setup); an unrelated file cannot disturb this check
    try:
        from . import build as _build

        _targets = [props_rel] + [
            m.replace("SAV.", "").replace(".", "/") + ".v" for m in getattr(spec, "STATIC_MODULES", [])
        ]
        _closure = [os.path.join(COQ, r) for r in _build.closure(_targets)]
        gate = coqrun.gate_tree(_closure)
    except RuntimeError as e:
        gate = ["dependency closure: %s" % e]
    if gate:
        broken.append({"phase": "gate", "name": "forbidden-constructs", "detail": gate[:20]})

    # ---- 1. regenerate (T1/T2) ----
    gen_files = []
    if hasattr(spec, "pin_check"):
        # normalised-source pins of the transcribed functions; a difference breaks the tie but the
        # tables are still regenerated so that the model can be evaluated for the search
        try:
            spec.pin_check(repo())
        except Exception as e:
            broken.append({"phase": "pin", "name": type(e).__name__, "detail": str(e)[:3000]})
            log("pin: FAILED CLOSED: %s" % str(e)[:300])
    if hasattr(spec, "translate"):
        try:
            gen_files = spec.translate(repo(), bdir) or []
            log("translate: wrote %s" % ", ".join(os.path.basename(g) for g in gen_files))
        except Exception as e:
            broken.append({"phase": "translate", "name": type(e).__name__, "detail": str(e)[:3000]})
            log("translate: FAILED CLOSED: %s" % str(e)[:300])

    # ---- 2. prove ----
    obligations = 0
    discharged = 0
    assumptions = {}
    target = props_rel[:-2] + ".vo"
    extra_targets = [m.replace("SAV.", "").replace(".", "/") + ".vo" for m in getattr(spec, "STATIC_MODULES", [])]
    ok, mlog = coqrun.make_targets([target] + extra_targets)
    names = coqrun.theorem_names(os.path.join(COQ, props_rel))
    obligations += len(names)
    if not ok:
        broken.append({"phase": "prove", "name": "make " + target, "detail": mlog[-3000:]})
        log("prove: static build FAILED")
    else:
        okp, names, assumptions, plog = coqrun.compile_props(pid, props_rel, bdir)
        if okp:
            discharged += len(names)
        else:
            broken.append({"phase": "prove", "name": props_rel, "detail": plog[-3000:]})
    # per-run obligations: generated files + run files (depend on the regenerated tables/expressions)
    run_obls = []
    if not any(b["phase"] == "translate" for b in broken):
        run_files = list(gen_files)
        for rel in getattr(spec, "RUN_FILES", []):
            dst = os.path.join(bdir, os.path.basename(rel))
            shutil.copy(os.path.join(COQ, rel), dst)
            run_files.append(dst)
        gate2 = coqrun.gate_tree(run_files)
        if gate2:
            broken.append({"phase": "gate", "name": "forbidden-constructs-gen", "detail": gate2[:20]})
        failed_dep = False
        for gf in run_files:
            nm = coqrun.theorem_names(gf)
            obligations += len(nm)
            if failed_dep:
                continue
            rc, out = coqrun.coqc(gf, bdir, timeout=1200)
            if rc == 0:
                discharged += len(nm)
                run_obls += nm
            else:
                failed_dep = True
                broken.append(
                    {"phase": "prove", "name": os.path.basename(gf), "detail": out[-3000:]}
                )
                log("prove: per-run obligation file %s FAILED" % os.path.basename(gf))
    else:
        obligations += len(getattr(spec, "RUN_FILES", [])) + 1
    log("prove: %d/%d obligations discharged" % (discharged, obligations))
    if tier == "thorough" and ok:
        # independent re-check of the compiled property file and everything it depends on
        logical = "SAV." + props_rel[:-2].replace("/", ".")
        rc, out = run(["coqchk", "-silent", "-o", "-Q", COQ, "SAV", logical], 3000, cwd=COQ)
        ev_cov["coqchk"] = {"cmd": "coqchk -silent -o -Q coq SAV " + logical, "rc": rc, "summary": out[-1200:]}
        obligations += 1
        if rc == 0:
            discharged += 1
            log("coqchk: %s re-checked" % logical)
        else:
            broken.append({"phase": "prove", "name": "coqchk " + logical, "detail": out[-3000:]})
            log("coqchk: FAILED")

    # ---- 3. correspond ----
    rng = random.Random(seed * 1000003 + 17)
    cases = []
    corpus_dir = os.path.join(VERIF, "search", "corpus", pid)
    if os.path.isdir(corpus_dir):
        for fn in sorted(os.listdir(corpus_dir)):
            with open(os.path.join(corpus_dir, fn)) as f:
                c = json.load(f)
            c["kind"] = "corpus:" + fn
            cases.append(c)
    for e in findings:
        if "witness" in e:
            c = dict(e["witness"])
            c["kind"] = "witness:" + e["id"]
            cases.append(c)
    try:
        cases += spec.gen_cases(rng, tier)
    except Exception as e:  # the generator itself consults the implementation in some specs: fail closed
        import traceback

        broken.append({"phase": "correspond", "name": "case-generator", "detail": traceback.format_exc()[-3000:]})
        log("correspond: the case generator failed (%s); continuing with the corpus and witnesses" % type(e).__name__)
    for c in cases:
        c["in"] = norm_tree(c["in"])
    timeout_impl = 3000 if tier == "thorough" else 900
    results, facts, err = run_impl(spec_mod, cases, bdir, "main", timeout_impl)
    mism = []
    model_out = []
    n_eval = 0
    unlisted = []  # (case, viol)
    known_hits = collections.OrderedDict()
    if err:
        broken.append({"phase": "correspond", "name": "impl-driver", "detail": err})
        results = []
    else:
        pairs = []
        idx = []
        for k, (c, r) in enumerate(zip(cases, results)):
            if "crash" in r:
                broken.append(
                    {"phase": "correspond", "name": "impl-crash", "detail": {"case": c, "crash": r["crash"], "tb": r.get("tb")}}
                )
                continue
            if c.get("model", True):
                if hasattr(spec, "model_pair"):
                    # trace acceptance: the model input is built from what the implementation did
                    try:
                        mi, mo = spec.model_pair(c, r["obs"])
                    except Exception as e:  # an observation the harness cannot turn into a model input
                        broken.append({"phase": "correspond", "name": "model-pair",
                                       "detail": {"case": c, "error": "%s: %s" % (type(e).__name__, str(e)[:500])}})
                        continue
                    c["in"] = norm_tree(mi)
                    pairs.append((c["in"], norm_tree(mo)))
                else:
                    pairs.append((c["in"], norm_tree(r["obs"])))
                idx.append(k)
        mod, fn = spec.RUNNER
        if hasattr(spec, "runner_for_run"):
            mod, fn = spec.runner_for_run(bdir)
        if pairs and (ok or hasattr(spec, "runner_for_run")):
            bad, errs = coqrun.run_cases(bdir, mod, fn, pairs)
            n_eval = len(pairs)
            for e in errs:
                broken.append({"phase": "correspond", "name": "model-eval", "detail": e})
            mism = [idx[b] for b in bad]
            if mism:
                show = mism[:5]
                model_out = coqrun.model_outputs(bdir, mod, fn, [cases[k]["in"] for k in show])
                for k, mo in zip(show, model_out):
                    broken.append(
                        {
                            "phase": "correspond",
                            "name": "model-vs-impl",
                            "detail": {"case": cases[k], "impl": results[k]["obs"], "model": mo},
                        }
                    )
                log("correspond: %d/%d cases DISAGREE" % (len(mism), n_eval))
            elif errs:
                log("correspond: model could not be evaluated (%d errors)" % len(errs))
            else:
                log("correspond: %d cases agree" % n_eval)
        # direct property oracle on every case
        for c, r in zip(cases, results):
            v = r.get("viol")
            if v:
                fid = _match(spec, c, v)
                ent = next((e for e in findings if e["id"] == fid), None) if fid else None
                if ent is not None and ent.get("status") == "known":
                    known_hits.setdefault(fid, (ent, c, v))
                else:
                    unlisted.append((c, v))

    # ---- 4. decide ----
    violation = None
    if unlisted:
        # prefer a mismatching case, then the smallest
        unlisted.sort(key=lambda cv: len(json.dumps(cv[0]["in"])))
        c, v = unlisted[0]
        violation = {"input": c, "what": v, "found_by": "oracle-on-generated-cases"}
    elif broken:
        log("tie broken (%s); searching for a failing input" % ", ".join(sorted({b["phase"] + ":" + str(b["name"]) for b in broken})))
        rounds = 12 if tier == "thorough" else 4
        for rnd in range(rounds):
            srng = random.Random(seed * 7919 + 104729 * (rnd + 1))
            try:
                scs = (spec.search_cases(srng, tier) if hasattr(spec, "search_cases") else spec.gen_cases(srng, tier))
            except Exception:
                continue
            for c in scs:
                c["in"] = norm_tree(c["in"])
            res, _, err2 = run_impl(spec_mod, scs, bdir, "search%d" % rnd, timeout_impl)
            if err2:
                continue
            hits = []
            for c, r in zip(scs, res):
                v = r.get("viol")
                if v:
                    fid = _match(spec, c, v)
                    ent = next((e for e in findings if e["id"] == fid), None) if fid else None
                    if not (ent is not None and ent.get("status") == "known"):
                        hits.append((c, v))
            if hits:
                hits.sort(key=lambda cv: len(json.dumps(cv[0]["in"])))
                violation = {"input": hits[0][0], "what": hits[0][1], "found_by": "search round %d" % rnd}
                break

    for fid, (ent, c, v) in known_hits.items():
        print("KNOWN-FINDING: property=%s %s [%s]" % (pid, ent.get("what", v), fid))

    status = "pass"
    replay_path = None
    try:
        os.remove(os.path.join(REPLAY, "%s-%d.json" % (pid, seed)))
    except OSError:
        pass
    if violation or broken:
        status = "violation"
        os.makedirs(REPLAY, exist_ok=True)
        replay_path = os.path.join(REPLAY, "%s-%d.json" % (pid, seed))
        jdump(
            {
                "property": pid,
                "seed": seed,
                "tier": tier,
                "broken": broken,
                "violation": violation,
                "replay_cmd": "./check %s --replay %s" % (pid, replay_path),
            },
            replay_path,
        )

    # ---- evidence ----
    nontriv = set()
    dist = collections.Counter()
    for c in cases:
        dist[str(c.get("kind", "?")).split(":")[0]] += 1
        try:
            if spec.nontrivial(c):
                nontriv.add(json.dumps(c["in"], sort_keys=True))
        except Exception:
            pass
    samples = [
        {"case": c, "obs": r.get("obs")} for c, r in list(zip(cases, results))[:: max(1, len(cases) // 4)][:4]
    ] or [{"note": "no case ran"}]
    tb = [
        "Coq 8.16.1 kernel (coqc; vm_compute used, native_compute not used)",
        "Print Assumptions per theorem: " + json.dumps(assumptions, sort_keys=True),
    ] + list(getattr(spec, "TRUSTED", []))
    ev = {
        "property_id": pid,
        "tier": tier,
        "seed": seed,
        "level": getattr(spec, "LEVEL", "proof"),
        "coverage": {
            "obligations": obligations,
            "discharged": discharged,
            "checker_cmd": "coqc -Q coq SAV (dependency closure of %s; full .vo) then coqc of props, per-run obligation files and cases_*.v in build/%s" % (target, pid),
            "trusted_base": tb,
            "theorems": names,
            "per_run_obligations": run_obls,
            "evaluations": n_eval,
            "distinct_nontrivial": len(nontriv),
            "rule": getattr(spec, "RULE", ""),
            "samples": samples,
            "distribution": dict(dist),
            "model_vs_impl_disagreements": len(mism),
            "oracle_violations_unlisted": len(unlisted),
            "known_findings_reproduced": list(known_hits.keys()),
            "impl_facts": facts,
            "broken": [{"phase": b["phase"], "name": b["name"]} for b in broken],
        },
        "assumptions": list(getattr(spec, "ASSUMPTIONS", [])),
        "wall_s": tm.s(),
        "violations": 1 if status == "violation" else 0,
    }
    ev["coverage"].update(ev_cov)
    jdump(ev, os.path.join(EVIDENCE, pid + ".json"))
    if not a.keep_build:
        shutil.rmtree(bdir, ignore_errors=True)
    if status == "violation":
        tail = "" if violation else " no-failing-input-found"
        print("VIOLATION property=%s replay=%s%s" % (pid, replay_path, tail))
    print("RESULT property=%s status=%s wall_s=%s" % (pid, status, tm.s()))
    return 1 if status == "violation" else 0


def do_replay(spec, spec_mod, pid, path, bdir, findings):
    with open(path) as f:
        rp = json.load(f)
    v = rp.get("violation")
    if not v:
        print("replay file names broken obligations only (no failing input): %s" % json.dumps(rp.get("broken"))[:2000])
        print("VIOLATION property=%s replay=%s no-failing-input-found" % (pid, path))
        return 1
    c = v["input"]
    res, _, err = run_impl(spec_mod, [c], bdir, "replay", 600)
    shutil.rmtree(bdir, ignore_errors=True)
    if err:
        print(err)
        return 2
    r = res[0]
    print("# input: %s" % json.dumps(c)[:2000])
    print("# observed: %s" % json.dumps(r)[:2000])
    if r.get("viol"):
        fid = spec.match_finding(c, r["viol"]) if hasattr(spec, "match_finding") else None
        ent = next((e for e in findings if e["id"] == fid), None) if fid else None
        if ent is not None and ent.get("status") == "known":
            print("KNOWN-FINDING: property=%s %s [%s]" % (pid, ent.get("what", r["viol"]), fid))
            print("RESULT property=%s status=pass (the recorded input reproduces a listed known finding)" % pid)
            return 0
        print("VIOLATION property=%s replay=%s" % (pid, path))
        return 1
    print("RESULT property=%s status=pass (the recorded input no longer fails)" % pid)
    return 0


if __name__ == "__main__":
    sys.exit(main())
