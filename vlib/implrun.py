"""Runs inside the implementation interpreter (/venv/bin/python, PYTHONPATH=<repo>/lib).

usage: python -m vlib.implrun <spec-module> <cases.json> <out.json>
For each case: obs = spec.impl(case) (a tree), viol = spec.oracle(case, obs) (None or a string).
"""
import importlib
import json
import sys
import traceback

from vlib import purepy_loader

purepy_loader.install()


def main():
    modname, inp, outp = sys.argv[1:4]
    spec = importlib.import_module(modname)
    with open(inp) as f:
        cases = json.load(f)
    if hasattr(spec, "impl_setup"):
        spec.impl_setup()
    out = []
    import signal

    limit = float(getattr(spec, "CASE_TIMEOUT", 120))

    class CaseTimeout(BaseException):
        pass

    def _alarm(signum, frame):
        raise CaseTimeout("case exceeded %.0fs (non-terminating loop in the code under test?)" % limit)

    signal.signal(signal.SIGALRM, _alarm)
    for c in cases:
        rec = {}
        try:
            signal.setitimer(signal.ITIMER_REAL, limit)
            try:
                obs = spec.impl(c)
            finally:
                signal.setitimer(signal.ITIMER_REAL, 0)
            rec["obs"] = obs
        except BaseException as e:  # the driver itself must not die on one case
            rec["crash"] = "%s: %s" % (type(e).__name__, e)
            rec["tb"] = traceback.format_exc()[-1500:]
            obs = None
        if hasattr(spec, "oracle"):
            try:
                rec["viol"] = spec.oracle(c, obs) if "crash" not in rec else None
            except BaseException as e:
                rec["viol"] = None
                rec["oracle_crash"] = "%s: %s" % (type(e).__name__, e)
        out.append(rec)
    extra = {}
    if hasattr(spec, "impl_facts"):
        extra = spec.impl_facts()
    with open(outp, "w") as f:
        json.dump({"results": out, "facts": extra}, f)


if __name__ == "__main__":
    main()
