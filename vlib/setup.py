"""MANIFEST.setup_cmd: build every static Coq file (full .vo) from the files on disk."""
import sys

from . import coqrun
from .common import log


def main():
    probs = coqrun.gate_tree()
    for p in probs:
        print("GATE: " + p)
    ok, out = coqrun.make_all()
    print(out[-4000:])
    if not ok:
        log("static build had failures (make -k); affected checks will report them")
    # setup never fails the whole framework because of one broken file: each check rebuilds and
    # verifies exactly the .vo files it needs.
    return 0


if __name__ == "__main__":
    sys.exit(main())
