"""T1 for C03: classify the attribute effects of every @_generative method (Python ast -> effect lists).

Effect of one statement on `self` (which is the fresh shallow copy made by _generate()):
  ("rebind", attr)   self.attr = <new value>   /  self.attr += <tuple-like>   (a new object is bound)
  ("mutate", attr)   self.attr.append/extend/add/update/... , self.attr[k] = v, del self.attr[k],
                     self.attr += <not provably immutable>
  ("call", name)     self.name(...)  - resolved against the same class body (one level), else "opaque"
  local aliases: `x = self.attr` / `x = getattr(self, name)` makes x an alias of the object held by the copy (which the
                     parent shares); x.b = v, x[k] = v, x.append(..) are ("mutate", attr) until x is re-assigned
  setattr(self, name, v) is ("rebind", name-or-"<setattr>")
  extension protocol: a helper that hands `self` to `<ext>.apply_to_<kind>(self)` is followed into every apply_to_*
                     method of the scanned files (each may only call stmt.apply_syntax_extension_point(..),
                     stmt.<generative>.non_generative(stmt), or assign stmt.attr) and into apply_syntax_extension_point
Anything the classifier does not understand that touches `self.<attr>` as a store target fails closed.
"""
from __future__ import annotations

import ast
import os

MUTATORS = {
    "append", "extend", "add", "update", "pop", "popitem", "clear", "sort", "reverse", "insert", "remove",
    "discard", "setdefault", "__setitem__", "__delitem__", "appendleft", "difference_update",
    "intersection_update", "symmetric_difference_update",
}
FILES = [
    "lib/sqlalchemy/sql/base.py",
    "lib/sqlalchemy/sql/selectable.py",
    "lib/sqlalchemy/sql/dml.py",
    "lib/sqlalchemy/sql/elements.py",
    "lib/sqlalchemy/sql/functions.py",
    "lib/sqlalchemy/sql/lambdas.py",
    "lib/sqlalchemy/sql/ddl.py",
    "lib/sqlalchemy/orm/query.py",
    "lib/sqlalchemy/orm/strategy_options.py",
    "lib/sqlalchemy/dialects/postgresql/dml.py",
    "lib/sqlalchemy/dialects/sqlite/dml.py",
    "lib/sqlalchemy/dialects/mysql/dml.py",
    "lib/sqlalchemy/dialects/postgresql/ext.py",
    "lib/sqlalchemy/ext/baked.py",
]


class Fail(Exception):
    pass


_SELF = ["self"]


def _is_self_attr(node):
    return isinstance(node, ast.Attribute) and isinstance(node.value, ast.Name) and node.value.id == _SELF[0]


def _is_self(node):
    return isinstance(node, ast.Name) and node.id == _SELF[0]


def _alias_source(node):
    """`self.attr` or `getattr(self, ...)`: the attribute whose object the value aliases, else None"""
    if _is_self_attr(node):
        return node.attr
    if isinstance(node, ast.Call) and isinstance(node.func, ast.Name) and node.func.id == "getattr" and node.args and _is_self(node.args[0]):
        a = node.args[1] if len(node.args) > 1 else None
        return a.value if isinstance(a, ast.Constant) and isinstance(a.value, str) else "<getattr>"
    return None


def _tuple_like(node):
    """is the value provably an immutable tuple/frozen value?"""
    if isinstance(node, ast.Tuple):
        return True
    if isinstance(node, ast.Call):
        f = node.func
        name = f.id if isinstance(f, ast.Name) else (f.attr if isinstance(f, ast.Attribute) else "")
        return name in ("tuple", "frozenset", "immutabledict", "union", "merge_with", "_gen_cache_key")
    if isinstance(node, ast.BinOp) and isinstance(node.op, ast.Add):
        return _tuple_like(node.left) or _tuple_like(node.right)
    if isinstance(node, ast.IfExp):
        return _tuple_like(node.body) and _tuple_like(node.orelse)
    if isinstance(node, ast.GeneratorExp):
        return False
    return False


def effects_of(fn: ast.FunctionDef, selfname="self"):
    _SELF[0] = selfname
    try:
        return _effects_of(fn)
    finally:
        _SELF[0] = "self"


def _effects_of(fn: ast.FunctionDef):
    out = []
    aliases = {}

    def store(t, aug=None):
        if _is_self_attr(t):
            out.append(("rebind", t.attr))
        elif isinstance(t, ast.Subscript) and _is_self_attr(t.value):
            if t.value.attr == "__dict__" and isinstance(t.slice, ast.Constant) and isinstance(t.slice.value, str):
                # self.__dict__["name"] = v  is  self.name = v  (the copy owns its __dict__)
                out.append(("rebind", t.slice.value))
            else:
                out.append(("mutate", t.value.attr))
        elif isinstance(t, (ast.Tuple, ast.List)):
            for e in t.elts:
                store(e)
        elif isinstance(t, ast.Attribute) and isinstance(t.value, ast.Attribute) and _is_self_attr(t.value):
            # self.a.b = v : mutation of the object held in self.a
            out.append(("mutate", t.value.attr))
        elif isinstance(t, (ast.Attribute, ast.Subscript)) and isinstance(t.value, ast.Name) and t.value.id in aliases:
            # x = self.a ; x.b = v / x[k] = v : mutation of the object held in self.a through a local alias
            out.append(("mutate", aliases[t.value.id]))
        elif isinstance(t, ast.Name):
            aliases.pop(t.id, None)

    class V(ast.NodeVisitor):
        def visit_FunctionDef(self, node):
            if node is fn:
                self.generic_visit(node)
            # nested functions/lambdas are not executed here unless called; ignore their bodies

        visit_AsyncFunctionDef = visit_FunctionDef

        def visit_Lambda(self, node):
            return

        def visit_Assign(self, node):
            self.visit(node.value)
            for t in node.targets:
                store(t)
            src = _alias_source(node.value)
            if src is not None:
                for t in node.targets:
                    if isinstance(t, ast.Name):
                        aliases[t.id] = src

        def visit_AnnAssign(self, node):
            if node.value is not None:
                self.visit(node.value)
                store(node.target)
                src = _alias_source(node.value)
                if src is not None and isinstance(node.target, ast.Name):
                    aliases[node.target.id] = src

        def visit_AugAssign(self, node):
            self.visit(node.value)
            t = node.target
            if _is_self_attr(t):
                if _tuple_like(node.value):
                    out.append(("rebind", t.attr))
                else:
                    out.append(("augassign", t.attr))
            else:
                store(t)

        def visit_Delete(self, node):
            for t in node.targets:
                if isinstance(t, ast.Subscript) and _is_self_attr(t.value):
                    out.append(("mutate", t.value.attr))
                elif _is_self_attr(t):
                    out.append(("rebind", t.attr))

        def visit_Call(self, node):
            f = node.func
            if isinstance(f, ast.Attribute):
                if _is_self_attr(f.value) and f.attr in MUTATORS:
                    out.append(("mutate", f.value.attr))
                elif isinstance(f.value, ast.Name) and f.value.id in aliases and f.attr in MUTATORS:
                    out.append(("mutate", aliases[f.value.id]))
                elif _is_self(f.value):
                    out.append(("call", f.attr))
                elif f.attr.startswith("apply_to_") and any(_is_self(a) for a in node.args):
                    out.append(("call", "<apply_to>"))
                elif (f.attr == "non_generative" and isinstance(f.value, ast.Attribute) and _is_self(f.value.value)
                      and any(_is_self(a) for a in node.args)):
                    out.append(("callgen", f.value.attr))
            elif isinstance(f, ast.Name) and f.id == "setattr" and node.args and _is_self(node.args[0]):
                a = node.args[1] if len(node.args) > 1 else None
                out.append(("rebind", a.value if isinstance(a, ast.Constant) and isinstance(a.value, str) else "<setattr>"))
            self.generic_visit(node)

    V().visit(fn)
    return out


def _decorated_generative(fn):
    for d in fn.decorator_list:
        name = d.id if isinstance(d, ast.Name) else (d.attr if isinstance(d, ast.Attribute) else None)
        if name == "_generative":
            return True
    return False


def scan(repo):
    """returns {qualified method name: [effects]} for every @_generative method; calls to helper methods on
    self are inlined one level: first from the same class, else from the unique class (among the scanned files)
    defining that name; anything else stays ("opaque", name)"""
    table = {}
    classes = []
    for rel in FILES:
        path = os.path.join(repo, rel)
        if not os.path.exists(path):
            raise Fail("missing " + rel)
        tree = ast.parse(open(path).read())
        for cls in [n for n in ast.walk(tree) if isinstance(n, ast.ClassDef)]:
            methods = {m.name: m for m in cls.body if isinstance(m, (ast.FunctionDef, ast.AsyncFunctionDef))}
            classes.append((rel, cls, methods))
    by_name = {}
    for rel, cls, methods in classes:
        for name, m in methods.items():
            by_name.setdefault(name, []).append(m)

    # the extension protocol: every apply_to_<kind>(self, stmt) of the scanned files, classified with `stmt` as the
    # statement; anything it does with stmt other than the three allowed forms fails closed
    apply_to = []
    for rel, cls, methods in classes:
        for name, m in methods.items():
            if name.startswith("apply_to_") and len(m.args.args) >= 2:
                if len(m.body) == 1 and isinstance(m.body[0], ast.Raise):
                    continue
                if all(isinstance(b, (ast.Raise, ast.Expr)) for b in m.body) and any(isinstance(b, ast.Raise) for b in m.body):
                    continue  # docstring + raise NotImplementedError
                st = m.args.args[1].arg
                for n in ast.walk(m):
                    if isinstance(n, ast.Call) and any(isinstance(a, ast.Name) and a.id == st for a in list(n.args) + [k.value for k in n.keywords]):
                        f = n.func
                        ok = isinstance(f, ast.Attribute) and f.attr == "non_generative"
                        if not ok:
                            raise Fail("%s.%s hands the statement to %s" % (cls.name, name, ast.unparse(f)))
                apply_to.append((cls.name + "." + name, effects_of(m, st)))

    def _abstract(m):
        body = [b for b in m.body if not (isinstance(b, ast.Expr) and isinstance(b.value, ast.Constant))]
        return len(body) == 1 and isinstance(body[0], ast.Raise)

    def defs_of(methods, name):
        """the definition in the same class; an abstract one (raise NotImplementedError) stands for all its overrides;
        a name not defined in the class resolves to its unique definition among the scanned files"""
        if name in methods and not _abstract(methods[name]):
            return [methods[name]]
        others = [m for m in by_name.get(name, []) if not _abstract(m)]
        if name in methods:
            return others
        return others if len(others) == 1 else []

    def expand(methods, effs, depth, seen):
        out = []
        for e in effs:
            if e[0] == "callgen":
                # stmt.<generative method>.non_generative(stmt): the effects of every generative method of that name
                gs = [m for m in by_name.get(e[1], []) if _decorated_generative(m)]
                if not gs or depth >= 4:
                    out.append(("opaque", e[1]))
                for g in gs:
                    out.extend(expand(methods, effects_of(g), depth + 1, seen | {e[1]}))
                continue
            if e[0] != "call":
                out.append(e)
                continue
            if e[1] == "<apply_to>":
                for _n, ae in apply_to:
                    out.extend(expand(methods, ae, depth + 1, seen))
                continue
            ds = [d for d in defs_of(methods, e[1])]
            if not ds or depth >= 4 or e[1] in seen:
                out.append(("opaque", e[1]))
                continue
            for h in ds:
                sub = effects_of(h) if not _decorated_generative(h) else effects_of(h)
                out.extend(expand(methods, sub, depth + 1, seen | {e[1]}))
        return out

    for rel, cls, methods in classes:
        for name, m in methods.items():
            if not _decorated_generative(m):
                continue
            eff = []
            for e in expand(methods, effects_of(m), 0, frozenset()):
                if e not in eff:  # first occurrences, in order (enough to decide "mutated before rebound")
                    eff.append(e)
            table["%s:%s.%s" % (rel[len("lib/"):-3].replace("/", "."), cls.name, name)] = eff
    return table


if __name__ == "__main__":
    import collections
    import sys

    t = scan(sys.argv[1] if len(sys.argv) > 1 else "/repo")
    kinds = collections.Counter(e[0] for v in t.values() for e in v)
    print(len(t), "generative methods", dict(kinds))
    for k, v in sorted(t.items()):
        bad = [e for e in v if e[0] in ("mutate", "augassign")]
        if bad:
            print(k, v)
