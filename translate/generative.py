"""T1 for C03: classify the attribute effects of every @_generative method (Python ast -> effect lists).

Effect of one statement on `self` (which is the fresh shallow copy made by _generate()):
  ("rebind", attr)   self.attr = <new value>   /  self.attr += <tuple-like>   (a new object is bound)
  ("mutate", attr)   self.attr.append/extend/add/update/... , self.attr[k] = v, del self.attr[k],
                     self.attr += <not provably immutable>
  ("call", name)     self.name(...)  - resolved against the same class body (one level), else "opaque"
Anything the classifier does not understand that touches `self.<attr>` as a store target fails closed.
"""
from __future__ import annotations

import ast
import os

MUTATORS = {
    "append", "extend", "add", "update", "pop", "popitem", "clear", "sort", "reverse", "insert", "remove",
    "discard", "setdefault", "__setitem__", "__delitem__", "appendleft", "difference_update",
    "intersection_update", "symmetric_difference_update",
}
FILES = [
    "lib/sqlalchemy/sql/base.py",
    "lib/sqlalchemy/sql/selectable.py",
    "lib/sqlalchemy/sql/dml.py",
    "lib/sqlalchemy/sql/elements.py",
    "lib/sqlalchemy/sql/functions.py",
    "lib/sqlalchemy/sql/lambdas.py",
    "lib/sqlalchemy/sql/ddl.py",
    "lib/sqlalchemy/orm/query.py",
    "lib/sqlalchemy/orm/strategy_options.py",
    "lib/sqlalchemy/dialects/postgresql/dml.py",
    "lib/sqlalchemy/dialects/sqlite/dml.py",
    "lib/sqlalchemy/dialects/mysql/dml.py",
    "lib/sqlalchemy/ext/baked.py",
]


class Fail(Exception):
    pass


def _is_self_attr(node):
    return isinstance(node, ast.Attribute) and isinstance(node.value, ast.Name) and node.value.id == "self"


def _tuple_like(node):
    """is the value provably an immutable tuple/frozen value?"""
    if isinstance(node, ast.Tuple):
        return True
    if isinstance(node, ast.Call):
        f = node.func
        name = f.id if isinstance(f, ast.Name) else (f.attr if isinstance(f, ast.Attribute) else "")
        return name in ("tuple", "frozenset", "immutabledict", "union", "merge_with", "_gen_cache_key")
    if isinstance(node, ast.BinOp) and isinstance(node.op, ast.Add):
        return _tuple_like(node.left) or _tuple_like(node.right)
    if isinstance(node, ast.IfExp):
        return _tuple_like(node.body) and _tuple_like(node.orelse)
    if isinstance(node, ast.GeneratorExp):
        return False
    return False


def effects_of(fn: ast.FunctionDef):
    out = []

    def store(t, aug=None):
        if _is_self_attr(t):
            out.append(("rebind", t.attr))
        elif isinstance(t, ast.Subscript) and _is_self_attr(t.value):
            if t.value.attr == "__dict__" and isinstance(t.slice, ast.Constant) and isinstance(t.slice.value, str):
                # self.__dict__["name"] = v  is  self.name = v  (the copy owns its __dict__)
                out.append(("rebind", t.slice.value))
            else:
                out.append(("mutate", t.value.attr))
        elif isinstance(t, (ast.Tuple, ast.List)):
            for e in t.elts:
                store(e)
        elif isinstance(t, ast.Attribute) and isinstance(t.value, ast.Attribute) and _is_self_attr(t.value):
            # self.a.b = v : mutation of the object held in self.a
            out.append(("mutate", t.value.attr))

    class V(ast.NodeVisitor):
        def visit_FunctionDef(self, node):
            if node is fn:
                self.generic_visit(node)
            # nested functions/lambdas are not executed here unless called; ignore their bodies

        visit_AsyncFunctionDef = visit_FunctionDef

        def visit_Lambda(self, node):
            return

        def visit_Assign(self, node):
            self.visit(node.value)
            for t in node.targets:
                store(t)

        def visit_AnnAssign(self, node):
            if node.value is not None:
                self.visit(node.value)
                store(node.target)

        def visit_AugAssign(self, node):
            self.visit(node.value)
            t = node.target
            if _is_self_attr(t):
                if _tuple_like(node.value):
                    out.append(("rebind", t.attr))
                else:
                    out.append(("augassign", t.attr))
            else:
                store(t)

        def visit_Delete(self, node):
            for t in node.targets:
                if isinstance(t, ast.Subscript) and _is_self_attr(t.value):
                    out.append(("mutate", t.value.attr))
                elif _is_self_attr(t):
                    out.append(("rebind", t.attr))

        def visit_Call(self, node):
            f = node.func
            if isinstance(f, ast.Attribute):
                if _is_self_attr(f.value) and f.attr in MUTATORS:
                    out.append(("mutate", f.value.attr))
                elif isinstance(f.value, ast.Name) and f.value.id == "self":
                    out.append(("call", f.attr))
            self.generic_visit(node)

    V().visit(fn)
    return out


def _decorated_generative(fn):
    for d in fn.decorator_list:
        name = d.id if isinstance(d, ast.Name) else (d.attr if isinstance(d, ast.Attribute) else None)
        if name == "_generative":
            return True
    return False


def scan(repo):
    """returns {qualified method name: [effects]} for every @_generative method; calls to helper methods on
    self are inlined one level: first from the same class, else from the unique class (among the scanned files)
    defining that name; anything else stays ("opaque", name)"""
    table = {}
    classes = []
    for rel in FILES:
        path = os.path.join(repo, rel)
        if not os.path.exists(path):
            raise Fail("missing " + rel)
        tree = ast.parse(open(path).read())
        for cls in [n for n in ast.walk(tree) if isinstance(n, ast.ClassDef)]:
            methods = {m.name: m for m in cls.body if isinstance(m, (ast.FunctionDef, ast.AsyncFunctionDef))}
            classes.append((rel, cls, methods))
    by_name = {}
    for rel, cls, methods in classes:
        for name, m in methods.items():
            by_name.setdefault(name, []).append(m)

    def helper(methods, name):
        h = methods.get(name)
        if h is None and len(by_name.get(name, [])) == 1:
            h = by_name[name][0]
        return h

    for rel, cls, methods in classes:
        for name, m in methods.items():
            if not _decorated_generative(m):
                continue
            eff = []
            for e in effects_of(m):
                if e[0] == "call":
                    h = helper(methods, e[1])
                    if h is not None and not _decorated_generative(h):
                        for e2 in effects_of(h):
                            eff.append(e2 if e2[0] != "call" else ("opaque", e2[1]))
                    else:
                        eff.append(("opaque", e[1]))
                else:
                    eff.append(e)
            table["%s:%s.%s" % (rel[len("lib/"):-3].replace("/", "."), cls.name, name)] = eff
    return table


if __name__ == "__main__":
    import collections
    import sys

    t = scan(sys.argv[1] if len(sys.argv) > 1 else "/repo")
    kinds = collections.Counter(e[0] for v in t.values() for e in v)
    print(len(t), "generative methods", dict(kinds))
    for k, v in sorted(t.items()):
        bad = [e for e in v if e[0] in ("mutate", "augassign")]
        if bad:
            print(k, v)
