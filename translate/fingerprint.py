"""T2-lite: normalised-source pinning of the functions a hand-written model transcribes.

The model files are line-by-line transcriptions of small functions.  This module extracts each such
function from the *current* source, normalises it (docstrings, annotations, comments, `assert`,
typing casts removed; `ast.unparse`), and compares it with the normalised text the model was written
against (translate/pinned/<pin>.txt).  Any difference fails closed: the model may no longer describe
the code, so the check goes to its search phase.  (Expression-level translation into Gallina is done
by translate/pyexpr.py for the functions where a mutation should flow into the model.)
"""
from __future__ import annotations

import ast
import difflib
import os

HERE = os.path.dirname(os.path.abspath(__file__))


class TranslateError(Exception):
    pass


class _Strip(ast.NodeTransformer):
    def _body(self, node):
        b = node.body
        if b and isinstance(b[0], ast.Expr) and isinstance(getattr(b[0], "value", None), ast.Constant) and isinstance(b[0].value.value, str):
            b = b[1:]
        node.body = b or [ast.Pass()]

    def visit_FunctionDef(self, node):
        self.generic_visit(node)
        self._body(node)
        node.returns = None
        for a in node.args.args + node.args.kwonlyargs + node.args.posonlyargs:
            a.annotation = None
        if node.args.vararg:
            node.args.vararg.annotation = None
        if node.args.kwarg:
            node.args.kwarg.annotation = None
        return node

    visit_AsyncFunctionDef = visit_FunctionDef

    def visit_ClassDef(self, node):
        self.generic_visit(node)
        self._body(node)
        return node

    def visit_AnnAssign(self, node):
        self.generic_visit(node)
        if node.value is None:
            return None
        return ast.copy_location(ast.Assign(targets=[node.target], value=node.value), node)

    def visit_Assert(self, node):
        return None

    def visit_Call(self, node):
        self.generic_visit(node)
        # cast(T, x) / typing.cast(T, x) -> x
        f = node.func
        name = f.id if isinstance(f, ast.Name) else (f.attr if isinstance(f, ast.Attribute) else None)
        if name == "cast" and len(node.args) == 2:
            return node.args[1]
        return node

    def visit_If(self, node):
        self.generic_visit(node)
        t = node.test
        if isinstance(t, ast.Name) and t.id == "TYPE_CHECKING" or (isinstance(t, ast.Attribute) and t.attr == "TYPE_CHECKING"):
            return node.orelse or None
        if not node.body:
            node.body = [ast.Pass()]
        return node


def find_node(tree, qualname):
    cur = tree
    for part in qualname.split("."):
        found = None
        for n in ast.iter_child_nodes(cur):
            if isinstance(n, (ast.FunctionDef, ast.AsyncFunctionDef, ast.ClassDef)) and n.name == part:
                found = n  # last definition wins, as in Python
            elif isinstance(n, ast.Assign) and any(isinstance(t, ast.Name) and t.id == part for t in n.targets):
                found = n
            elif isinstance(n, ast.AnnAssign) and isinstance(n.target, ast.Name) and n.target.id == part:
                found = n
        if found is None:
            # descend through If/Try at module level (e.g. conditional definitions)
            for n in ast.walk(cur):
                if isinstance(n, (ast.FunctionDef, ast.AsyncFunctionDef, ast.ClassDef)) and n.name == part:
                    found = n
                    break
        if found is None:
            raise TranslateError("cannot find %s (at %s)" % (qualname, part))
        cur = found
    return cur


def normalized(path, qualname):
    with open(path) as f:
        tree = ast.parse(f.read())
    node = find_node(tree, qualname)
    node = _Strip().visit(node)
    ast.fix_missing_locations(node)
    return ast.unparse(node)


def current(repo, items):
    out = []
    for rel, qn in items:
        out.append("### %s :: %s\n%s\n" % (rel, qn, normalized(os.path.join(repo, rel), qn)))
    return "\n".join(out)


def check(repo, items, pin):
    """items: [(path relative to repo, qualified name)], pin: name of the pinned file"""
    try:
        cur = current(repo, items)
    except (OSError, SyntaxError) as e:
        raise TranslateError("cannot read anchored source: %s" % e)
    pfile = os.path.join(HERE, "pinned", pin + ".txt")
    if os.environ.get("VERIF_PIN") == "1":
        with open(pfile, "w") as f:
            f.write(cur)
        return
    with open(pfile) as f:
        old = f.read()
    if old != cur:
        d = "\n".join(difflib.unified_diff(old.split("\n"), cur.split("\n"), "modelled", "current", lineterm="", n=2))
        raise TranslateError("anchored source differs from what the model transcribes (%s):\n%s" % (pin, d[:2500]))
