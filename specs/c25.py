"""C25 - the pool never hands one connection to two holders and respects its limits (QueuePool)."""
ID = "C25"
LEVEL = "proof"
PROPS = "props/C25.v"
RUNNER = ("SAV.engine.PoolRun", "run_case")
STATIC_MODULES = ["SAV.engine.PoolRun"]
RULE = (
    "real QueuePool (FIFO and LIFO; pool_size 1-2; max_overflow 0,1,-1) driven by 2-3 real threads under a "
    "deterministic scheduler: a yield point before every lock acquisition (Queue.mutex, _overflow_lock), every "
    "condition wait and every read/write of QueuePool._overflow; seeded schedules, scheduler-chosen wait timeouts and "
    "creation failures. The linearised event trace must be ACCEPTED by the Coq acceptor stepf (trace acceptance) and "
    "the final queue length / overflow counter / live checkouts must equal the model's. non-trivial = the schedule "
    "preempts a thread at least once inside _do_get/_do_return_conn (another thread's event between its first and "
    "last event of one operation)"
)
TRUSTED = [
    "hand-written interleaving model of QueuePool._do_get/_inc_overflow/_dec_overflow/_do_return_conn and "
    "util.queue.Queue.get/put (pinned normalised source + trace acceptance on every run)",
    "atomicity granularity: each lock-protected block is one step (justified by the scheduler-aware locks actually being "
    "taken: the harness maps lk/rd/wr/ul sequences to model events and rejects any other shape); CPython's real switch "
    "points are a subset of the model's",
    "condition variables and time are over-approximated: a blocked Queue.get may wake or time out at any step",
    "NOT modelled: AsyncAdaptedQueuePool, SingletonThreadPool, StaticPool, NullPool, invalidation, weakref-triggered "
    "check-in (GC), dispose()",
]
ASSUMPTIONS = ["dict/list/deque single operations are atomic under the GIL", "threading primitives behave as documented"]
LEVEL_TEXT = (
    "Coq proof over an interleaving model (any number of threads, every schedule, unbounded traces): no connection held "
    "twice / never idle and held (every configuration incl. max_overflow=-1), open <= pool_size+max_overflow, idle <= "
    "pool_size, checkedout() = live checkouts at quiescence (max_overflow >= 0), waiter served on wake-up (safety form); "
    "refuted for max_overflow=-1 by a lost-update schedule. Tie: trace acceptance of real scheduler-driven runs."
)
LEVEL_NOTE = (
    "partial: QueuePool only (other pool classes, invalidate, GC check-in not modelled); liveness/timing of the waiter "
    "clause is reduced to a safety statement; the tie samples schedules (seeded), it does not enumerate them."
)
TECHNIQUE = "Coq invariant proof over an interleaving model + deterministic-scheduler trace acceptance against the real QueuePool"
ANCHORS = [
    ("lib/sqlalchemy/pool/impl.py", "QueuePool._do_get"),
    ("lib/sqlalchemy/pool/impl.py", "QueuePool._inc_overflow"),
    ("lib/sqlalchemy/pool/impl.py", "QueuePool._dec_overflow"),
    ("lib/sqlalchemy/pool/impl.py", "QueuePool._do_return_conn"),
    ("lib/sqlalchemy/util/queue.py", "Queue.get"),
    ("lib/sqlalchemy/util/queue.py", "Queue.put"),
    ("lib/sqlalchemy/util/queue.py", "Queue._get"),
    ("lib/sqlalchemy/util/queue.py", "Queue._put"),
    ("lib/sqlalchemy/util/queue.py", "Queue._empty"),
    ("lib/sqlalchemy/util/queue.py", "Queue._full"),
]

CONFIGS = [(1, 0), (1, 1), (2, 1), (2, 0), (1, -1), (2, -1)]
# one live checkout per worker at a time: a worker of the model is one checkout context
PROGRAMS = ["cx", "cxcx", "cxc", "c", "cxcxc"]
# c connect, x close, f connect with a failing checkout listener (exception kept), z drop kept exceptions + gc,
# d drop the reference to the held connection + gc (weakref-triggered check-in)
# i invalidate() the held connection but keep the (now dead) fairy; y close() such a dead fairy again
GC_OPS = ["c", "c", "x", "x", "f", "z", "d", "i", "y"]


def translate(repo, outdir):
    from translate import fingerprint

    fingerprint.check(repo, ANCHORS, "C25")
    return []


def gen_cases(rng, tier):
    n = 1600 if tier == "thorough" else 400  # each case drives real threads step by step: ~0.15 s per case
    cases = []
    for k in range(n):
        ps, mo = rng.choice(CONFIGS)
        nth = rng.choice([2, 2, 3])
        progs = [rng.choice(PROGRAMS) for _ in range(nth)]
        cases.append(
            {
                "in": [[ps, mo, rng.randint(0, 1)], nth, []],
                "progs": progs,
                "sseed": rng.randrange(1 << 30),
                "failp": rng.choice([0.0, 0.0, 0.15]),
                "kind": "mo=%d" % mo,
            }
        )
    # oracle-only family (not modelled): failing checkout listeners whose exception keeps the failed fairy alive,
    # dropped references + gc.collect() (weakref-triggered check-in), racing with ordinary checkouts
    for k in range(n // 2):
        ps, mo = rng.choice([(1, 0), (1, 1), (2, 0)])
        nth = rng.choice([2, 3, 3])
        progs = ["".join(rng.choice(GC_OPS) for _ in range(rng.randint(2, 5))) for _ in range(nth)]
        if rng.random() < 0.3:
            # directed: invalidate, let the record be re-used by a new checkout, then close the dead fairy
            progs[0] = rng.choice(["cicyc", "cicy", "ciyc", "cixyc", "cicyxc"])
        cases.append(
            {
                "in": [[ps, mo, rng.randint(0, 1)], nth, []],
                "progs": progs,
                "sseed": rng.randrange(1 << 30),
                "failp": 0.0,
                "model": False,
                "kind": "gc-and-failing-checkout",
            }
        )
    return cases


def nontrivial(c):
    # preempted: two events of one thread's operation separated by another thread's event
    evs = c["in"][2]
    last = {}
    for k, e in enumerate(evs):
        i = e[1]
        if e[0] in (0, 9):
            last[i] = k
        elif i in last and any(evs[j][1] != i for j in range(last[i], k)):
            return True
    return False


# ------------------------------------------------------------------ implementation side
_mon = {}


def _run(c):
    import random

    import sqlalchemy.util.queue as saq
    from sqlalchemy import exc
    from sqlalchemy.pool import QueuePool
    from vlib.sched import Deadlock, Sched, SchedCondition, SchedLock

    (ps, mo, lf), nth, _ = c["in"]
    rng = random.Random(c["sseed"])
    sched = Sched(rng)
    raw = []
    ledger = {"open": set(), "next": 0}
    failp = c.get("failp", 0.0)

    class FakeConn:
        def __init__(self, cid):
            self.cid = cid

        def close(self):
            w = sched.current()
            ledger["open"].discard(self.cid)
            raw.append(("close", w.tid if w else -1, self.cid))

        def rollback(self):
            pass

        def commit(self):
            pass

        def cursor(self):
            raise NotImplementedError

    def creator():
        w = sched.current()
        sched.yield_()
        cid = ledger["next"]
        ledger["next"] += 1
        if rng.random() < failp:
            raw.append(("create", w.tid, cid, 0))
            raise RuntimeError("connect failed")
        ledger["open"].add(cid)
        raw.append(("create", w.tid, cid, 1))
        return FakeConn(cid)

    class TracedPool(QueuePool):
        def _get_ov(self):
            w = sched.current()
            if w is not None:
                sched.yield_()
                raw.append(("rd", w.tid, self.__dict__["_ov"]))
            return self.__dict__["_ov"]

        def _set_ov(self, v):
            w = sched.current()
            if w is not None:
                sched.yield_()
                raw.append(("wr", w.tid, v))
            self.__dict__["_ov"] = v

        _overflow = property(_get_ov, _set_ov)

    pool = TracedPool(creator, pool_size=ps, max_overflow=mo, use_lifo=bool(lf), timeout=30, reset_on_return=None)
    pool._overflow_lock = SchedLock(sched, on_event=lambda k, tid: raw.append((k, tid)))
    q = pool._pool
    q.mutex = SchedLock(sched)
    q.not_empty = SchedCondition(sched, q.mutex, on_wait=lambda tid: raw.append(("qwait", tid)))
    q.not_full = SchedCondition(sched, q.mutex)
    orig_get, orig_put = q.get, q.put

    def tget(block=True, timeout=None):
        w = sched.current()
        try:
            item = orig_get(block, timeout)
        except saq.Empty:
            raw.append(("qempty", w.tid))
            raise
        raw.append(("qget", w.tid, item.dbapi_connection.cid if item.dbapi_connection is not None else -1))
        sched.yield_()
        return item

    def tput(item, block=True, timeout=None):
        w = sched.current()
        try:
            orig_put(item, block, timeout)
        except saq.Full:
            raw.append(("qfull", w.tid))
            raise
        raw.append(("qput", w.tid))
        sched.yield_()

    q.get, q.put = tget, tput
    old_time = saq._time
    saq._time = sched.time
    holders = {}  # cid -> set of tids
    viol = []
    live = {}

    def monitor():
        for cid, tids in holders.items():
            if len(tids) > 1:
                viol.append("connection %d held by %d live checkouts (threads %s) at the same time" % (cid, len(tids), sorted(t for t, _ in tids)))
        if mo >= 0 and len(ledger["open"]) > ps + mo:
            viol.append("%d connections open > pool_size+max_overflow=%d" % (len(ledger["open"]), ps + mo))
        if len(q.queue) > ps:
            viol.append("%d idle connections > pool_size=%d" % (len(q.queue), ps))
        for rec in q.queue:
            cid = rec.dbapi_connection.cid if rec.dbapi_connection is not None else None
            if cid in holders and holders[cid]:
                viol.append("connection %s is idle in the queue and held by %s" % (cid, sorted(t for t, _ in holders[cid])))

    sched.on_step = monitor

    fail_next = [False]
    if c.get("model", True) is False:
        from sqlalchemy import event as sa_event

        @sa_event.listens_for(pool, "checkout")
        def _on_checkout(dbapi_con, con_record, con_proxy):
            if fail_next[0]:
                fail_next[0] = False
                raise RuntimeError("application checkout hook failed")

    def worker_fn(prog):
        def fn(w):
            import gc

            mine = []
            kept = []
            dead = []
            for op in prog:
                sched.yield_()  # a thread can be preempted between two application statements
                if op in "cf":
                    raw.append(("start", w.tid))
                    t0 = sched.clock
                    if op == "f":
                        fail_next[0] = True
                    try:
                        f = pool.connect()
                    except exc.TimeoutError:
                        if sched.clock - t0 < 30:
                            viol.append(
                                "checkout raised TimeoutError after %.0fs of its 30s timeout (woken with an empty queue)"
                                % (sched.clock - t0)
                            )
                        continue
                    except RuntimeError as e:
                        if op == "f":
                            kept.append(e)  # the traceback keeps the failed fairy alive
                        continue
                    finally:
                        if op == "f":
                            fail_next[0] = False
                    cid = f.dbapi_connection.cid
                    holders.setdefault(cid, set()).add((w.tid, id(f)))
                    mine.append(f)
                    live[(w.tid, id(f))] = f
                    f = None
                elif op == "z":
                    del kept[:]
                    gc.collect()
                elif op in "xdi" and mine:
                    f = mine.pop(0)
                    cid = f.dbapi_connection.cid
                    raw.append(("release", w.tid))
                    holders[cid].discard((w.tid, id(f)))
                    del live[(w.tid, id(f))]
                    if op == "x":
                        f.close()
                        f = None
                    elif op == "i":
                        f.invalidate()
                        dead.append(f)  # the application still holds the dead fairy
                        f = None
                    else:
                        f = None
                        gc.collect()
                elif op == "y" and dead:
                    f = dead.pop(0)
                    f.close()  # closing a fairy that no longer owns a record must not touch the pool
                    f = None
            del kept[:]
            del dead[:]
            gc.collect()

        return fn

    for p in c["progs"]:
        sched.spawn(worker_fn(p))
    err = None
    try:
        sched.run()
    except Deadlock as e:
        err = "scheduler: %s" % e
    finally:
        saq._time = old_time
    for w in sched.workers:
        if w.error is not None and err is None:
            err = "worker %d: %s: %s" % (w.tid, type(w.error).__name__, w.error)
    if err:
        raise AssertionError(err)
    final = [len(q.queue), pool.__dict__["_ov"], len(live)]
    if pool.checkedout() != len(live):
        viol.append("checkedout()=%d but %d checkouts are live (all threads idle)" % (pool.checkedout(), len(live)))
    return raw, final, viol


def abstract(raw, mo):
    """raw instrumentation log -> model events"""
    out = []
    inlock = {}
    after_empty = {}
    for e in raw:
        k, i = e[0], e[1]
        if k == "start":
            out.append([0, i])
            after_empty[i] = False
        elif k == "lk":
            inlock[i] = []
        elif k == "ul":
            buf = inlock.pop(i, None)
            if buf is None:
                out.append([99, i])
            elif len(buf) == 1 and buf[0][0] == "rd":
                out.append([6, i, 0])
            elif len(buf) == 3 and [b[0] for b in buf] == ["rd", "rd", "wr"] and buf[2][1] == buf[1][1] + 1:
                out.append([6, i, 1])
            elif len(buf) == 2 and [b[0] for b in buf] == ["rd", "wr"] and buf[1][1] == buf[0][1] - 1:
                out.append([8, i])
            else:
                out.append([99, i])
        elif k in ("rd", "wr"):
            if i in inlock:
                inlock[i].append((k, e[2]))
            elif k == "rd":
                if mo < 0:
                    out.append([13, i, e[2]])
                else:
                    out.append([5 if after_empty.get(i) else 1, i, e[2]])
                    after_empty[i] = False
            else:
                out.append([14, i, e[2]])
        elif k == "qget":
            out.append([2, i, e[2]])
        elif k == "qempty":
            out.append([3, i])
            after_empty[i] = True
        elif k == "qwait":
            out.append([4, i])
        elif k == "qput":
            out.append([10, i])
        elif k == "qfull":
            out.append([11, i])
        elif k == "create":
            out.append([7, i, e[2], e[3]])
        elif k == "close":
            out.append([12, i])
        elif k == "release":
            out.append([9, i])
    return out


def impl(c):
    raw, final, viol = _run(c)
    mo = c["in"][0][1]
    _mon[c["sseed"]] = viol
    return [abstract(raw, mo), final]


def model_pair(c, obs):
    evs, final = obs
    (ps, mo, lf), nth, _ = c["in"]
    return [[ps, mo, lf], nth, evs], [-1] + list(final)


def oracle(c, obs):
    viol = _mon.get(c["sseed"], [])
    return viol[0] if viol else None


def match_finding(c, what):
    if c["in"][0][1] == -1 and what.startswith("checkedout()="):
        return "C25-unbounded-overflow-lost-update"
    return None
