"""C41 - ORM queries return the rows their relational meaning specifies.

Schema: P(id, x) --children / parent--< C(id, pid -> P.id NULL-able, y, kind); Sub = single-table subclass of C
(polymorphic identity 1, C itself 0).
Case format (tree):  [db, query, style, slice]
  db     [[[id, x | None] ...], [[id, pid | None, y | None, kind] ...]]
  sx     column criterion on the value column of one entity (P.x / C.y):
         [0] true | [1, op, k] col <op> k (0 == 1 != 2 < 3 <= 4 > 5 >=) | [2] IS NULL | [3, a, b] and | [4, a, b] or | [5, a] not
  pcrit  [0, sx] on P.x | [1, sx] P.children.any(sx) | [2, sx] P.children.of_type(Sub).any(sx)
         | [3, cid] P.children.contains(<C object cid>) | [7, sx] exists().where(C.pid == P.id, sx)
         | [8, sx] P.id.in_(select(C.pid).where(sx)) | [4, a, b] and | [5, a, b] or | [6, a] not
  ccrit  [0, sx] on C.y | [1, sx] C.parent.has(sx) | [4, a, b] | [5, a, b] | [6, a]
  query  [0, pcrit] select(P) | [1, ccrit] select(C)
         | [2, outer, target, sxp, sxc, colmode] select(P, T | T.y ..).join(P.children -> T)   target 0 C, 1 aliased(C),
           2 of_type(Sub), 3 join(Sub, P.id == Sub.pid) (hand-written ON clause); colmode 0 (P, T), 1 (P, T.y), 2 (P.x, T)
         | [3, outer, sxc, sxp] select(C, P).join(C.parent) | [4, sxc] select(P, count(C.id)).outerjoin(P.children).group_by(P.id)
         | [5, pcrit, pcrit] select(aliased(P, union(select(P).where(a), select(P).where(b)).subquery()))
         | [6, ncrit] select(Node) over the self-referential Node(id, parent_id, data):
           ncrit [0, sx] on Node.data | [1, sx] Node.children.any(sx) | [2, sx] Node.parent.has(sx)
           | [3, k] Node.children.any(data=k) | [4, k] Node.parent.has(data=k)  (keyword forms) | [5,a,b] and | [6,a,b] or | [7,a] not
         | [7, v, sx] the single-table subclass twice as separate FROM entities: v 0 select(Sub, SubA), 1 select(SubA1, SubA2),
           2 select(Sub.id, SubA.id); .where(X.pid == Y.pid, sx on Y.y)
         | [8, ccrit] select(aliased(C)).where(ccrit)
         | [9, sxa, sxb, ccrit] union over C with a criterion added AFTER the union: legacy
           query(C).filter(a).union(query(C).filter(b)).filter(ccrit); 2.0: select(aliased(C, union.subquery())).where(ccrit)
         | [10, order] (oracle only) select(P, Pa).join(Pa.children).join(P.children.of_type(Ca)) / the two joins swapped
         further pcrit: [9, sx] P.tags.any(sx on Node.data) (many-to-many over pn) | [10, sx] P.tags.any(Node.holders.any(sx on P.x))
         further ccrit: [7, rel] C.parent == None (rel 0) / C.owner == None (rel 1: same join, primaryjoin written FK first)
           | [9, rel] the same with != None | [8, sx] C.parent.has(P.children.any(sx on C.y))
  style  0 select() + Session.execute() | 1 legacy Session.query()
  slice  [offset, limit]  (limit -1: none) applied to the statement with .offset() / .limit()
  db     third component: rows of Node as [id, parent_id | None, data | None, 0]; fourth: association rows [p_id, node_id]
Observation: [rows, count, exists]; a row is a list of items: entity -> [object number (first occurrence, by identity), pk],
None entity -> [], column value -> int | [].  An exception is observed as rows [[-9]] / count -9 / exists -9.
"""
import json

ID = "C41"
LEVEL = "proof"
PROPS = "props/C41.v"
RUNNER = ("SAV.orm.QueryRun", "run_case")
STATIC_MODULES = ["SAV.orm.QueryRun"]
RULE = (
    "three fixed databases (NULL foreign keys, NULL values, parents without children, Sub and non-Sub children, "
    "duplicates under projection) x an enumerated query grammar: every atom of pcrit / ccrit over 5 column criteria and "
    "its negation, every join shape (inner/outer x target C / aliased / of_type(Sub) / Sub with a hand-written ON clause x 3 column modes x 4 criteria "
    "pairs), group-by and union queries, each in both styles (select()+execute, legacy Query); plus random databases "
    "(<= 4 parents, <= 5 children, <= 5 self-referential nodes) with random queries of depth <= 2; self-referential "
    "any()/has() in expression and keyword form; the single-table subclass twice as separate FROM entities; "
    "LIMIT/OFFSET followed by count()/exists() on every shape; many-to-one == None / != None (default and FK-first "
    "primaryjoin, plain and aliased); nested any() across a bidirectional many-to-many; union over C with has(any()) "
    "added after the union; two joins from an entity and its alias (oracle only). Compared with the model: the rows as entity "
    "identities + primary keys / values, count, exists. non-trivial = the query navigates the relationship (join, "
    "any/has/contains, subquery) and the database has a child with a NULL foreign key or a NULL value"
)
TRUSTED = [
    "hand-written Gallina transcription (coq/orm/Query.v: orm_to_core, assemble, orm_exec, orm_count, orm_exists) of "
    "RelationshipProperty.Comparator.any/has/contains/_criterion_exists, _optimized_compare (bind parameter = the "
    "foreign-key value of the object), _ORMJoin (single-table criterion of the of_type() target inside ON), "
    "_adjust_for_extra_criteria, loading.instances/_instance_processor (identity map, None for a NULL key), "
    "Query._iter (legacy unique()), Query.count / Query.exists; pinned and compared with the implementation",
    "the Core language and its 3-valued nested-loop semantics in Query.v (core_exec: joins, EXISTS, IN (subquery), "
    "GROUP BY/count, UNION, ORDER BY NULLs first); validated against SQLite on every case, both through the ORM "
    "statement and through the hand-built Core statement of the oracle",
    "the relational meaning [meaning] is my object-level reading of the ORM constructs (documentation of any/has/"
    "contains/of_type/join); grouping and UNION de-duplication are shared with the Core semantics",
]
ASSUMPTIONS = [
    "one one-to-many / many-to-one relationship pair with a simple foreign key, integer columns, a single-table "
    "subclass as of_type() target; many-to-many (secondary), composite keys, self-referential joins (only self-referential any()/has()), "
    "joined eager loading, yield_per, column_property / hybrid expressions, nested any() inside has() are not "
    "modelled (a self-referential one-to-many / many-to-one pair is: Node.children / Node.parent)",
    "fresh Session per query (empty identity map); objects handed to contains() are loaded from the database",
    "ClauseAdapter / aliasing internals are exercised by the aliased and union cases but not modelled (aliases are "
    "semantically transparent)",
]
ANCHORS = [
    ("lib/sqlalchemy/orm/relationships.py", "RelationshipProperty.Comparator._criterion_exists"),
    ("lib/sqlalchemy/orm/relationships.py", "RelationshipProperty.Comparator.any"),
    ("lib/sqlalchemy/orm/relationships.py", "RelationshipProperty.Comparator.has"),
    ("lib/sqlalchemy/orm/relationships.py", "RelationshipProperty.Comparator.contains"),
    ("lib/sqlalchemy/orm/relationships.py", "RelationshipProperty.Comparator.of_type"),
    ("lib/sqlalchemy/orm/relationships.py", "RelationshipProperty._optimized_compare"),
    ("lib/sqlalchemy/orm/relationships.py", "RelationshipProperty._get_attr_w_warn_on_none"),
    ("lib/sqlalchemy/orm/util.py", "_ORMJoin.__init__"),
    ("lib/sqlalchemy/orm/context.py", "_ORMSelectCompileState._join"),
    ("lib/sqlalchemy/orm/context.py", "_ORMSelectCompileState._join_left_to_right"),
    ("lib/sqlalchemy/orm/context.py", "_ORMSelectCompileState._adjust_for_extra_criteria"),
    ("lib/sqlalchemy/orm/context.py", "_MapperEntity.row_processor"),
    ("lib/sqlalchemy/orm/context.py", "_MapperEntity.setup_compile_state"),
    ("lib/sqlalchemy/orm/loading.py", "instances"),
    ("lib/sqlalchemy/orm/loading.py", "_instance_processor"),
    ("lib/sqlalchemy/orm/query.py", "Query._iter"),
    ("lib/sqlalchemy/orm/query.py", "Query.count"),
    ("lib/sqlalchemy/orm/query.py", "Query.exists"),
    ("lib/sqlalchemy/orm/relationships.py", "RelationshipProperty._lazy_none_clause"),
    ("lib/sqlalchemy/sql/util.py", "adapt_criterion_to_null"),
    ("lib/sqlalchemy/orm/query.py", "Query._from_selectable"),
    ("lib/sqlalchemy/orm/query.py", "Query._legacy_from_self"),
]


def translate(repo, outdir):
    from translate import fingerprint

    fingerprint.check(repo, ANCHORS, "C41")
    return []


# ------------------------------------------------------------------ generator
SX_ATOMS = [[0], [1, 0, 1], [1, 4, 1], [2], [5, [1, 0, 1]]]
DBS = [
    # parents 1 (x=1), 2 (x NULL), 3 (x=2, no children); children incl. an orphan (9), Sub rows, NULL y, duplicates of y
    [[[1, 1], [2, None], [3, 2]], [[4, 1, 1, 0], [5, 1, 1, 1], [6, 2, None, 1], [7, 2, 2, 0], [9, None, 1, 1]],
     [[1, None, 1, 0], [2, 1, 0, 0], [3, 2, 1, 0], [4, None, 0, 0], [5, 1, None, 0]],
     [[1, 1], [2, 1], [3, 2], [1, 5]]],
    # every child of parent 1 is a non-Sub; parent 2 has only Sub children
    [[[2, 0], [1, 3]], [[1, 1, 0, 0], [2, 1, 3, 0], [3, 2, 3, 1], [8, None, None, 0], [4, 2, 1, 1]],
     [[2, 2, 1, 0], [1, 2, 3, 0]], [[2, 1], [1, 1], [1, 2]]],
    # no children at all / a single parent
    [[[5, None]], [], [], []],
]


def _gsx(rng, d=2):
    k = rng.choice([0, 1, 1, 1, 2, 3, 4, 5]) if d > 0 else rng.choice([0, 1, 1, 2])
    if k == 0:
        return [0]
    if k == 1:
        return [1, rng.randrange(6), rng.choice([0, 1, 2, 3])]
    if k == 2:
        return [2]
    if k in (3, 4):
        return [k, _gsx(rng, d - 1), _gsx(rng, d - 1)]
    return [5, _gsx(rng, d - 1)]


def _gpc(rng, db, d=2):
    k = rng.choice([0, 1, 1, 2, 3, 4, 5, 6, 6, 7, 8, 9, 10, 10]) if d > 0 else rng.choice([0, 1, 2, 3, 7, 8, 9, 10])
    if k == 3 and not db[1]:
        k = 1
    if k in (0, 1, 2, 7, 8, 9, 10):
        return [k, _gsx(rng, 1)]
    if k == 3:
        return [3, rng.choice(db[1])[0]]
    if k in (4, 5):
        return [k, _gpc(rng, db, d - 1), _gpc(rng, db, d - 1)]
    return [6, _gpc(rng, db, d - 1)]


def _gcc(rng, d=2):
    k = rng.choice([0, 1, 1, 4, 5, 6, 7, 8, 9]) if d > 0 else rng.choice([0, 1, 7, 8, 9])
    if k in (7, 9):
        return [k, rng.randint(0, 1)]
    if k in (0, 1, 8):
        return [k, _gsx(rng, 1)]
    if k in (4, 5):
        return [k, _gcc(rng, d - 1), _gcc(rng, d - 1)]
    return [6, _gcc(rng, d - 1)]


def _gdb(rng):
    V = [None, 0, 1, 2, 3]
    ps = [[i, rng.choice(V)] for i in rng.sample(range(1, 8), rng.randint(0, 4))]
    cs = [
        [i, rng.choice([None] + [p[0] for p in ps] * 2), rng.choice(V), rng.randint(0, 1)]
        for i in rng.sample(range(1, 10), rng.randint(0, 5))
    ]
    ids = rng.sample(range(1, 9), rng.randint(0, 5))
    ns = [[i, rng.choice([None] + ids * 2), rng.choice(V), 0] for i in ids]
    pn = [[p[0], n] for p in ps for n in ids if rng.random() < 0.35]
    rng.shuffle(pn)
    return [ps, cs, ns, pn]


def _gnc(rng, d=2):
    k = rng.choice([0, 1, 2, 3, 3, 4, 4, 5, 6, 7]) if d > 0 else rng.choice([0, 1, 2, 3, 4])
    if k in (0, 1, 2):
        return [k, _gsx(rng, 1)]
    if k in (3, 4):
        return [k, rng.choice([0, 1, 2, 3])]
    if k in (5, 6):
        return [k, _gnc(rng, d - 1), _gnc(rng, d - 1)]
    return [7, _gnc(rng, d - 1)]


def _gslice(rng):
    if rng.random() < 0.6:
        return [0, -1]
    return [rng.choice([0, 1, 1, 2, 3]), rng.choice([-1, -1, 0, 1, 2, 4])]


def _gq(rng, db):
    sh = rng.choice([0, 0, 1, 2, 2, 3, 4, 5, 6, 6, 7, 8, 9, 9])
    if sh == 0:
        return [0, _gpc(rng, db)]
    if sh == 1:
        return [1, _gcc(rng)]
    if sh == 2:
        return [2, rng.randint(0, 1), rng.randrange(4), _gsx(rng, 1), _gsx(rng, 1), rng.randrange(3)]
    if sh == 3:
        return [3, rng.randint(0, 1), _gsx(rng, 1), _gsx(rng, 1)]
    if sh == 4:
        return [4, _gsx(rng, 1)]
    if sh == 6:
        return [6, _gnc(rng)]
    if sh == 8:
        return [8, _gcc(rng)]
    if sh == 9:
        return [9, _gsx(rng, 1), _gsx(rng, 1), _gcc(rng, 1)]
    if sh == 7:
        return [7, rng.randrange(3), _gsx(rng, 1)]
    return [5, _gpc(rng, db, 1), _gpc(rng, db, 1)]


def _enum_queries(db, rng, tier):
    qs = []
    patoms = [[k, s] for k in (0, 1, 2, 7, 8, 9, 10) for s in SX_ATOMS] + [[3, c[0]] for c in db[1][-2:]]
    for a in patoms:
        qs.append([0, a])
        qs.append([0, [6, a]])
    catoms = [[k, s] for k in (0, 1, 8) for s in SX_ATOMS] + [[k, r] for k in (7, 9) for r in (0, 1)]
    for a in catoms:
        qs.append([1, a])
        qs.append([1, [6, a]])
    for a in catoms[10:]:
        qs.append([8, a])
        qs.append([8, [6, a]])
    for post in catoms[5:]:
        qs.append([9, [1, 0, 1], [2], post])
        qs.append([9, [0], [1, 4, 1], [6, post]])
    pairs = [([0], [0]), ([1, 0, 1], [0]), ([0], [5, [1, 0, 1]]), ([2], [2])]
    for outer in (0, 1):
        for tg in (0, 1, 2, 3):
            for m in (0, 1, 2):
                for sp, sc in pairs if tier == "thorough" else rng.sample(pairs, 2):
                    qs.append([2, outer, tg, sp, sc, m])
        for sc, sp in pairs:
            qs.append([3, outer, sc, sp])
    for s in SX_ATOMS:
        qs.append([4, s])
    for a, b in [(patoms[1], patoms[6]), (patoms[0], patoms[3]), ([6, patoms[-1]], patoms[2]), (patoms[-1], patoms[-2])]:
        qs.append([5, a, b])
    natoms = [[k, s] for k in (0, 1, 2) for s in SX_ATOMS] + [[k, v] for k in (3, 4) for v in (0, 1, 3)]
    for a in natoms:
        qs.append([6, a])
        qs.append([6, [7, a]])
    for v in (0, 1, 2):
        for sc in SX_ATOMS[:3]:
            qs.append([7, v, sc])
    return qs


def gen_cases(rng, tier):
    cases = []
    for db in DBS:
        for q in _enum_queries(db, rng, tier):
            for style in (0, 1):
                cases.append({"in": [db, q, style, [0, -1]], "kind": "enum%d" % q[0]})
    # LIMIT / OFFSET followed by count() / exists(), every shape, both styles
    for db in DBS[:2]:
        qs = [[0, [0, [0]]], [1, [0, [0]]], [2, 0, 0, [0], [0], 0], [2, 1, 2, [0], [0], 1], [3, 1, [0], [0]], [4, [0]],
              [5, [0, [1, 0, 1]], [1, [0]]], [6, [0, [0]]], [7, 0, [0]]]
        for q in qs:
            for sl in ([1, -1], [2, -1], [0, 2], [1, 1], [2, 3], [9, -1]):
                for style in (0, 1):
                    cases.append({"in": [db, q, style, sl], "kind": "slice"})
    # two joins, one from an alias of P and one from P itself, in both orders (oracle only: not a model shape)
    for db in DBS[:2] + [_gdb(rng) for _ in range(6)]:
        for order in (0, 1):
            for style in (0, 1):
                cases.append({"in": [db, [10, order], style, [0, -1]], "kind": "twojoins", "model": False})
    for _ in range(4000 if tier == "thorough" else 330):
        db = _gdb(rng)
        for _ in range(3):
            cases.append({"in": [db, _gq(rng, db), rng.randint(0, 1), _gslice(rng)], "kind": "random"})
    for c in cases:
        if _aliased_nested(c["in"]):
            c["model"] = False  # known defect of the unmodified tree, not modelled: oracle only
    return cases


def _ccrit_has_nested(t):
    if isinstance(t, list) and t:
        if t[0] == 8 and len(t) == 2:
            return True
        if t[0] in (4, 5, 6):
            return any(_ccrit_has_nested(x) for x in t[1:])
    return False


def _aliased_nested(inp):
    """has(any()) coming back to C, asked of an ALIASED C entity (select(aliased(C)) / aliased(C, union))"""
    q, style = inp[1], inp[2]
    return (q[0] == 8 and _ccrit_has_nested(q[1])) or (q[0] == 9 and style == 0 and _ccrit_has_nested(q[3]))


def nontrivial(c):
    db, q, style, sl = c["in"]
    nullish = any(r[1] in (None, []) or r[2] in (None, []) for r in db[1])
    nullish = nullish or any(r[1] in (None, []) or r[2] in (None, []) for r in db[2])
    return nullish and (q[0] in (2, 3, 4, 7) or _navigates(q[1:]))


def _navigates(t):
    if isinstance(t, list) and t:
        if t[0] in (1, 2, 3, 7, 8) and len(t) == 2:
            return True
        return any(_navigates(x) for x in t[1:] if isinstance(x, list))
    return False


# ------------------------------------------------------------------ implementation side
_M = {}
_LAST = {}
OPS = ["__eq__", "__ne__", "__lt__", "__le__", "__gt__", "__ge__"]


def _mapping():
    if _M:
        return _M["v"]
    from sqlalchemy import Column, ForeignKey, Integer
    from sqlalchemy.orm import configure_mappers, declarative_base, relationship

    Base = declarative_base()

    class P(Base):
        __tablename__ = "p"
        id = Column(Integer, primary_key=True)
        x = Column(Integer)
        children = relationship("C", back_populates="parent", order_by="C.id")
        tags = relationship("Node", secondary="pn", back_populates="holders")

    class C(Base):
        __tablename__ = "c"
        id = Column(Integer, primary_key=True)
        pid = Column(ForeignKey("p.id"))
        y = Column(Integer)
        kind = Column(Integer, nullable=False)
        parent = relationship("P", back_populates="children")
        # the same many-to-one with the primaryjoin written foreign key first
        owner = relationship("P", primaryjoin="C.pid == P.id", viewonly=True)
        __mapper_args__ = {"polymorphic_on": "kind", "polymorphic_identity": 0}

    class Sub(C):
        __mapper_args__ = {"polymorphic_identity": 1}

    class Node(Base):
        __tablename__ = "node"
        id = Column(Integer, primary_key=True)
        parent_id = Column(ForeignKey("node.id"))
        data = Column(Integer)
        children = relationship("Node", back_populates="parent", order_by="Node.id")
        parent = relationship("Node", back_populates="children", remote_side=[id])
        holders = relationship("P", secondary="pn", back_populates="tags")

    from sqlalchemy import Table

    Table("pn", Base.metadata, Column("p_id", ForeignKey("p.id")), Column("n_id", ForeignKey("node.id")))

    configure_mappers()
    _M["v"] = (Base, P, C, Sub)
    _M["node"] = Node
    _M["pn"] = Base.metadata.tables["pn"]
    return _M["v"]


def _sx(t, col):
    from sqlalchemy import and_, not_, or_, true

    k = t[0]
    if k == 0:
        return true()
    if k == 1:
        return getattr(col, OPS[t[1]])(t[2])
    if k == 2:
        return col.is_(None)
    if k == 3:
        return and_(_sx(t[1], col), _sx(t[2], col))
    if k == 4:
        return or_(_sx(t[1], col), _sx(t[2], col))
    return not_(_sx(t[1], col))


def _pcrit(t, Pe, s, orm):
    """orm=True: the ORM constructs under test; orm=False: the hand-built Core expression on the tables"""
    from sqlalchemy import and_, exists, not_, or_, select

    Base, P, C, Sub = _mapping()
    ct = C.__table__
    k = t[0]
    if k == 0:
        return _sx(t[1], Pe.x if orm else Pe.c.x)
    if orm:
        if k == 1:
            return Pe.children.any(_sx(t[1], C.y))
        if k == 2:
            return Pe.children.of_type(Sub).any(_sx(t[1], Sub.y))
        if k == 7:
            return exists().where(C.pid == Pe.id, _sx(t[1], C.y))
        if k == 8:
            return Pe.id.in_(select(C.pid).where(_sx(t[1], C.y)))
        if k == 3:
            return Pe.children.contains(s.get(C, t[1]))
        if k == 9:
            return Pe.tags.any(_sx(t[1], _M["node"].data))
        if k == 10:
            return Pe.tags.any(_M["node"].holders.any(_sx(t[1], P.x)))
    else:
        if k in (9, 10):
            nt, at, at2, p2 = _M["node"].__table__.alias(), _M["pn"].alias(), _M["pn"].alias(), P.__table__.alias()
            if k == 9:
                inner = _sx(t[1], nt.c.data)
            else:
                inner = exists().where(nt.c.id == at2.c.n_id, p2.c.id == at2.c.p_id, _sx(t[1], p2.c.x))
            return exists().where(Pe.c.id == at.c.p_id, nt.c.id == at.c.n_id, inner).correlate(Pe)
        if k in (1, 7):
            return exists().where(ct.c.pid == Pe.c.id, _sx(t[1], ct.c.y)).correlate(Pe)
        if k == 2:
            return exists().where(ct.c.pid == Pe.c.id, ct.c.kind == 1, _sx(t[1], ct.c.y)).correlate(Pe)
        if k == 8:
            return Pe.c.id.in_(select(ct.c.pid).where(_sx(t[1], ct.c.y)))
        if k == 3:
            # "the child is in p.children": p.id equals the child's foreign key; Core renders == None as IS NULL
            pid = s.execute(select(ct.c.pid).where(ct.c.id == t[1])).scalar()
            return Pe.c.id == pid
    if k == 4:
        return and_(_pcrit(t[1], Pe, s, orm), _pcrit(t[2], Pe, s, orm))
    if k == 5:
        return or_(_pcrit(t[1], Pe, s, orm), _pcrit(t[2], Pe, s, orm))
    return not_(_pcrit(t[1], Pe, s, orm))


def _ccrit(t, Ce, s, orm):
    from sqlalchemy import and_, exists, not_, or_

    Base, P, C, Sub = _mapping()
    pt = P.__table__
    k = t[0]
    if k == 0:
        return _sx(t[1], Ce.y if orm else Ce.c.y)
    if k == 1:
        if orm:
            return Ce.parent.has(_sx(t[1], P.x))
        return exists().where(pt.c.id == Ce.c.pid, _sx(t[1], pt.c.x)).correlate(Ce)
    if k in (7, 9):
        if orm:
            rel = Ce.owner if t[1] else Ce.parent
            return (rel == None) if k == 7 else (rel != None)  # noqa: E711
        return Ce.c.pid.is_(None) if k == 7 else Ce.c.pid.is_not(None)
    if k == 8:
        if orm:
            return Ce.parent.has(P.children.any(_sx(t[1], C.y)))
        p2, c2 = pt.alias(), C.__table__.alias()
        inner = exists().where(c2.c.pid == p2.c.id, _sx(t[1], c2.c.y))
        return exists().where(p2.c.id == Ce.c.pid, inner).correlate(Ce)
    if k == 4:
        return and_(_ccrit(t[1], Ce, s, orm), _ccrit(t[2], Ce, s, orm))
    if k == 5:
        return or_(_ccrit(t[1], Ce, s, orm), _ccrit(t[2], Ce, s, orm))
    return not_(_ccrit(t[1], Ce, s, orm))


def _ncrit(t, Ne, orm):
    from sqlalchemy import and_, exists, not_, or_

    _mapping()
    Node = _M["node"]
    k = t[0]
    if k == 0:
        return _sx(t[1], Ne.data if orm else Ne.c.data)
    if k in (1, 2, 3, 4):
        if orm:
            if k == 1:
                return Ne.children.any(_sx(t[1], Node.data))
            if k == 2:
                return Ne.parent.has(_sx(t[1], Node.data))
            if k == 3:
                return Ne.children.any(data=t[1])
            return Ne.parent.has(data=t[1])
        rel = Node.__table__.alias()  # the related row
        crit = _sx(t[1], rel.c.data) if k in (1, 2) else rel.c.data == t[1]
        if k in (1, 3):
            return exists().where(rel.c.parent_id == Ne.c.id, crit).correlate(Ne)
        return exists().where(rel.c.id == Ne.c.parent_id, crit).correlate(Ne)
    if k == 5:
        return and_(_ncrit(t[1], Ne, orm), _ncrit(t[2], Ne, orm))
    if k == 6:
        return or_(_ncrit(t[1], Ne, orm), _ncrit(t[2], Ne, orm))
    return not_(_ncrit(t[1], Ne, orm))


def _kinds(q):
    """per result column: "P" / "C" entity or None for a plain value"""
    sh = q[0]
    if sh in (0, 5):
        return ["P"]
    if sh == 1:
        return ["C"]
    if sh == 2:
        return {0: ["P", "C"], 1: ["P", None], 2: [None, "C"]}[q[5]]
    if sh == 3:
        return ["C", "P"]
    if sh == 6:
        return ["N"]
    if sh in (8, 9):
        return ["C"]
    if sh == 10:
        return ["P", "P"]
    if sh == 7:
        return [None, None] if q[1] == 2 else ["C", "C"]
    return ["P", None]


def _orm_stmt(q, s, legacy):
    from sqlalchemy import func, select, union
    from sqlalchemy.orm import aliased

    Base, P, C, Sub = _mapping()
    sel = (lambda *a: s.query(*a)) if legacy else select
    wh = "filter" if legacy else "where"
    sh = q[0]
    if sh == 0:
        return getattr(sel(P), wh)(_pcrit(q[1], P, s, True)).order_by(P.id)
    if sh == 1:
        return getattr(sel(C), wh)(_ccrit(q[1], C, s, True)).order_by(C.id)
    if sh == 2:
        _, outer, target, sxp, sxc, colmode = q
        if target == 0:
            T, on = C, P.children
        elif target == 1:
            T = aliased(C)
            on = P.children.of_type(T)
        else:
            T, on = Sub, P.children.of_type(Sub)
        cols = [P, T] if colmode == 0 else [P, T.y] if colmode == 1 else [P.x, T]
        if target == 3:
            st = sel(*cols).join(Sub, P.id == Sub.pid, isouter=bool(outer))
        else:
            st = sel(*cols).join(on, isouter=bool(outer))
        return getattr(st, wh)(_sx(sxp, P.x), _sx(sxc, T.y)).order_by(P.id, T.id)
    if sh == 3:
        _, outer, sxc, sxp = q
        st = sel(C, P).join(C.parent, isouter=bool(outer))
        return getattr(st, wh)(_sx(sxc, C.y), _sx(sxp, P.x)).order_by(C.id)
    if sh == 4:
        st = sel(P, func.count(C.id)).outerjoin(P.children)
        return getattr(st, wh)(_sx(q[1], C.y)).group_by(P.id).order_by(P.id)
    if sh == 6:
        Node = _M["node"]
        return getattr(sel(Node), wh)(_ncrit(q[1], Node, True)).order_by(Node.id)
    if sh == 8:
        Ca = aliased(C)
        return getattr(sel(Ca), wh)(_ccrit(q[1], Ca, s, True)).order_by(Ca.id)
    if sh == 9:
        if legacy:
            q1 = s.query(C).filter(_sx(q[1], C.y))
            q2 = s.query(C).filter(_sx(q[2], C.y))
            return q1.union(q2).filter(_ccrit(q[3], C, s, True)).order_by(C.id)
        u = union(select(C).where(_sx(q[1], C.y)), select(C).where(_sx(q[2], C.y))).subquery()
        Ca = aliased(C, u)
        return select(Ca).where(_ccrit(q[3], Ca, s, True)).order_by(Ca.id)
    if sh == 10:
        Pa, Ca = aliased(P), aliased(C)
        if q[1] == 0:
            st = sel(P, Pa).join(Pa.children).join(P.children.of_type(Ca))
        else:
            st = sel(P, Pa).join(P.children.of_type(Ca)).join(Pa.children)
        return st.order_by(P.id, Pa.id, C.id, Ca.id)
    if sh == 7:
        A = aliased(Sub) if q[1] == 1 else Sub
        B = aliased(Sub)
        cols = [A.id, B.id] if q[1] == 2 else [A, B]
        return getattr(sel(*cols), wh)(A.pid == B.pid, _sx(q[2], B.y)).order_by(A.id, B.id)
    if legacy:
        q1 = s.query(P).filter(_pcrit(q[1], P, s, True))
        q2 = s.query(P).filter(_pcrit(q[2], P, s, True))
        return q1.union(q2).order_by(P.id)
    u = union(select(P).where(_pcrit(q[1], P, s, True)), select(P).where(_pcrit(q[2], P, s, True))).subquery()
    Pa = aliased(P, u)
    return select(Pa).order_by(Pa.id)


def _core_stmt(q, s):
    """the equivalent Core query, written by hand against the tables"""
    from sqlalchemy import func, select, union

    Base, P, C, Sub = _mapping()
    pt, ct = P.__table__, C.__table__
    sh = q[0]
    if sh == 0:
        return select(pt.c.id).where(_pcrit(q[1], pt, s, False)).order_by(pt.c.id)
    if sh == 1:
        return select(ct.c.id).where(_ccrit(q[1], ct, s, False)).order_by(ct.c.id)
    if sh == 2:
        _, outer, target, sxp, sxc, colmode = q
        T = ct.alias() if target == 1 else ct
        on = T.c.pid == pt.c.id
        if target in (2, 3):
            on = on & (T.c.kind == 1)
        cols = [pt.c.id, T.c.id] if colmode == 0 else [pt.c.id, T.c.y] if colmode == 1 else [pt.c.x, T.c.id]
        j = pt.join(T, on, isouter=bool(outer))
        return select(*cols).select_from(j).where(_sx(sxp, pt.c.x), _sx(sxc, T.c.y)).order_by(pt.c.id, T.c.id)
    if sh == 3:
        _, outer, sxc, sxp = q
        j = ct.join(pt, pt.c.id == ct.c.pid, isouter=bool(outer))
        return select(ct.c.id, pt.c.id).select_from(j).where(_sx(sxc, ct.c.y), _sx(sxp, pt.c.x)).order_by(ct.c.id)
    if sh == 4:
        j = pt.outerjoin(ct, ct.c.pid == pt.c.id)
        return select(pt.c.id, func.count(ct.c.id)).select_from(j).where(_sx(q[1], ct.c.y)).group_by(pt.c.id).order_by(pt.c.id)
    if sh == 6:
        nt = _M["node"].__table__
        return select(nt.c.id).where(_ncrit(q[1], nt, False)).order_by(nt.c.id)
    if sh == 8:
        ca = ct.alias()
        return select(ca.c.id).where(_ccrit(q[1], ca, s, False)).order_by(ca.c.id)
    if sh == 9:
        u = union(select(ct).where(_sx(q[1], ct.c.y)), select(ct).where(_sx(q[2], ct.c.y))).subquery()
        return select(u.c.id).where(_ccrit(q[3], u, s, False)).order_by(u.c.id)
    if sh == 10:
        pa, c1, c2 = pt.alias(), ct.alias(), ct.alias()
        j1 = pt.join(c2, c2.c.pid == pt.c.id)
        j2 = pa.join(c1, c1.c.pid == pa.c.id)
        return select(pt.c.id, pa.c.id).select_from(j1, j2).order_by(pt.c.id, pa.c.id, c1.c.id, c2.c.id)
    if sh == 7:
        a, b = ct.alias(), ct.alias()
        return (
            select(a.c.id, b.c.id)
            .where(a.c.pid == b.c.pid, _sx(q[2], b.c.y), a.c.kind == 1, b.c.kind == 1)
            .order_by(a.c.id, b.c.id)
        )
    u = union(select(pt).where(_pcrit(q[1], pt, s, False)), select(pt).where(_pcrit(q[2], pt, s, False))).subquery()
    return select(u.c.id).order_by(u.c.id)


def _n(v):
    return None if v == [] else v


def impl(c):
    import warnings

    from sqlalchemy import create_engine, func, insert, select
    from sqlalchemy.orm import Session

    warnings.simplefilter("ignore")
    db, q, style, (off, lim) = c["in"]
    Base, P, C, Sub = _mapping()
    e = create_engine("sqlite://")
    try:
        Base.metadata.create_all(e)
        with e.begin() as conn:
            for i, x in db[0]:
                conn.execute(insert(P.__table__).values(id=i, x=_n(x)))
            for i, pid, y, kind in db[1]:
                conn.execute(insert(C.__table__).values(id=i, pid=_n(pid), y=_n(y), kind=kind))
            for i, pid, y, _k in sorted(db[2], key=lambda r: r[0]):
                conn.execute(insert(_M["node"].__table__).values(id=i, parent_id=_n(pid), data=_n(y)))
            for pi, ni in db[3]:
                conn.execute(insert(_M["pn"]).values(p_id=pi, n_id=ni))
        kinds = _kinds(q)
        with Session(e) as s:
            st = _orm_stmt(q, s, bool(style))
            if off:
                st = st.offset(off)
            if lim >= 0:
                st = st.limit(lim)
            # an exception is an observation (-9), never a crash of the driver
            try:
                if style == 0:
                    res = [tuple(r) for r in s.execute(st).all()]
                else:
                    res = st.all()
                    if len(kinds) == 1:
                        res = [(r,) for r in res]
            except Exception:
                res = None
            try:
                if style == 0:
                    cnt = s.scalar(select(func.count()).select_from(st.subquery()))
                else:
                    cnt = st.count()
            except Exception:
                cnt = -9
            try:
                exi = s.scalar(select(st.exists())) if style == 0 else s.query(st.exists()).scalar()
            except Exception:
                exi = -9
            cst = _core_stmt(q, s)
            if off:
                cst = cst.offset(off)
            if lim >= 0:
                cst = cst.limit(lim)
            if res is None:
                core = [list(r) for r in s.execute(cst).all()]
                _LAST.clear()
                _LAST[json.dumps(c["in"])] = core
                return [[[-9]], cnt, exi if exi == -9 else int(bool(exi))]
            seen = {}
            rows = []
            for r in res:
                row = []
                for k, v in zip(kinds, r):
                    if k is None:
                        row.append(v)
                    elif v is None:
                        row.append([])
                    else:
                        row.append([seen.setdefault(id(v), len(seen)), v.id])
                rows.append(row)
            core = [list(r) for r in s.execute(cst).all()]
        _LAST.clear()
        _LAST[json.dumps(c["in"])] = core
        return [rows, cnt, exi if exi == -9 else int(bool(exi))]
    finally:
        e.dispose()


# ------------------------------------------------------------------ the property, stated on the observation
def _dedup(rows):
    out = []
    for r in rows:
        if r not in out:
            out.append(r)
    return out


def _orphan_contains(db, t):
    if isinstance(t, list) and t:
        if t[0] == 3 and len(t) == 2 and isinstance(t[1], int):
            return any(r[0] == t[1] and r[1] in (None, []) for r in db[1])
        return any(_orphan_contains(db, x) for x in t if isinstance(x, list))
    return False


def oracle(c, obs):
    db, q, style, sl = c["in"]
    key = json.dumps(c["in"])
    if key not in _LAST:
        impl(c)
    core = _LAST[key]
    rows, cnt, exi = obs
    if rows == [[-9]]:
        return "rows: the ORM query raised; the equivalent Core query returns %s" % (core,)
    if cnt == -9 or exi == -9:
        return "count: count() / exists() raised for a query that returns %d rows" % len(rows)
    if cnt in (None, []):
        return "count: count() returned None for a query that returns %d rows" % len(rows)
    kinds = _kinds(q)
    vals = [[(it[1] if it else None) if k else _n(it) for k, it in zip(kinds, r)] for r in rows]
    # identity map: one object per (class, primary key)
    byobj, bykey = {}, {}
    for r in rows:
        for k, it in zip(kinds, r):
            if k and it:
                if byobj.setdefault((k, it[0]), it[1]) != it[1] or bykey.setdefault((k, it[1]), it[0]) != it[0]:
                    return "identity: two objects for one primary key (or one object for two) in %s" % rows
    if vals != core:
        if style == 1 and vals == _dedup(core):
            return "legacy-uniquing: Query.all() returned %d de-duplicated rows, the Core query has %d rows" % (len(vals), len(core))
        if q[0] in (0, 5) and _orphan_contains(db, q[1:]):
            return "contains-orphan: rows %s, the Core query (p.id IS NULL for a child without parent) has %s" % (vals, core)
        return "rows: ORM returned %s, the equivalent Core query returns %s" % (vals, core)
    if cnt != len(rows):
        return "count: count() = %d, %d rows returned" % (cnt, len(rows))
    if exi != int(len(rows) > 0):
        return "exists: exists() = %d, %d rows returned" % (exi, len(rows))
    return None


def match_finding(c, what):
    db, q, style, sl = c["in"]
    if what.startswith("legacy-uniquing:") and style == 1:
        return "C41-legacy-query-uniquing"
    if what.startswith("rows:") and _aliased_nested(c["in"]):
        return "C41-aliased-has-nested-any-adapted"
    if what.startswith("rows:") and q[0] == 10 and q[1] == 0:
        return "C41-join-from-entity-after-alias-join"
    if what.startswith("contains-orphan:") and _negated_orphan(db, q[1:], False):
        return "C41-not-contains-orphan"
    return None


def _negated_orphan(db, t, neg):
    """a contains() of a child without parent occurs under an odd number of NOTs"""
    if isinstance(t, list) and t:
        if t[0] == 3 and len(t) == 2 and isinstance(t[1], int):
            return neg and any(r[0] == t[1] and r[1] in (None, []) for r in db[1])
        if t[0] == 6 and len(t) == 2:
            return _negated_orphan(db, t[1], not neg)
        return any(_negated_orphan(db, x, neg) for x in t if isinstance(x, list))
    return False


LEVEL_TEXT = (
    "Machine-checked proof (Coq) over an executable model of the ORM query pipeline for one relationship pair: the "
    "Core query the ORM compiles (join along a relationship, aliased / of_type targets, any/has/contains, EXISTS and "
    "IN subqueries, GROUP BY with entity + count, UNION) evaluated under 3-valued logic equals the relational meaning "
    "of the ORM query stated on the object graph, for every database and every query of the grammar (with the one "
    "refuted case: NOT contains(child without parent), proved both ways); row -> entity assembly through the identity "
    "map is one-to-one and order preserving (object identity <-> primary key); count()/exists() agree with the rows "
    "(refuted for legacy Query de-duplication, proved for select() and for duplicate-free results). Tied to the code "
    "by a source pin, a model/implementation correspondence on SQLite and a hand-built Core oracle."
)
LEVEL_NOTE = (
    "partial: one one-to-many/many-to-one pair and a single-table of_type() target; many-to-many, self-referential "
    "joins, eager loading, nested relationship criteria are outside. Trusted: Coq kernel; the transcription (pin + "
    "correspondence); SQLite as referee of the 3VL semantics. No axioms."
)
TECHNIQUE = "Coq proof (structural induction on criteria, symbolic evaluation of the Core interpreter, identity-map invariant); source pin; enumerated + random model/impl correspondence on SQLite; differential oracle ORM vs hand-built Core"
