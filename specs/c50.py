"""C50 - ordering lists and association proxies behave as their collection types.

Case format (tree): see coq/orm/AssocProxyRun.v
  [0, [base, reorder_on_append, attached, n], ops]  ordering list (attached: the collection of a relationship; else the
                                                    bare class, loaded from a pristine copy of the module)
  [1, init, ops] list proxy   [2, init, ops] set proxy   [3, pairs, ops] dict proxy
"""
import ast
import json
import os

ID = "C50"
LEVEL = "proof"
PROPS = "props/C50.v"
RUNNER = ("SAV.orm.AssocProxyRun", "run_case")
STATIC_MODULES = ["SAV.orm.AssocProxyRun", "SAV.orm.AssocProxyWitness"]
RULE = (
    "ordering list: every single operation (append/insert/remove/pop/l[i]=x/l[sl]=v/del l[i]/del l[sl]/extend/+=/clear/"
    "sort/reverse/*=/reorder, indexes -5..5, slices over {None,-4..4}^2 x step {None,1,2,-1}) from lists of 0..4 "
    "entities for count_from 0/1 and reorder_on_append on/off, attached to a relationship; the bare class for the "
    "slice-assignment loop; plus random histories of 2..8 operations incl. re-appending removed entities. proxies: every "
    "single list / set / dict operation from small pre-states, whole-collection assignment obj.proxy = x for every "
    "old/new pair of small grids (overlapping keys with different values included) plus random histories with "
    "assignments; after the last operation the session is flushed and the rows are read back. quick tier: pre-states "
    "of 2-3 members, slices sampled (seeded), 45 random rounds; thorough: the whole grids, 3000 rounds. non-trivial = "
    "the case has an operation that changes membership or order"
)
TRUSTED = [
    "hand-written Gallina transcription of OrderingList (own methods) composed with the _list_decorators wrapper "
    "algorithm of orm/collections.py for attached collections, and of _AssociationList/_AssociationSet/"
    "_AssociationDict (pinned normalised source + step-by-step correspondence with the real classes attached to "
    "real relationships)",
    "T1: the set of list mutators OrderingList overrides is extracted by ast on every run (Gen_C50.v) and must equal "
    "the split the model assumes (reflective check overrides_ok)",
    "reference semantics of list / set / dict: coq/base/PySlice.v, py_*_op of coq/orm/Coll*.v (C38); the oracle re-runs "
    "every proxy operation on the plain builtin",
    "the relationship collection under a proxy behaves as the builtin (C38)",
]
ASSUMPTIONS = [
    "ordering_func = count_from_n (custom ordering functions are not modelled)",
    "entities are distinct objects identified by an integer; proxied values are ints; creator/getter/setter are the "
    "defaults (attribute constructor / attrgetter / setattr)",
    "set.pop() through a set proxy is compared through the oracle only (which member: the builtin's choice)",
]
ANCHORS = [
    ("lib/sqlalchemy/ext/orderinglist.py", "OrderingList.reorder"),
    ("lib/sqlalchemy/ext/orderinglist.py", "OrderingList._order_entity"),
    ("lib/sqlalchemy/ext/orderinglist.py", "OrderingList.append"),
    ("lib/sqlalchemy/ext/orderinglist.py", "OrderingList.insert"),
    ("lib/sqlalchemy/ext/orderinglist.py", "OrderingList.remove"),
    ("lib/sqlalchemy/ext/orderinglist.py", "OrderingList.pop"),
    ("lib/sqlalchemy/ext/orderinglist.py", "OrderingList.__setitem__"),
    ("lib/sqlalchemy/ext/orderinglist.py", "OrderingList.__delitem__"),
    ("lib/sqlalchemy/ext/orderinglist.py", "count_from_n_factory"),
    ("lib/sqlalchemy/ext/associationproxy.py", "_AssociationList.__setitem__"),
    ("lib/sqlalchemy/ext/associationproxy.py", "_AssociationList.__delitem__"),
    ("lib/sqlalchemy/ext/associationproxy.py", "_AssociationList.append"),
    ("lib/sqlalchemy/ext/associationproxy.py", "_AssociationList.extend"),
    ("lib/sqlalchemy/ext/associationproxy.py", "_AssociationList.insert"),
    ("lib/sqlalchemy/ext/associationproxy.py", "_AssociationList.pop"),
    ("lib/sqlalchemy/ext/associationproxy.py", "_AssociationList.remove"),
    ("lib/sqlalchemy/ext/associationproxy.py", "_AssociationList.clear"),
    ("lib/sqlalchemy/ext/associationproxy.py", "_AssociationList.__iadd__"),
    ("lib/sqlalchemy/ext/associationproxy.py", "_AssociationList.__imul__"),
    ("lib/sqlalchemy/ext/associationproxy.py", "_AssociationList.reverse"),
    ("lib/sqlalchemy/ext/associationproxy.py", "_AssociationList.sort"),
    ("lib/sqlalchemy/ext/associationproxy.py", "_AssociationSet.add"),
    ("lib/sqlalchemy/ext/associationproxy.py", "_AssociationSet.discard"),
    ("lib/sqlalchemy/ext/associationproxy.py", "_AssociationSet.remove"),
    ("lib/sqlalchemy/ext/associationproxy.py", "_AssociationSet.pop"),
    ("lib/sqlalchemy/ext/associationproxy.py", "_AssociationSet.update"),
    ("lib/sqlalchemy/ext/associationproxy.py", "_AssociationSet.__ior__"),
    ("lib/sqlalchemy/ext/associationproxy.py", "_AssociationSet.difference_update"),
    ("lib/sqlalchemy/ext/associationproxy.py", "_AssociationSet.__isub__"),
    ("lib/sqlalchemy/ext/associationproxy.py", "_AssociationSet.intersection_update"),
    ("lib/sqlalchemy/ext/associationproxy.py", "_AssociationSet.__iand__"),
    ("lib/sqlalchemy/ext/associationproxy.py", "_AssociationSet.symmetric_difference_update"),
    ("lib/sqlalchemy/ext/associationproxy.py", "_AssociationSet.__ixor__"),
    ("lib/sqlalchemy/ext/associationproxy.py", "_AssociationSet.clear"),
    ("lib/sqlalchemy/ext/associationproxy.py", "_AssociationDict.__setitem__"),
    ("lib/sqlalchemy/ext/associationproxy.py", "_AssociationDict.__delitem__"),
    ("lib/sqlalchemy/ext/associationproxy.py", "_AssociationDict.clear"),
    ("lib/sqlalchemy/ext/associationproxy.py", "_AssociationDict.setdefault"),
    ("lib/sqlalchemy/ext/associationproxy.py", "_AssociationDict.pop"),
    ("lib/sqlalchemy/ext/associationproxy.py", "_AssociationDict.popitem"),
    ("lib/sqlalchemy/ext/associationproxy.py", "_AssociationDict.update"),
    ("lib/sqlalchemy/ext/associationproxy.py", "_AssociationSingleItem._bulk_replace"),
    ("lib/sqlalchemy/ext/associationproxy.py", "_AssociationSet._bulk_replace"),
    ("lib/sqlalchemy/ext/associationproxy.py", "_AssociationDict._bulk_replace"),
    ("lib/sqlalchemy/ext/associationproxy.py", "AssociationProxyInstance._set"),
]

LMETH = {
    "__setitem__": "LM_setitem", "__delitem__": "LM_delitem", "append": "LM_append", "extend": "LM_extend",
    "insert": "LM_insert", "pop": "LM_pop", "remove": "LM_remove", "clear": "LM_clear", "sort": "LM_sort",
    "reverse": "LM_reverse", "__iadd__": "LM_iadd", "__imul__": "LM_imul",
}


def pin_check(repo):
    from translate import fingerprint

    fingerprint.check(repo, ANCHORS, "C50")


def overridden_list_methods(repo):
    with open(os.path.join(repo, "lib/sqlalchemy/ext/orderinglist.py")) as f:
        tree = ast.parse(f.read())
    cls = next((n for n in tree.body if isinstance(n, ast.ClassDef) and n.name == "OrderingList"), None)
    if cls is None:
        raise ValueError("class OrderingList not found")
    names = set()
    for n in cls.body:
        if isinstance(n, ast.FunctionDef):
            names.add(n.name)
        elif isinstance(n, ast.Assign):
            for t in n.targets:
                if isinstance(t, ast.Name):
                    names.add(t.id)
    return sorted(m for m in names if m in LMETH)


def translate(repo, outdir):
    ms = overridden_list_methods(repo)
    src = (
        "(* generated on every run from lib/sqlalchemy/ext/orderinglist.py (list mutators defined by class OrderingList) *)\n"
        "From Coq Require Import List Bool.\nImport ListNotations.\n"
        "From SAV.orm Require Import OrderingList.\n\n"
        "Definition gen_ol_overrides : list lmeth := [%s].\n\n"
        "(* T1: exactly append/insert/remove/pop/__setitem__/__delitem__ run the class's own code; extend, +=, sort,\n"
        "   reverse, clear, *= are inherited - the split the model of coq/orm/OrderingList.v transcribes *)\n"
        "Lemma gen_ol_overrides_ok : overrides_ok gen_ol_overrides = true.\nProof. vm_compute; reflexivity. Qed.\n"
        % "; ".join(LMETH[m] for m in ms)
    )
    p = os.path.join(outdir, "Gen_C50.v")
    with open(p, "w") as fh:
        fh.write(src)
    return [p]


# --------------------------------------------------------------------------------------------
def _install_fragment_loader():
    import sys

    m = sys.modules.get("__main__")
    orig = getattr(m, "load_findings", None)
    if orig is None or getattr(orig, "_c50", False):
        return

    def load_findings(pid):
        out = orig(pid)
        if pid == ID:
            p = os.path.join(os.path.dirname(os.path.dirname(os.path.abspath(__file__))), "findings", "C50.json")
            try:
                with open(p) as f:
                    frag = json.load(f)
            except OSError:
                frag = []
            have = {e.get("id") for e in out}
            out = out + [e for e in frag if e.get("id") not in have]
        return out

    load_findings._c50 = True
    m.load_findings = load_findings


_install_fragment_loader()


# see specs/c49.py: one 400-case list literal costs coqc superlinear time; smaller shards
def _install_small_shards():
    try:
        from vlib import coqrun
    except Exception:
        return
    if getattr(coqrun.run_cases, "_small_shards", False):
        return
    orig = coqrun.run_cases

    def run_cases(bdir, mod, fn, pairs, shard=100, jobs=12, timeout=900):
        return orig(bdir, mod, fn, pairs, shard=shard, jobs=jobs, timeout=timeout)

    run_cases._small_shards = True
    coqrun.run_cases = run_cases


_install_small_shards()

# --------------------------------------------------------------------------------------------
# generators
SLV = [None, -4, -2, -1, 0, 1, 2, 3, 4]
STEPS = [None, 1, 2, -1]
NEW = [7, 8, 9]


def _ol_single_ops(n):
    ops = [[0, 7], [10], [11], [12], [14], [3, None], [8, [7, 8]], [9, [7]], [8, []]]
    for i in range(-5, 6):
        ops += [[1, i, 7], [3, i], [4, i, 7], [6, i]]
    for e in (0, 1, 7):
        ops.append([2, e])
    for k in (-1, 0, 1, 2):
        ops.append([13, k])
    for a in SLV:
        for b in SLV:
            for st in STEPS:
                ops.append([7, [a, b, st]])
                for m in (0, 1, 2, 3):
                    ops.append([5, [a, b, st], NEW[:m]])
    return ops


def _rand_slice(rng, n):
    def comp():
        return rng.choice([None, None] + list(range(-n - 1, n + 2)))

    return [comp(), comp(), rng.choice([None, None, 1, 1, 2, -1])]


def _rand_ol_case(rng, attached):
    n = rng.randint(0, 5)
    base, roa = rng.randint(0, 1), rng.randint(0, 1)
    ops = []
    nxt = 10
    ln = n
    removed = []
    for _ in range(rng.randint(2, 8)):
        t = rng.choice([0, 0, 1, 1, 2, 3, 4, 5, 5, 6, 7, 8, 9, 10, 11, 12, 13, 14] if attached else [0, 1, 1, 3, 4, 5, 5, 5, 6, 7, 14])
        i = rng.randint(-ln - 1, ln + 1)

        def ent():
            nonlocal nxt
            if removed and rng.random() < 0.3:
                return removed.pop()
            if rng.random() < 0.08:
                return rng.randint(0, max(n, 1))  # possibly a member already
            nxt += 1
            return nxt

        if t == 0:
            ops.append([0, ent()])
        elif t == 1:
            ops.append([1, i, ent()])
        elif t == 2:
            e = rng.randint(0, max(n, 1))
            removed.append(e)
            ops.append([2, e])
        elif t == 3:
            ops.append([3, rng.choice([None, i])])
        elif t == 4:
            ops.append([4, i if attached else abs(i), ent()])
        elif t == 5:
            ops.append([5, _rand_slice(rng, ln), [ent() for _ in range(rng.randint(0, 3))]])
        elif t == 6:
            ops.append([6, i])
        elif t == 7:
            ops.append([7, _rand_slice(rng, ln)])
        elif t in (8, 9):
            ops.append([t, [ent() for _ in range(rng.randint(0, 3))]])
        elif t == 13:
            ops.append([13, rng.choice([-1, 0, 1, 2])])
        else:
            ops.append([t])
    return {"in": [0, [base, roa, int(attached), n], ops], "kind": "ol-random" if attached else "ol-raw-random"}


def _pl_single_ops():
    ops = [[0, 7], [1, [7, 8]], [1, []], [3, None], [9], [10, [7]], [12], [13]]
    for i in range(-4, 5):
        ops += [[2, i, 7], [3, i], [5, i, 7], [7, i]]
    for v in (0, 1, 7):
        ops.append([4, v])
    for k in (-1, 0, 1, 2, 3):
        ops.append([11, k])
    for a in SLV:
        for b in SLV:
            for st in STEPS:
                ops.append([8, [a, b, st]])
                for m in (0, 1, 2):
                    ops.append([6, [a, b, st], NEW[:m]])
    return ops


def _ps_single_ops():
    args = [[0, []], [0, [0]], [0, [0, 3]], [1, [0, 0, 3]], [1, [1, 2, 3]], [0, [3, 4]]]
    ops = [[3], [4]]
    for x in (0, 1, 3):
        ops += [[0, x], [1, x], [2, x]]
    for t in range(5, 13):
        for a in args:
            ops.append([t, a])
    return ops


def _pd_single_ops():
    ops = [[2], [4]]
    for k in (0, 1, 5):
        for v in (0, 7):
            ops += [[0, k, v], [5, k, v]]
        ops += [[1, k], [3, k, None], [3, k, 7]]
    for p in ([], [[0, 7]], [[0, 7], [5, 8]], [[5, 7], [5, 8]], [[1, 1], [0, 0]]):
        ops += [[6, [1, p], []], [6, [2, p], []]]
    ops.append([6, [0], []])
    return ops


def _rand_proxy_case(rng, fam):
    from specs import c38

    if fam == 1:
        init = [rng.randint(0, 5) for _ in range(rng.randint(0, 4))]
        ln = len(init)
        ops = []
        for _ in range(rng.randint(2, 7)):
            t = rng.choice([0, 1, 2, 3, 4, 5, 6, 6, 7, 8, 9, 10, 11])
            i = rng.randint(-ln - 1, ln + 1)
            v = rng.randint(0, 7)
            if t in (0, 4):
                ops.append([t, v])
            elif t in (1, 10):
                ops.append([t, [rng.randint(0, 7) for _ in range(rng.randint(0, 3))]])
            elif t in (2, 5):
                ops.append([t, i, v])
            elif t == 3:
                ops.append([3, rng.choice([None, i])])
            elif t == 6:
                ops.append([6, _rand_slice(rng, ln), [rng.randint(0, 7) for _ in range(rng.randint(0, 3))]])
            elif t == 7:
                ops.append([7, i])
            elif t == 8:
                ops.append([8, _rand_slice(rng, ln)])
            elif t == 11:
                ops.append([11, rng.choice([0, 1, 2, 3])])
            else:
                ops.append([t])
        if rng.random() < 0.4:
            ops.insert(rng.randint(0, len(ops)), [14, [rng.randint(0, 7) for _ in range(rng.randint(0, 3))]])
        return {"in": [1, init, ops], "kind": "proxy-list-random"}
    if fam == 2:
        c = c38._rand_set_case(rng)
        ops = [o for o in c["in"][2] if not (len(o) > 1 and isinstance(o[1], list) and o[1][0] in (2, 3))]
        if rng.random() < 0.4:
            ops.insert(rng.randint(0, len(ops)), [20, sorted(set(rng.randint(0, 7) for _ in range(rng.randint(0, 4))))])
        return {"in": [2, c["in"][1], ops], "kind": "proxy-set-random"}
    c = c38._rand_dict_case(rng)
    ops = []
    for o in c["in"][2]:
        if o[0] == 7:
            continue
        if o[0] == 6:
            o = [6, o[1], []]
        ops.append(o)
    if rng.random() < 0.4:
        m = {rng.randint(0, 5): rng.randint(0, 6) for _ in range(rng.randint(0, 4))}
        ops.insert(rng.randint(0, len(ops)), [20, [[k, v] for k, v in m.items()]])
    init = list({k: v for k, v in c["in"][1]}.items())
    return {"in": [3, [list(kv) for kv in init], ops], "kind": "proxy-dict-random"}


ASSIGN_LIST = [[], [7], [1, 2], [2, 1, 7]]
ASSIGN_SET = [[], [0], [0, 3], [1, 2, 3]]
ASSIGN_DICT = [[], [[0, 7]], [[0, 0]], [[0, 7], [5, 8]], [[1, 9], [0, 0]], [[5, 5]], [[2, 3], [1, 1], [0, 4]]]


def _pick(rng, items, k):
    items = list(items)
    return items if len(items) <= k else rng.sample(items, k)


def gen_cases(rng, tier):
    """quick tier: every operation kind from a few pre-states, slices sampled (seeded), the families that carry the
    known findings and whole-collection assignment kept in full; thorough: the whole grids"""
    cases = []
    quick = tier != "thorough"
    # ordering list, attached: single operations
    for n in ((2, 3) if quick else range(0, 5)):
        ops = _ol_single_ops(n)
        if quick:
            ops = [o for o in ops if o[0] not in (5, 7)] + rng.sample([o for o in ops if o[0] in (5, 7)], 24)
        for k, op in enumerate(ops):
            base, roa = (k + n) % 2, (k // 2 + n) % 2
            cases.append({"in": [0, [base, roa, 1, n], [op]], "kind": "ol-single"})
    if quick:
        for op in ([0, 7], [1, 0, 7], [3, None], [4, 0, 7], [5, [None, None, None], [7]], [8, [7, 8]], [10], [14]):
            cases.append({"in": [0, [1, 0, 1, 0], [op]], "kind": "ol-single"})
            cases.append({"in": [0, [0, 1, 1, 1], [op]], "kind": "ol-single"})
    # re-appending / re-inserting a removed (still positioned) entity
    for roa in (0, 1):
        for base in (0, 1):
            cases.append({"in": [0, [base, roa, 1, 3], [[2, 0], [0, 0]]], "kind": "ol-reappend"})
            cases.append({"in": [0, [base, roa, 1, 3], [[3, 0], [8, [7, 0]]]], "kind": "ol-reappend"})
            cases.append({"in": [0, [base, roa, 1, 3], [[2, 1], [1, 0, 1]]], "kind": "ol-reappend"})
            cases.append({"in": [0, [base, roa, 1, 3], [[11], [14]]], "kind": "ol-sort-reorder"})
            cases.append({"in": [0, [base, roa, 1, 3], [[12], [1, 0, 7]]], "kind": "ol-sort-reorder"})
    # the bare class: the slice loop of OrderingList.__setitem__
    for n in ((3,) if quick else range(0, 4)):
        ops = [o for o in _ol_single_ops(n) if o[0] == 5]
        if quick:
            ops = rng.sample(ops, 24)
        for op in ops:
            cases.append({"in": [0, [0, 0, 0, n], [op]], "kind": "ol-raw-slice"})
        for op in ([0, 7], [1, 1, 7], [3, None], [4, 0, 7], [6, 0], [7, [0, 2, None]], [14]):
            cases.append({"in": [0, [1, 0, 0, n], [op]], "kind": "ol-raw-single"})
    # proxies: single operations
    for init in (([1, 2], [3, 1, 2, 1]) if quick else ([], [1], [1, 2], [0, 1, 0], [3, 1, 2, 1])):
        ops = _pl_single_ops()
        if quick:
            ops = [o for o in ops if o[0] not in (6, 8)] + rng.sample([o for o in ops if o[0] in (6, 8)], 16)
        for op in ops:
            cases.append({"in": [1, init, [op]], "kind": "proxy-list-single"})
    for mask in ((0, 5, 7) if quick else range(8)):
        init = [i for i in range(3) if mask >> i & 1]
        for op in _ps_single_ops():
            c = {"in": [2, init, [op]], "kind": "proxy-set-single"}
            if op[0] == 3 and len(init) >= 2:
                c["model"] = False
            cases.append(c)
    for init in (([[0, 0]], [[0, 0], [1, 1], [2, 0]]) if quick else ([], [[0, 0]], [[0, 0], [1, 1]], [[0, 0], [1, 1], [2, 0]])):
        for op in _pd_single_ops():
            cases.append({"in": [3, init, [op]], "kind": "proxy-dict-single"})
    # whole-collection assignment obj.proxy = x: every old / new pair of the small grids (kept in full in both tiers),
    # followed by a second assignment or a mutation
    for init in ([], [1], [1, 2], [3, 1, 2, 1]):
        for v in ASSIGN_LIST:
            cases.append({"in": [1, init, [[14, v]]], "kind": "proxy-assign"})
        cases.append({"in": [1, init, [[14, [1, 7]], [0, 5], [14, [7]]]], "kind": "proxy-assign"})
    for mask in range(8):
        init = [i for i in range(3) if mask >> i & 1]
        for v in ASSIGN_SET:
            cases.append({"in": [2, init, [[20, v]]], "kind": "proxy-assign"})
    for init in ([], [[0, 0]], [[0, 0], [1, 1]], [[0, 0], [1, 1], [2, 0]]):
        for m in ASSIGN_DICT:
            cases.append({"in": [3, init, [[20, m]]], "kind": "proxy-assign"})
        cases.append({"in": [3, init, [[20, [[0, 7], [1, 1]]], [0, 1, 5], [20, [[1, 6]]]]], "kind": "proxy-assign"})
    nrand = 3000 if tier == "thorough" else 45
    for i in range(nrand):
        cases.append(_rand_ol_case(rng, True))
        if i % 3 == 0:
            cases.append(_rand_ol_case(rng, False))
        cases.append(_rand_proxy_case(rng, 1 + i % 3))
    seen, out = set(), []
    for c in cases:
        k = json.dumps(c["in"])
        if k not in seen:
            seen.add(k)
            out.append(c)
    return out


def nontrivial(c):
    fam, _p, ops = c["in"]
    if fam == 0:
        return any(o[0] != 14 for o in ops)
    return len(ops) > 0


# --------------------------------------------------------------------------------------------
# implementation side
_ENV = {}
EXN = {"IndexError": 10, "ValueError": 11, "KeyError": 12, "TypeError": 13, "RuntimeError": 14,
       "NotImplementedError": 20, "AttributeError": 21}


def impl_setup():
    import importlib.util

    import sqlalchemy
    from sqlalchemy import Column, ForeignKey, Integer, create_engine

    # a pristine copy of the module for the bare (uninstrumented) class - loaded BEFORE any mapping uses ordering_list
    path = os.path.join(os.path.dirname(sqlalchemy.__file__), "ext", "orderinglist.py")
    spec = importlib.util.spec_from_file_location("sqlalchemy.ext._orderinglist_pristine_c50", path)
    raw = importlib.util.module_from_spec(spec)
    spec.loader.exec_module(raw)

    from sqlalchemy.ext.associationproxy import association_proxy
    from sqlalchemy.ext.orderinglist import ordering_list
    from sqlalchemy.orm import configure_mappers, declarative_base, relationship
    from sqlalchemy.orm.collections import attribute_keyed_dict
    from sqlalchemy.pool import StaticPool

    Base = declarative_base()
    created = []

    class Bullet(Base):
        __tablename__ = "bullet"
        id = Column(Integer, primary_key=True)
        s00 = Column(ForeignKey("slide.id"))
        s01 = Column(ForeignKey("slide.id"))
        s10 = Column(ForeignKey("slide.id"))
        s11 = Column(ForeignKey("slide.id"))
        position = Column(Integer)
        n = Column(Integer)

    def rel(fk, base, roa):
        return relationship(
            Bullet, primaryjoin="Slide.id == Bullet.%s" % fk, order_by=Bullet.position,
            collection_class=ordering_list("position", count_from=base, reorder_on_append=bool(roa)),
        )

    class Slide(Base):
        __tablename__ = "slide"
        id = Column(Integer, primary_key=True)
        b00 = rel("s00", 0, 0)
        b01 = rel("s01", 0, 1)
        b10 = rel("s10", 1, 0)
        b11 = rel("s11", 1, 1)

    def mk(cls, **kw):
        o = cls(**kw)
        o._oid = len(created)
        created.append(o)
        return o

    class Kw(Base):
        __tablename__ = "kw"
        id = Column(Integer, primary_key=True)
        user_id = Column(ForeignKey("usr.id"))
        word = Column(Integer)

    class Ks(Base):
        __tablename__ = "ks"
        id = Column(Integer, primary_key=True)
        user_id = Column(ForeignKey("usr.id"))
        word = Column(Integer)

    class Kd(Base):
        __tablename__ = "kd"
        id = Column(Integer, primary_key=True)
        user_id = Column(ForeignKey("usr.id"))
        key = Column(Integer)
        word = Column(Integer)

    class Usr(Base):
        __tablename__ = "usr"
        id = Column(Integer, primary_key=True)
        kws = relationship(Kw, order_by=Kw.id, cascade="all, delete-orphan")
        kwl = association_proxy("kws", "word", creator=lambda w: mk(Kw, word=w))
        kss = relationship(Ks, collection_class=set, cascade="all, delete-orphan")
        kset = association_proxy("kss", "word", creator=lambda w: mk(Ks, word=w))
        kds = relationship(Kd, collection_class=attribute_keyed_dict("key"), cascade="all, delete-orphan")
        kd = association_proxy("kds", "word", creator=lambda k, v: mk(Kd, key=k, word=v))

    configure_mappers()
    eng = create_engine("sqlite://", poolclass=StaticPool)
    Base.metadata.create_all(eng)

    class Ent:
        def __init__(self, n):
            self.n = n
            self.position = None

    assert not hasattr(raw.OrderingList, "_sa_instrumented")
    _ENV.update(raw=raw, Slide=Slide, Bullet=Bullet, Usr=Usr, Kw=Kw, Ks=Ks, Kd=Kd, created=created, eng=eng, Ent=Ent)


def _none(x):
    return x is None or x == []


def _sl(t):
    return slice(*[None if _none(x) else x for x in t])


def _rc(e):
    return EXN.get(type(e).__name__, 90)


def _run_ol(case):
    from sqlalchemy import text
    from sqlalchemy.orm import Session

    _f, (base, roa, attached, n), ops = case["in"]
    ents = {}
    if attached:
        slide = _ENV["Slide"]()
        fk = "s%d%d" % (base, roa)
        lst = getattr(slide, "b%d%d" % (base, roa))
        mkent = lambda e: _ENV["Bullet"](n=e)  # noqa: E731
    else:
        lst = _ENV["raw"].OrderingList("position", _ENV["raw"].count_from_n_factory(base), bool(roa))
        mkent = _ENV["Ent"]

    def E(e):
        if e not in ents:
            ents[e] = mkent(e)
        return ents[e]

    for i in range(n):
        lst.append(E(i))
    obs = []
    for op in ops:
        t = op[0]
        rc = 0
        try:
            if t == 0:
                lst.append(E(op[1]))
            elif t == 1:
                lst.insert(op[1], E(op[2]))
            elif t == 2:
                lst.remove(E(op[1]))
            elif t == 3:
                lst.pop() if _none(op[1]) else lst.pop(op[1])
            elif t == 4:
                lst[op[1]] = E(op[2])
            elif t == 5:
                lst[_sl(op[1])] = [E(x) for x in op[2]]
            elif t == 6:
                del lst[op[1]]
            elif t == 7:
                del lst[_sl(op[1])]
            elif t == 8:
                lst.extend([E(x) for x in op[1]])
            elif t == 9:
                lst.__iadd__([E(x) for x in op[1]])
            elif t == 10:
                lst.clear()
            elif t == 11:
                lst.sort(key=lambda b: b.n)
            elif t == 12:
                lst.reverse()
            elif t == 13:
                lst.__imul__(op[1])
            elif t == 14:
                lst.reorder()
            else:
                raise AssertionError("bad op %r" % (op,))
        except AssertionError:
            raise
        except Exception as e:
            rc = _rc(e)
        obs.append([rc, [[b.n, b.position] for b in lst]])
    # what is read back after a flush (ORDER BY position)
    ps = [b.position for b in lst]
    distinct = all(p is not None for p in ps) and len(set(ps)) == len(ps)
    if not distinct:
        obs.append([])
    elif attached:
        sess = Session(_ENV["eng"])
        sess.add(slide)
        sess.flush()
        rows = sess.execute(
            text("select n, position from bullet where %s = :sid order by position" % fk), {"sid": slide.id}
        ).all()
        sess.expire(slide)
        reloaded = [b.n for b in getattr(slide, "b%d%d" % (base, roa))]
        assert [r[0] for r in rows] == reloaded, (rows, reloaded)
        _ENV["ol_rows"] = [[r[0], r[1]] for r in rows]
        obs.append(reloaded)
        sess.rollback()
        sess.close()
    else:
        obs.append([b.n for b in sorted(lst, key=lambda b: b.position)])
    return obs


def _apply_builtin_or_proxy_list(p, op):
    t = op[0]
    if t == 0:
        return p.append(op[1])
    if t == 1:
        return p.extend(list(op[1]))
    if t == 2:
        return p.insert(op[1], op[2])
    if t == 3:
        return p.pop() if _none(op[1]) else p.pop(op[1])
    if t == 4:
        return p.remove(op[1])
    if t == 5:
        return p.__setitem__(op[1], op[2])
    if t == 6:
        return p.__setitem__(_sl(op[1]), list(op[2]))
    if t == 7:
        return p.__delitem__(op[1])
    if t == 8:
        return p.__delitem__(_sl(op[1]))
    if t == 9:
        return p.clear()
    if t == 10:
        return p.__iadd__(list(op[1]))
    if t == 11:
        return p.__imul__(op[1])
    if t == 12:
        return p.reverse()
    if t == 13:
        return p.sort()
    raise AssertionError("bad op %r" % (op,))


def _set_arg(a):
    return set(a[1]) if a[0] == 0 else list(a[1])


def _apply_set(p, op):
    t = op[0]
    if t == 0:
        return p.add(op[1])
    if t == 1:
        return p.discard(op[1])
    if t == 2:
        return p.remove(op[1])
    if t == 3:
        return p.pop()
    if t == 4:
        return p.clear()
    names = {5: "update", 6: "difference_update", 7: "intersection_update", 8: "symmetric_difference_update",
             9: "__ior__", 10: "__isub__", 11: "__iand__", 12: "__ixor__"}
    return getattr(p, names[t])(_set_arg(op[1]))


def _apply_dict(p, op):
    t = op[0]
    if t == 0:
        return p.__setitem__(op[1], op[2])
    if t == 1:
        return p.__delitem__(op[1])
    if t == 2:
        return p.clear()
    if t == 3:
        return p.pop(op[1]) if _none(op[2]) else p.pop(op[1], op[2])
    if t == 4:
        return p.popitem()
    if t == 5:
        return p.setdefault(op[1], op[2])
    if t == 6:
        u = op[1]
        if u[0] == 0:
            return p.update()
        if u[0] == 1:
            return p.update({k: v for k, v in u[1]})
        return p.update([(k, v) for k, v in u[1]])
    raise AssertionError("bad op %r" % (op,))


def _run_proxy(case):
    from sqlalchemy import text
    from sqlalchemy.orm import Session

    fam, init, ops = case["in"]
    del _ENV["created"][:]
    u = _ENV["Usr"]()
    obs = []
    if fam == 1:
        p = u.kwl
        p.extend(list(init))
        show = lambda: [[o._oid, o.word] for o in u.kws]  # noqa: E731
        app = _apply_builtin_or_proxy_list
    elif fam == 2:
        p = u.kset
        for v in init:
            p.add(v)
        show = None
        app = _apply_set
    else:
        p = u.kd
        for k, v in init:
            p[k] = v
        show = lambda: [[k, o.word, o._oid] for k, o in u.kds.items()]  # noqa: E731
        app = _apply_dict
    for op in ops:
        rc, ret = 0, None
        try:
            if fam == 1 and op[0] == 14:
                u.kwl = list(op[1])
            elif fam == 2 and op[0] == 20:
                u.kset = set(op[1])
            elif fam == 3 and op[0] == 20:
                u.kd = {k: v for k, v in op[1]}
            else:
                ret = app(p, op)
            if ret is NotImplemented:
                rc = 20
        except AssertionError:
            raise
        except Exception as e:
            rc = _rc(e)
        if fam == 1:
            obs.append([rc, show()])
        elif fam == 2:
            obs.append([rc, sorted(p), len(_ENV["created"])])
        else:
            r = ret[1] if isinstance(ret, tuple) else ret
            obs.append([rc, r if isinstance(r, int) and rc == 0 else [], show()])
    sess = Session(_ENV["eng"])
    sess.add(u)
    sess.flush()
    tab = {1: "kw", 2: "ks", 3: "kd"}[fam]
    if fam == 3:
        rows = sess.execute(text("select key, word from kd where user_id = :u"), {"u": u.id}).all()
        obs.append(sorted([r[0], r[1]] for r in rows))
    else:
        rows = sess.execute(text("select word from %s where user_id = :u" % tab), {"u": u.id}).all()
        obs.append(sorted(r[0] for r in rows))
    sess.rollback()
    sess.close()
    return obs


def impl(case):
    if not _ENV:
        impl_setup()
    if case["in"][0] == 0:
        return _run_ol(case)
    return _run_proxy(case)


# --------------------------------------------------------------------------------------------
# the property itself on the implementation's observation
def _fail(why, **blob):
    return "%s ##%s" % (why, json.dumps(blob))


def _oracle_ol(case, obs):
    _f, (base, roa, attached, n), ops = case["in"]
    pre = [[i, base + i] for i in range(n)]
    for k, (op, o) in enumerate(zip(ops, obs)):
        rc, cur = o
        ids = [e for e, _p in cur]
        bad = [[i, e, p] for i, (e, p) in enumerate(cur) if p != base + i]
        blob = dict(fam=0, k=k, op=op, pre=pre, cur=cur, rc=rc, base=base, roa=roa, attached=attached, bad=bad)
        if attached:
            # the claim is preservation: judged from a pre-state that satisfies it (positions = indices, no entity
            # twice - with one entity at two indexes it cannot hold), and for the operations that renumber the
            # whole list from any pre-state
            pre_ok = len(set(e for e, _p in pre)) == len(pre) and all(p == base + i for i, (_e, p) in enumerate(pre))
            renumbers = op[0] in (1, 2, 3, 6, 7, 14) and rc == 0
            if len(set(ids)) == len(ids) and bad and (pre_ok or renumbers):
                return _fail(
                    "after %s the entities at index %s have position %s (count_from=%d): %s"
                    % (op, [b[0] for b in bad], [b[2] for b in bad], base, cur), **blob)
        elif op[0] == 5:
            # the bare class is judged on slice assignment only: it must be the list's slice assignment and leave
            # positions = indices
            ref = [e for e, _p in pre]
            want_rc = 0
            try:
                ref[_sl(op[1])] = list(op[2])
            except Exception as e:
                want_rc = _rc(e)
            if want_rc != rc or ref != ids or (len(set(ids)) == len(ids) and bad and len(set(e for e, _p in pre)) == len(pre)
                                               and not [1 for i, (e, p) in enumerate(pre) if p != base + i]):
                return _fail("bare OrderingList: %s on %s gives %s (code %d), a list gives %s (code %d)"
                             % (op, pre, cur, rc, ref, want_rc), **blob)
        pre = cur
    last = obs[len(ops)] if len(obs) > len(ops) else []
    if last != [] and ops:
        cur = obs[len(ops) - 1][1]
        # "persists that order" is claimed for a list whose positions equal the indices (c50_persisted_order)
        if all(p == base + i for i, (_e, p) in enumerate(cur)) and last != [e for e, _p in cur]:
            return _fail("after flush the collection reloads as %s, in memory it is %s" % (last, cur), fam=0, k=len(ops), op="flush")
    return None


def _oracle_proxy(case, obs):
    fam, init, ops = case["in"]
    if fam == 1:
        ref = list(init)
        app = _apply_builtin_or_proxy_list
        view = lambda o: [v for _oid, v in o[1]]  # noqa: E731
        cur = lambda: list(ref)  # noqa: E731
    elif fam == 2:
        ref = set(init)
        app = _apply_set
        view = lambda o: list(o[1])  # noqa: E731
        cur = lambda: sorted(ref)  # noqa: E731
    else:
        ref = {k: v for k, v in init}
        app = _apply_dict
        view = lambda o: [[k, v] for k, v, _oid in o[2]]  # noqa: E731
        cur = lambda: [[k, v] for k, v in ref.items()]  # noqa: E731
    for k, (op, o) in enumerate(zip(ops, obs)):
        before = cur()
        want_rc, ret = 0, None
        if fam == 2 and op[0] == 3:
            # set.pop(): any member; follow the implementation
            got = view(o)
            if not ref:
                want_rc = 12
            else:
                gone = set(ref) - set(got)
                if o[0] != 0 or len(gone) != 1:
                    return _fail("set proxy pop() from %s left %s (code %d)" % (before, got, o[0]), fam=fam, k=k, op=op,
                                 pre=before, got=got, rc=o[0], want=before, want_rc=0)
                ref.discard(next(iter(gone)))
        elif (fam == 1 and op[0] == 14) or (fam != 1 and op[0] == 20):
            # whole-collection assignment: plain `x = value` semantics
            if fam == 1:
                ref[:] = list(op[1])
            elif fam == 2:
                ref.clear()
                ref.update(op[1])
            else:
                new = {k: v for k, v in op[1]}
                got = view(o)
                # the assigned MAPPING must be there; key order after an assignment is the proxy's own
                # (kept keys first) - adopt it for the following operations
                ref.clear()
                if {k: v for k, v in got} == new:
                    ref.update((k, v) for k, v in got)
                else:
                    ref.update(new)
        else:
            try:
                ret = app(ref, op)
                if ret is NotImplemented:
                    want_rc = 20
            except AssertionError:
                raise
            except Exception as e:
                want_rc = _rc(e)
        got = view(o)
        want = cur()
        ok = got == want and o[0] == want_rc
        if ok and fam == 3 and want_rc == 0:
            r = ret[1] if isinstance(ret, tuple) else ret
            if (r if isinstance(r, int) else []) != o[1]:
                ok = False
        if not ok:
            return _fail(
                "%s proxy: %s on %s gives %s (code %d), the builtin gives %s (code %d)"
                % (("", "list", "set", "dict")[fam], op, before, got, o[0], want, want_rc),
                fam=fam, k=k, op=op, pre=before, got=got, rc=o[0], want=want, want_rc=want_rc)
    rows = obs[len(ops)]
    if fam == 3:
        mem = sorted([k, v] for k, v in ref.items())
    else:
        mem = sorted(ref)
    if rows != mem:
        return _fail("after flush the association rows hold %s, the proxy holds %s" % (rows, mem), fam=fam, k=len(ops), op="flush")
    return None


def oracle(case, obs):
    if case["in"][0] == 0:
        return _oracle_ol(case, obs)
    return _oracle_proxy(case, obs)


def _classify(b):
    fam, op = b["fam"], b["op"]
    if op == "flush":
        return None
    t = op[0]
    if fam == 0:
        pre, cur, base = b["pre"], b["cur"], b["base"]
        prepos = {e: p for e, p in pre}
        bad = b["bad"]
        if not b["attached"]:
            if t == 5:
                return "C50-bare-setslice-absolute-index"
            return None
        if t in (11, 12, 13) and b["rc"] == 0 and all(prepos.get(e) == p for e, p in cur):
            return "C50-sort-reverse-imul-positions-stale"
        if t in (0, 8, 9) and not b["roa"] and b["rc"] == 0:
            new = [op[1]] if t == 0 else list(op[1])
            if all(e in new for _i, e, _p in bad):
                return "C50-append-keeps-existing-position"
        return None
    want, got, rc, want_rc = b.get("want"), b.get("got"), b.get("rc"), b.get("want_rc")
    if fam == 1:
        if t == 11 and op[1] < 0 and rc == 0 and got == b["pre"]:
            return "C50-proxy-list-imul-negative"
        if t in (12, 13) and rc == 20 and got == b["pre"]:
            return "C50-proxy-list-reverse-sort-unsupported"
    return None


def match_finding(case, what):
    if "##" not in what:
        return None
    try:
        return _classify(json.loads(what.split("##", 1)[1]))
    except Exception:
        return None


LEVEL_TEXT = (
    "Machine-checked proof (Coq) over Gallina transcriptions of OrderingList (composed with the collections wrappers for "
    "attached lists) and of the three association-proxy collection classes: for every guarded operation history the "
    "positions of an ordering list equal count_from + index and the list is what ORDER BY position reads back; every "
    "guarded list-proxy / dict-proxy operation is the builtin's operation on the view map getter intermediaries; each "
    "excluded region (inherited sort/reverse/*=, re-append of a positioned entity, the bare slice loop, proxy *= with a "
    "negative count) has a _refuted theorem with a witness reproduced on the implementation; the regions repaired by "
    "60dfe78 / f24ff68 / 99130b4 (negative index assignment, dict-proxy pop with default, proxy slice assignment) are "
    "now inside the guarded theorems."
)
LEVEL_NOTE = (
    "partial: the set-proxy theorem covers add/discard/remove/clear/update/difference_update/|=/-=; the bulk "
    "intersection/symmetric-difference operations and pop() are covered by correspondence + oracle only; custom ordering functions, "
    "scalar proxies, proxies of proxies and lazy loading of the underlying collection are not modelled; the persisted rows "
    "are compared by the oracle (flush correctness itself is C30). No axioms."
)
TECHNIQUE = (
    "Coq invariant / refinement proofs by induction over operation histories against the reference semantics of C38; "
    "T1 table of overridden list methods; source pin; step-by-step correspondence; differential oracle against the "
    "builtin list/set/dict and the database rows"
)
