"""C27 - a database disconnect invalidates the connection and blocks silent continuation."""
import itertools

ID = "C27"
LEVEL = "proof"
PROPS = "props/C27.v"
RUNNER = ("SAV.engine.DisconnectRun", "run_case")
STATIC_MODULES = ["SAV.engine.DisconnectRun"]
RULE = (
    "the REAL Engine/Connection/QueuePool over a fake DBAPI whose every connect/execute/commit/rollback consults a "
    "scripted fault oracle (ok / error / disconnect-class error), time.time() of the pool replaced by a logical clock: "
    "all histories of length <= 3 over {execute, begin, commit, rollback, begin_nested, savepoint rollback, savepoint "
    "release} x a disconnect at DBAPI call 1..3 (a plain error for length <= 2), plus random histories of length 4..9 "
    "with 1-4 faults anywhere and chains of 0-2 handle_error listeners, every single listener behaviour {is_disconnect "
    "untouched/True/False} x {invalidate_pool_on_disconnect untouched/True/False} x {returns None, returns an exception, "
    "raises} on faults inside and outside a transaction, and 'repeated disconnect' histories (disconnect, failing "
    "reconnect while already invalidated, recovery, ordinary error), 0..2 further connections idle in the pool. Observed per operation: "
    "exception class code, Connection.invalidated, transaction state, current savepoint state, the DBAPI calls made (kind, connection id). "
    "non-trivial = a scripted fault position is reached (some operation fails with a DBAPIError)"
)
TRUSTED = [
    "hand-written Gallina transcription of Connection._handle_dbapi_exception, invalidate, _revalidate_connection, "
    "_invalid_transaction, _execute_context, begin/commit/rollback/begin_nested, RootTransaction/NestedTransaction "
    "bookkeeping, Pool._invalidate, _ConnectionFairy.invalidate, _ConnectionRecord.get_connection (pinned by "
    "translate/fingerprint.py, compared behaviourally on every run)",
    "the fake DBAPI and the logical clock of the harness; the dialect's is_disconnect is the oracle's classification",
]
ASSUMPTIONS = [
    "one Connection uses the pool; the other pool records are idle (QueuePool, FIFO, no pre_ping, no recycle timeout)",
    "handle_error listeners set ctx.is_disconnect / ctx.invalidate_pool_on_disconnect and return None, return an "
    "exception or raise one; they do not use the connection",
    "Connection.close() is outside the operation alphabet (checkin/reset-on-return under faults is C26)",
]
ANCHORS = [
    ("lib/sqlalchemy/engine/base.py", "Connection._handle_dbapi_exception"),
    ("lib/sqlalchemy/engine/base.py", "Connection.invalidate"),
    ("lib/sqlalchemy/engine/base.py", "Connection._revalidate_connection"),
    ("lib/sqlalchemy/engine/base.py", "Connection._invalid_transaction"),
    ("lib/sqlalchemy/engine/base.py", "Connection.invalidated"),
    ("lib/sqlalchemy/engine/base.py", "Connection.connection"),
    ("lib/sqlalchemy/engine/base.py", "Connection._execute_context"),
    ("lib/sqlalchemy/engine/base.py", "Connection.begin"),
    ("lib/sqlalchemy/engine/base.py", "Connection.begin_nested"),
    ("lib/sqlalchemy/engine/base.py", "Connection.commit"),
    ("lib/sqlalchemy/engine/base.py", "Connection.rollback"),
    ("lib/sqlalchemy/engine/base.py", "Connection._begin_impl"),
    ("lib/sqlalchemy/engine/base.py", "Connection._rollback_impl"),
    ("lib/sqlalchemy/engine/base.py", "Connection._commit_impl"),
    ("lib/sqlalchemy/engine/base.py", "Connection._rollback_to_savepoint_impl"),
    ("lib/sqlalchemy/engine/base.py", "RootTransaction._close_impl"),
    ("lib/sqlalchemy/engine/base.py", "RootTransaction._do_commit"),
    ("lib/sqlalchemy/engine/base.py", "NestedTransaction._close_impl"),
    ("lib/sqlalchemy/engine/base.py", "NestedTransaction._do_commit"),
    ("lib/sqlalchemy/engine/base.py", "NestedTransaction._cancel"),
    ("lib/sqlalchemy/pool/base.py", "Pool._invalidate"),
    ("lib/sqlalchemy/pool/base.py", "_ConnectionFairy.invalidate"),
    ("lib/sqlalchemy/pool/base.py", "_ConnectionRecord.invalidate"),
    ("lib/sqlalchemy/pool/base.py", "_ConnectionRecord.get_connection"),
    ("lib/sqlalchemy/engine/default.py", "DefaultDialect.is_disconnect"),
]

NOPS = 7
E, B, C, R, S, SR, SC = range(7)


def translate(repo, outdir):
    from translate import fingerprint

    fingerprint.check(repo, ANCHORS, "C27")
    return []


LEGACY = {0: [], 1: [[2, 0, 0]], 2: [[1, 0, 0]], 3: [[0, 2, 0]], 4: [[0, 0, 0]]}


def _rnd_listeners(rng):
    r = rng.random()
    if r < 0.3:
        return []
    if r < 0.5:
        return LEGACY[rng.choice([1, 2, 3, 4])]
    return [[rng.randrange(3), rng.choice([0, 0, 1, 2]), rng.choice([0, 0, 1, 2])] for _ in range(rng.choice([1, 1, 2]))]


def gen_cases(rng, tier):
    cases = []
    maxlen = 4 if tier == "thorough" else 3
    for n in range(1, maxlen + 1):
        for h in itertools.product(range(NOPS), repeat=n):
            for k in (1, 2, 3) if n > 1 else (1, 2):
                cases.append({"in": [list(h), [[k, 2]], [], 1], "kind": "exh%d-disc" % n})
                if n <= 2:
                    cases.append({"in": [list(h), [[k, 1]], [], 1], "kind": "exh%d-err" % n})
    # every single listener behaviour {is_disconnect untouched/True/False} x {invalidate_pool untouched/True/False} x
    # {returns None, returns an exception, raises} on a fault inside and outside a transaction
    for d in range(3):
        for p in range(3):
            for o in range(3):
                for h, k in (([B, E, E, C, E], 1), ([E, E, C, E, E], 2), ([E, C, E, E], 2), ([E, S, E, SC, R, E], 3)):
                    for kind in (1, 2):
                        cases.append({"in": [h, [[k, kind]], [[d, p, o]], 1], "kind": "listener1"})
    # repeated disconnects: a disconnect, a reconnect attempt that fails with a disconnect-class error while the
    # Connection is already invalidated, recovery, then an ordinary error
    for last in (E, C, R, S):
        for idle in (0, 1, 2):
            for pre in ([], [B], [E]):
                h = pre + [E, E, R, E, E, last, E, R, E]
                k0 = 1 if pre == [E] else 0
                for k2 in (2, 1):
                    fs = [[k0 + 2, 2], [k0 + 3, k2], [k0 + 6, 1]]
                    cases.append({"in": [h, fs, [], idle], "kind": "repeated"})
                    cases.append({"in": [h, fs, [[0, 0, 0]], idle], "kind": "repeated"})
    nrand = 20000 if tier == "thorough" else 450
    for _ in range(nrand):
        n = rng.randint(4, 10)
        h = [rng.choice([E, E, E, B, C, R, R, S, SR, SC]) for _ in range(n)]
        nf = rng.choice([1, 1, 2, 3, 4])
        ks = rng.sample(range(1, n + 4), nf)
        fs = [[k, rng.choice([1, 2, 2])] for k in sorted(ks)]
        cases.append({"in": [h, fs, _rnd_listeners(rng), rng.randint(0, 2)], "kind": "random"})
    return cases


def nontrivial(c):
    h, fs, _, _ = c["in"]
    return any(k <= sum(1 for o in h if o in (E, C, R, S)) for k, _ in fs)


# ------------------------------------------------------------------ fake DBAPI
class FError(Exception):
    pass


class FDisconnect(FError):
    pass


class AppError(Exception):
    """the exception type handle_error listeners of the harness return / raise"""


class _World:
    def __init__(self):
        self.n = 0
        self.faults = {}
        self.log = []
        self.nconn = 0
        self.clock = 0

    def call(self, kind, cid):
        self.n += 1
        self.log.append([kind, cid])
        f = self.faults.get(self.n)
        if f == 1:
            raise FError("scripted error")
        if f == 2:
            raise FDisconnect("scripted disconnect")

    def time(self):
        self.clock += 1
        return float(self.clock)


class _Cursor:
    description = None
    rowcount = -1
    arraysize = 1
    lastrowid = None

    def __init__(self, c):
        self.c = c

    def execute(self, st, params=()):
        self.c.w.call(1, self.c.id)

    def executemany(self, st, params):
        self.c.w.call(1, self.c.id)

    def close(self):
        pass

    def fetchall(self):
        return []

    def fetchone(self):
        return None

    def fetchmany(self, n=None):
        return []


class _Conn:
    def __init__(self, w, cid):
        self.w = w
        self.id = cid

    def cursor(self):
        return _Cursor(self)

    def commit(self):
        self.w.call(2, self.id)

    def rollback(self):
        self.w.call(3, self.id)

    def close(self):
        self.w.log.append([4, self.id])

    def create_function(self, *a, **k):
        pass


def _dbapi(w):
    import types

    m = types.SimpleNamespace()
    m.Error = FError
    m.paramstyle = "qmark"
    m.sqlite_version_info = (3, 40, 1)
    m.sqlite_version = "3.40.1"
    m.version_info = (2, 6, 0)
    for n in (
        "Warning InterfaceError DatabaseError DataError OperationalError IntegrityError InternalError "
        "ProgrammingError NotSupportedError"
    ).split():
        setattr(m, n, FError)

    def connect(*a, **k):
        cid = w.nconn
        w.call(0, cid)
        w.nconn += 1
        return _Conn(w, cid)

    m.connect = connect
    m.PARSE_DECLTYPES = 1
    m.PARSE_COLNAMES = 2
    m.Binary = bytes
    return m


def impl(c):
    import time as _time
    import types
    import warnings

    import sqlalchemy as sa
    import sqlalchemy.pool.base as pool_base
    from sqlalchemy import event, exc
    from sqlalchemy import pool as sapool

    hist, faults, listener, idle = c["in"]
    w = _World()
    pool_base.time = types.SimpleNamespace(time=w.time)
    try:
        with warnings.catch_warnings():
            warnings.simplefilter("ignore")
            eng = sa.create_engine("sqlite://", module=_dbapi(w), _initialize=False, poolclass=sapool.QueuePool, pool_size=5)
            eng.dialect.is_disconnect = lambda ex, conn, cur: isinstance(ex, FDisconnect)
            def _mk(sd, sp, out):
                def _h(ctx):
                    if sd:
                        ctx.is_disconnect = sd == 1
                    if sp:
                        ctx.invalidate_pool_on_disconnect = sp == 1
                    if out == 1:
                        return AppError("returned by a listener")
                    if out == 2:
                        raise AppError("raised by a listener")

                return _h

            for sd, sp, out in listener:
                event.listen(eng, "handle_error", _mk(sd, sp, out))

            warm = [eng.connect() for _ in range(idle + 1)]
            for x in warm:
                x.close()
            conn = eng.connect()
            w.n = 0
            w.faults = {k: f for k, f in faults}
            w.log = []
            out = []
            stmt = sa.text("x")
            for op in hist:
                start = len(w.log)
                try:
                    if op == E:
                        conn.execute(stmt)
                    elif op == B:
                        conn.begin()
                    elif op == C:
                        conn.commit()
                    elif op == R:
                        conn.rollback()
                    elif op == S:
                        conn.begin_nested()
                    else:
                        n = conn.get_nested_transaction()
                        if n is not None:
                            (n.rollback if op == SR else n.commit)()
                    code = 0
                except exc.PendingRollbackError:
                    code = 3
                except exc.ResourceClosedError:
                    code = 4
                except exc.DBAPIError as ex:
                    code = 2 if ex.connection_invalidated else 1
                except exc.InvalidRequestError:
                    code = 5
                except AppError:
                    code = 6
                t = conn.get_transaction()
                nt = conn.get_nested_transaction()
                out.append(
                    [
                        code,
                        int(conn.invalidated),
                        0 if t is None else (1 if t.is_active else 2),
                        0 if nt is None else (1 if nt.is_active else 2),
                        [list(x) for x in w.log[start:]],
                    ]
                )
            w.faults = {}
            try:
                conn.close()
            except Exception:
                pass
            eng.dispose()
            return out
    finally:
        pool_base.time = _time


# ------------------------------------------------------------------ the property, clause by clause
def _chain(listeners, d0):
    """what the listeners SAY: the last value assigned to each flag by the listeners that ran (a raising listener
    is the last one to run), whether an exception of theirs replaces the error"""
    d, ip, exn = d0, True, False
    for sd, sp, out in listeners:
        if sd:
            d = sd == 1
        if sp:
            ip = sp == 1
        if out:
            exn = True
        if out == 2:
            break
    return d, ip, exn


def oracle(c, obs):
    hist, faults, listener, idle = c["in"]
    fk = {k: f for k, f in faults}
    ncall = 0
    maxid = idle  # ids 0..idle exist before the history
    prev_inval, prev_txn = 0, 0
    barrier = None  # connections with id < barrier were opened before a pool-invalidating failure
    blocked = False  # a disconnect hit while a transaction was in progress and no rollback() since
    pass_exn = _chain(listener, False)[2]
    stale = None  # op index of a rollback() that left a savepoint of the rolled-back transaction current
    for i, (op, (code, inval, txn, nst, calls)) in enumerate(zip(hist, obs)):
        # count only fault-consulting calls (close is logged but does not consult the oracle)
        idx = ncall
        fired = 0
        for kind, cid in calls:
            if kind != 4:
                idx += 1
                if fk.get(idx):
                    fired = fk[idx]
        disc = ip = None
        if fired:
            disc, ip, exn = _chain(listener, fired == 2)
            if disc and not (inval and code in (2, 6)):
                return "op %d: a DBAPI call failed with an error classified as a disconnect (dialect: %s, listeners: %s), result code %d, invalidated=%d" % (
                    i, fired == 2, listener, code, inval)
            if not disc and code == 2:
                return "op %d: an error NOT classified as a disconnect (dialect: %s, listeners: %s) was reported with connection_invalidated" % (i, fired == 2, listener)
            if not disc and not prev_inval:
                if inval or any(kind in (0, 4) for kind, cid in calls):
                    return "op %d: an error not classified as a disconnect (dialect: %s, listeners: %s) closed/opened DBAPI connections or invalidated the connection: %s" % (
                        i, fired == 2, listener, calls)
            if code == 6 and not exn or (exn and code != 6):
                return "op %d: listeners %s, exception code %d" % (i, listener, code)
        if blocked and op != R:
            if calls:
                return "op %d (%d) reached the DBAPI %s although a disconnect hit an open transaction and rollback() was not called" % (i, op, calls)
            if op in (E, B, C, S) and code not in ((3, 5, 6) if pass_exn else (3, 5)):
                return "op %d (%d) returned code %d instead of raising until rollback()" % (i, op, code)
            if not inval:
                return "op %d: connection no longer invalidated without rollback()" % i
        if barrier is not None:
            for kind, cid in calls:
                if kind in (1, 2, 3) and cid < barrier:
                    return "op %d uses DBAPI connection %d, opened before the disconnect (connections < %d existed then)" % (i, cid, barrier)
        if code == 2 and not inval:
            return "op %d raised a disconnect-classified error but Connection.invalidated is False" % i
        if op == E and prev_inval and prev_txn == 0 and not fired:
            if code != 0 or inval:
                return "op %d: execute on an invalidated connection without pending transaction did not reconnect (code %d)%s" % (
                    i, code, "" if stale is None else " [stale savepoint: the failed rollback() at op %d left a savepoint of the rolled-back transaction current]" % stale)
        if op == R and prev_inval:
            if calls or code != 0 or txn != 0:
                return "op %d: rollback() on the invalidated connection: code %d, calls %s, transaction state %d" % (i, code, calls, txn)
        for kind, cid in calls:
            maxid = max(maxid, cid)
        if disc:
            if not prev_inval and ip:
                barrier = maxid + 1
            if txn != 0:
                blocked = True
        if op == R:
            blocked = False
            stale = i if nst else None
        elif not nst:
            stale = None
        ncall = idx
        prev_inval, prev_txn = inval, txn
    return None


def match_finding(c, what):
    # fixed by fff6083 (status "fixed" suppresses nothing: a revert is reported as a VIOLATION)
    if "[stale savepoint:" in what:
        return "C27-failed-rollback-leaves-savepoint"
    return None


LEVEL_TEXT = (
    "Machine-checked proof (Coq) over a Gallina state machine of one Connection on a QueuePool with a fault oracle at "
    "every DBAPI call, for ALL histories of execute/begin/commit/rollback/savepoint operations, ALL fault positions and "
    "every chain of handle_error listeners (each assigning is_disconnect / invalidate_pool_on_disconnect or not, returning None, returning an exception or raising): a disconnect-classified error leaves the Connection invalidated; after a "
    "disconnect on a live connection no later execute/commit/rollback ever runs on a DBAPI connection opened before it "
    "(invariant over the pool's invalidation time, proved for every continuation); with a transaction in progress every "
    "later operation except rollback() raises and reaches no DBAPI call; rollback() clears the state without a DBAPI call "
    "and the next execute reconnects; any other outcome leaves the pool untouched. The model is tied to the code by a "
    "source pin and by running the REAL Engine/Connection/QueuePool over a fake DBAPI on exhaustive short and random "
    "longer histories x fault positions x listeners."
)
LEVEL_NOTE = (
    "Trusted: Coq kernel; the hand transcription (pin + correspondence); the fake DBAPI and logical clock. No axioms "
    "(Print Assumptions: closed under the global context). Not covered: Connection.close()/checkin under faults (C26), "
    "the handler's auto-rollback/re-entrancy branch (unreachable for this operation alphabet), listeners that use the "
    "connection, two-phase transactions, several Connections sharing the pool (a connect()-time disconnect "
    "during a reconnect does not stamp the pool - by design of Pool._invalidate, outside the property's 'statement fails' "
    "premise), pre_ping."
)
TECHNIQUE = "Coq proof (state-machine invariants over all histories and fault oracles); source pin; correspondence on the real Engine over a fake DBAPI"
