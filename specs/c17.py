"""C17 - lambda statements never reuse stale closure values."""
import json

ID = "C17"
LEVEL = "proof"
PROPS = "props/C17.v"
RUNNER = ("SAV.sql.LambdaRun", "run_case")
STATIC_MODULES = ["SAV.sql.LambdaRun", "SAV.sql.LambdaExtra"]

RULE = (
    "a case = 1-2 head lambdas (lambda: select(...)...) and 0-3 link lambdas (lambda s: s....) with generated bodies over "
    "closure cells of the roles scalar / string / list (IN) / column / table / helper function (called with a cell, with "
    "its own closure, or constant) / LIMIT, plus a history of 3-6 constructions 'lambda_stmt(head) + link...' choosing "
    "the links (the '+=' chain varies) and fresh closure values each time (same kinds, different values, columns, tables, "
    "list lengths incl. empty). Every construction is executed on SQLite; the executed SQL text + parameters are parsed "
    "into (FROM, criteria with bound values, LIMIT) and compared with the model's result for the whole history; the "
    "per-variable decision of AnalyzedCode (bound / keyed element / keyed code) is compared with the model's "
    "classification. Oracle: rows and literal-rendered SQL of every construction vs the same statement built without "
    "lambda_stmt. Oracle-only families (outside the Coq model): a date closure value used directly AND through .year/.month/"
    ".day; ORM entities (mapped class, aliased()) as closure variables of a generic lambda; a tracked literal next to a "
    "literal inside loader-option criteria. One case in five carries ONE shape outside the guard (None operand/limit, helper with own closure, "
    "truth test of a bound cell) or a refused one (truth test alone, list index alone): the model is faithful there too; the "
    "oracle hit is a known finding. "
    "non-trivial = the history re-uses a code object with different closure values at least twice"
)
TRUSTED = [
    "hand-written Gallina model of sql/lambdas.py (AnalyzedCode._init_closure, _setup_additional_closure_trackers, "
    "_cache_key_getter_closure_variable / _tracked_literal, LambdaElement._retrieve_tracker_rec, PyWrapper parameter "
    "extraction, LinkedLambdaElement chain keys), pinned to the normalised source and compared behaviourally",
    "the bodies of lambdas are abstracted to lists of 'uses' of closure cells (10 shapes); the harness generates the Python "
    "source of each lambda from the same list (trusted printer, ~40 lines)",
    "CPython closure layout: co_freevars of the generated lambdas is c0 < c1 < ... in index order (checked per case)",
    "statements are compared as (FROM, ordered criteria with bound values, LIMIT) parsed from the SQL SQLite executed",
]
ASSUMPTIONS = [
    "closure cells keep their kind (literal / list / column / table / function) per code object over the history",
    "the lambda cache does not evict (LRU size 1000) within a history",
    "a code object determines the body of the lambda INCLUDING the objects its global names refer to (false for two textually "
    "identical lambdas on the same line of two modules: finding C17-equal-code-objects-share-cache); globals are constant",
]
LEVEL_TEXT = (
    "Coq proof over an executable model of the lambda machinery: for every history of '+=' chains of lambdas with arbitrary "
    "closure values inside the guard, every construction equals the directly built statement or is the documented "
    "InvalidRequestError (state invariant over analyses + skeleton cache; skeleton determined by the key; bound values "
    "re-extracted from the current closure); structural and function-code changes change the key. Four refutations outside "
    "the guard, each confirmed on the implementation: None operand, None limit, helper function with its own closure "
    "(stale VALUE), bound cell also tested for truth (stale STRUCTURE). The list-index TypeError is repaired (3d569da): list "
    "items are bind paths inside the guard of the main theorem."
)
LEVEL_NOTE = (
    "partial in breadth: the modelled body shapes are comparisons, IN, column/table cells, helper calls, LIMIT, truth test, "
    "list index (bind path) on Core select(); ORM lambda criteria (with_loader_criteria), track_on / track_closure_variables=False / "
    "track_bound_values=False options, globals used as bound values, attribute paths (obj.attr) and DeferredLambdaElement "
    "are not modelled. Bytecode-level closure analysis is CPython behaviour (trusted)."
)
TECHNIQUE = (
    "Coq proof (state invariant over cache histories, induction over chains and histories) + model/impl correspondence on "
    "executed SQL and on AnalyzedCode's per-variable decisions + direct-vs-lambda execution oracle on SQLite"
)

ANCHORS = [
    ("lib/sqlalchemy/sql/lambdas.py", "LambdaElement.__init__"),
    ("lib/sqlalchemy/sql/lambdas.py", "LambdaElement._retrieve_tracker_rec"),
    ("lib/sqlalchemy/sql/lambdas.py", "LambdaElement._setup_binds_for_tracked_expr"),
    ("lib/sqlalchemy/sql/lambdas.py", "LambdaElement._resolved"),
    ("lib/sqlalchemy/sql/lambdas.py", "LambdaElement._gen_cache_key"),
    ("lib/sqlalchemy/sql/lambdas.py", "StatementLambdaElement.add_criteria"),
    ("lib/sqlalchemy/sql/lambdas.py", "LinkedLambdaElement.__init__"),
    ("lib/sqlalchemy/sql/lambdas.py", "LinkedLambdaElement._invoke_user_fn"),
    ("lib/sqlalchemy/sql/lambdas.py", "AnalyzedCode.get"),
    ("lib/sqlalchemy/sql/lambdas.py", "AnalyzedCode.__init__"),
    ("lib/sqlalchemy/sql/lambdas.py", "AnalyzedCode._init_closure"),
    ("lib/sqlalchemy/sql/lambdas.py", "AnalyzedCode._setup_additional_closure_trackers"),
    ("lib/sqlalchemy/sql/lambdas.py", "AnalyzedCode._roll_down_to_literal"),
    ("lib/sqlalchemy/sql/lambdas.py", "AnalyzedCode._bound_parameter_getter_func_closure"),
    ("lib/sqlalchemy/sql/lambdas.py", "AnalyzedCode._cache_key_getter_closure_variable"),
    ("lib/sqlalchemy/sql/lambdas.py", "AnalyzedCode._cache_key_getter_tracked_literal"),
    ("lib/sqlalchemy/sql/lambdas.py", "AnalyzedFunction.__init__"),
    ("lib/sqlalchemy/sql/lambdas.py", "AnalyzedFunction._instrument_and_run_function"),
    ("lib/sqlalchemy/sql/lambdas.py", "AnalyzedFunction._coerce_expression"),
    ("lib/sqlalchemy/sql/lambdas.py", "PyWrapper.__call__"),
    ("lib/sqlalchemy/sql/lambdas.py", "PyWrapper.operate"),
    ("lib/sqlalchemy/sql/lambdas.py", "PyWrapper._extract_bound_parameters"),
    ("lib/sqlalchemy/sql/lambdas.py", "PyWrapper._py_wrapper_literal"),
    ("lib/sqlalchemy/sql/lambdas.py", "PyWrapper.__bool__"),
    ("lib/sqlalchemy/sql/lambdas.py", "PyWrapper.__getitem__"),
    ("lib/sqlalchemy/sql/lambdas.py", "PyWrapper._add_getter"),
    ("lib/sqlalchemy/sql/coercions.py", "_deep_is_literal"),
]


def translate(repo, outdir):
    from translate import fingerprint

    fingerprint.check(repo, ANCHORS, "C17")
    return []


# ------------------------------------------------------------------ the shared vocabulary
TABLES = ["t", "u"]
COLS = ["id", "x", "y", "s"]
OPS = ["==", "!=", "<", ">"]


def V_none():
    return [0]


def V_int(z):
    return [1, z]


def V_str(s):
    return [2, [ord(c) for c in s]]


def V_list(l):
    return [3, l]


def V_col(t, c):
    return [4, t, c]


def V_tab(t):
    return [5, t]


def V_fun(code, cap):
    return [6, code, cap]


# ------------------------------------------------------------------ generation
class _Body:
    def __init__(self, code, head):
        self.code = code
        self.head = head
        self.uses = []
        self.roles = []  # per cell: role descriptor (dict)

    def cell(self, role):
        self.roles.append(role)
        return len(self.roles) - 1


def _gen_body(rng, code, head, helpers, unsafe):
    """unsafe: None or one of 'none', 'limit_none', 'closure_fn', 'shared_if', 'index', 'lone_if'"""
    b = _Body(code, head)
    tab_cell = None
    if head and rng.random() < 0.4:
        tab_cell = b.cell({"role": "tab"})
        b.uses.append([0, tab_cell])
    n = rng.randint(1, 3)
    unsafe_done = False
    for _ in range(n):
        k = rng.random()
        t = rng.randint(0, 1)
        c = rng.randint(1, 2)
        if unsafe and not unsafe_done and rng.random() < 0.6:
            unsafe_done = True
            if unsafe == "none":
                i = b.cell({"role": "int", "none": True})
                b.uses.append([1, t, c, rng.randint(0, 1), i])
                continue
            if unsafe == "limit_none":
                i = b.cell({"role": "limit", "none": True})
                b.uses.append([7, i])
                continue
            if unsafe == "closure_fn":
                hc = 100 + len(helpers)
                helpers.append([hc, t, c, rng.randint(0, 3), 0, "closure"])
                i = b.cell({"role": "fun", "helper": hc, "closure": True})
                b.uses.append([5, i])
                continue
            if unsafe in ("shared_if", "lone_if"):
                i = b.cell({"role": "int", "zero": True})
                if unsafe == "shared_if":
                    b.uses.append([1, t, c, rng.choice([2, 3]), i])
                b.uses.append([8, t, 3 - c, i, 1, 2])
                continue
            if unsafe == "index":
                i = b.cell({"role": "list", "min": 2})
                b.uses.append([9, t, c, rng.randint(2, 3), i, rng.randint(0, 1)])
                continue
        if k < 0.3:
            if rng.random() < 0.2 and t == 0:
                i = b.cell({"role": "str"})
                b.uses.append([1, 0, 3, rng.randint(0, 1), i])
            else:
                i = rng.choice([j for j, r in enumerate(b.roles) if r["role"] == "int" and not r.get("none") and not r.get("zero")] + [None, None])
                if i is None:
                    i = b.cell({"role": "int"})
                b.uses.append([1, t, c, rng.randint(0, 3), i])
        elif k < 0.45:
            if rng.random() < 0.35:
                # the list is a bound value (IN) AND one of its items is a second bound value (bind path)
                i = b.cell({"role": "list", "min": 2, "nonone": True})
                b.uses.append([2, t, c, i])
                b.uses.append([9, rng.randint(0, 1), 3 - c, rng.randint(0, 3), i, rng.randint(0, 1)])
            else:
                i = b.cell({"role": "list"})
                b.uses.append([2, t, c, i])
        elif k < 0.58:
            i = b.cell({"role": "col"})
            b.uses.append([3, i, rng.randint(0, 3), rng.randint(0, 4)])
        elif k < 0.7 and tab_cell is not None:
            j = b.cell({"role": "int"})
            b.uses.append([4, tab_cell, c, rng.randint(0, 3), j])
        elif k < 0.8:
            hc = 100 + len(helpers)
            helpers.append([hc, t, c, rng.randint(0, 3), 0, "arg"])
            i = b.cell({"role": "fun", "helper": hc})
            j = b.cell({"role": "int"})
            b.uses.append([6, i, j])
        elif k < 0.88:
            hc = 100 + len(helpers)
            helpers.append([hc, t, c, rng.randint(0, 3), rng.randint(0, 3), "const"])
            alt = None
            if rng.random() < 0.5:  # a second constant helper that may sit in the same cell: the function (code) changes
                alt = 100 + len(helpers)
                helpers.append([alt, 1 - t, c, rng.randint(0, 3), rng.randint(0, 3), "const"])
            i = b.cell({"role": "fun", "helper": hc, "alt": alt})
            b.uses.append([5, i])
        elif k < 0.95:
            i = b.cell({"role": "limit"})
            b.uses.append([7, i])
        else:
            i = b.cell({"role": "int"})
            b.uses.append([1, t, c, rng.randint(0, 3), i])
    if not b.roles:
        i = b.cell({"role": "int"})
        b.uses.append([1, 0, 1, 3, i])
    return b


def _gen_value(rng, role):
    r = role["role"]
    if r == "int":
        if role.get("none") and rng.random() < 0.4:
            return V_none()
        if role.get("zero"):
            return V_int(rng.choice([0, 0, 1, 2]))
        return V_int(rng.randint(0, 5))
    if r == "str":
        return V_str(rng.choice(["s0", "s1", "s2", ""]))
    if r == "list":
        n = rng.randint(role.get("min", 0), 3)
        return V_list([V_none() if rng.random() < 0.1 and not role.get("min") else V_int(rng.randint(0, 3)) for _ in range(n)])  # "min" lists are indexed: no None items
    if r == "col":
        return V_col(rng.randint(0, 1), rng.randint(1, 2))
    if r == "tab":
        return V_tab(rng.randint(0, 1))
    if r == "limit":
        if role.get("none") and rng.random() < 0.4:
            return V_none()
        return V_int(rng.randint(0, 6))
    if r == "fun":
        if role.get("closure"):
            return V_fun(role["helper"], [V_int(rng.randint(0, 4))])
        hc = role["helper"]
        if role.get("alt") is not None and rng.random() < 0.4:
            hc = role["alt"]
        return V_fun(hc, [])
    raise AssertionError(role)


UNSAFE = ["none", "limit_none", "closure_fn", "shared_if", "index", "lone_if"]


def _gen_case(rng, unsafe):
    helpers = []
    heads = [_gen_body(rng, 1 + i, True, helpers, unsafe if i == 0 and rng.random() < 0.5 else None) for i in range(rng.randint(1, 2))]
    links = [_gen_body(rng, 10 + i, False, helpers, None) for i in range(rng.randint(0, 3))]
    bodies = heads + links
    if unsafe and not any(_has_unsafe(b, unsafe) for b in bodies):
        # force it into a link (or the only head)
        tgt = rng.choice(bodies)
        nb = _gen_body(rng, tgt.code, tgt.head, helpers, unsafe)
        tries = 0
        while not _has_unsafe(nb, unsafe) and tries < 20:
            nb = _gen_body(rng, tgt.code, tgt.head, helpers, unsafe)
            tries += 1
        bodies[bodies.index(tgt)] = nb
        heads = [b for b in bodies if b.head]
        links = [b for b in bodies if not b.head]
    hist = []
    for _ in range(rng.randint(3, 6)):
        h = rng.choice(heads)
        chain = [h] + [lk for lk in links if rng.random() < 0.6]
        hist.append([[b.code, [_gen_value(rng, r) for r in b.roles]] for b in chain])
    return {
        "in": [[[b.code, b.uses] for b in bodies], [hp[:5] for hp in helpers], hist],
        "kind": "unsafe:" + unsafe if unsafe else "safe",
        "heads": [b.code for b in heads],
        "hkind": {str(hp[0]): hp[5] for hp in helpers},
        "unsafe": unsafe,
    }


def _has_unsafe(b, unsafe):
    tags = [u[0] for u in b.uses]
    if unsafe == "none":
        return any(r.get("none") and r["role"] == "int" for r in b.roles)
    if unsafe == "limit_none":
        return any(r.get("none") and r["role"] == "limit" for r in b.roles)
    if unsafe == "closure_fn":
        return any(r.get("closure") for r in b.roles)
    if unsafe in ("shared_if", "lone_if"):
        return 8 in tags
    if unsafe == "index":
        return 9 in tags
    return False


ATTR_SHAPES = [
    "select(ev.c.id).where(ev.c.created <= d).where(ev.c.yr == d.year)",
    "select(ev.c.id).where(ev.c.yr == d.year).where(ev.c.created <= d)",
    "select(ev.c.id).where(ev.c.created <= d).where(ev.c.yr == d.year).where(ev.c.id > d.month)",
    "select(ev.c.id).where(ev.c.created > d).where(ev.c.id <= d.day).where(ev.c.yr != d.year)",
    "select(ev.c.id, ev.c.yr).where(ev.c.yr >= d.year).where(ev.c.created != d).where(ev.c.id.in_(lst))",
]
ORM_SHAPES = [
    "select(ent.id, ent.name).where(ent.id > lo)",
    "select(ent).where(ent.name != nm).where(ent.id >= lo)",
    "select(ent.name).where(ent.id.in_(lst))",
]
ENTITIES = ["User", "Address", "aliased(Address)", "aliased(User)", "aliased(Address, name='zz')"]
LOADERS = ["selectinload", "lazyload", "subqueryload", "joinedload"]


def _gen_extra(rng, tier):
    """oracle-only families (not in the Coq model): a closure object used directly AND through its attributes; ORM entities
    (mapped classes, aliased()) as closure variables; a tracked literal next to a literal inside loader-option criteria"""
    out = []
    n = 60 if tier == "thorough" else 8
    for i in range(n):
        hist = [[rng.randint(2019, 2022), rng.randint(1, 12), rng.randint(1, 28), [rng.randint(1, 12) for _ in range(rng.randint(0, 3))]]
                for _ in range(rng.randint(3, 5))]
        out.append({"in": [9, 1, i], "kind": "attr", "model": False, "unsafe": "extra", "shape": rng.randrange(len(ATTR_SHAPES)), "hist": hist})
    for i in range(n):
        hist = [[rng.randrange(len(ENTITIES)), rng.randint(0, 4), rng.choice(["n1", "n2", "n3"]), [rng.randint(1, 6) for _ in range(rng.randint(0, 3))]]
                for _ in range(rng.randint(3, 5))]
        out.append({"in": [9, 2, i], "kind": "orm", "model": False, "unsafe": "extra", "shape": rng.randrange(len(ORM_SHAPES)), "hist": hist})
    for i in range(max(2, n // 4)):
        hist = [[rng.randint(0, 3), rng.choice(["e0", "e1", "e2"])] for _ in range(rng.randint(3, 4))]
        out.append({"in": [9, 3, i], "kind": "ormcrit", "model": False, "unsafe": "extra", "loader": rng.randrange(len(LOADERS)), "hist": hist})
    return out


def gen_cases(rng, tier):
    cases = []
    n = 3000 if tier == "thorough" else 240
    for i in range(n):
        unsafe = rng.choice(UNSAFE) if i % 5 == 0 else None
        cases.append(_gen_case(rng, unsafe))
    return cases + _gen_extra(rng, tier)


def nontrivial(c):
    if c.get("kind") in ("attr", "orm", "ormcrit") or c.get("family") in ("attr", "orm", "ormcrit"):
        return len({json.dumps(h) for h in c["hist"]}) >= 2
    seen = {}
    for ch in c["in"][2]:
        for code, env in ch:
            seen.setdefault(code, set()).add(json.dumps(env))
    return any(len(v) >= 2 for v in seen.values())


# ------------------------------------------------------------------ implementation side
_ENV = {}


def impl_setup():
    import warnings

    warnings.simplefilter("ignore")


def _db():
    if not _ENV:
        from sqlalchemy import Column, Integer, MetaData, String, Table, create_engine, event

        e = create_engine("sqlite://", connect_args={"autocommit": False})
        m = MetaData()
        t = Table("t", m, Column("id", Integer, primary_key=True), Column("x", Integer), Column("y", Integer), Column("s", String))
        u = Table("u", m, Column("id", Integer, primary_key=True), Column("x", Integer), Column("y", Integer), Column("s", String))
        m.create_all(e)
        with e.begin() as c:
            c.execute(t.insert(), [dict(id=i, x=(i % 5 if i % 6 else None), y=i % 3, s="s%d" % (i % 3)) for i in range(1, 19)])
            c.execute(u.insert(), [dict(id=i, x=(i % 3 if i % 4 else None), y=i % 4, s="s%d" % (i % 2)) for i in range(1, 9)])
        log = []

        @event.listens_for(e, "before_cursor_execute")
        def bce(conn, cursor, statement, parameters, context, executemany):
            log.append((statement, parameters))

        _ENV.update(e=e, t=t, u=u, log=log)
    return _ENV


def _use_src(u, s):
    """python source of one use applied to the statement expression s"""
    T = lambda t: TABLES[t]  # noqa: E731
    k = u[0]
    if k == 0:
        return s  # the base select already names the table cell
    if k == 1:
        return "%s.where(%s.c.%s %s c%d)" % (s, T(u[1]), COLS[u[2]], OPS[u[3]], u[4])
    if k == 2:
        return "%s.where(%s.c.%s.in_(c%d))" % (s, T(u[1]), COLS[u[2]], u[3])
    if k == 3:
        return "%s.where(c%d %s %d)" % (s, u[1], OPS[u[2]], u[3])
    if k == 4:
        return "%s.where(c%d.c.%s %s c%d)" % (s, u[1], COLS[u[2]], OPS[u[3]], u[4])
    if k == 5:
        return "%s.where(c%d())" % (s, u[1])
    if k == 6:
        return "%s.where(c%d(c%d))" % (s, u[1], u[2])
    if k == 7:
        return "%s.limit(c%d)" % (s, u[1])
    if k == 8:
        return "%s.where(%s.c.%s == (%d if c%d else %d))" % (s, T(u[1]), COLS[u[2]], u[4], u[3], u[5])
    if k == 9:
        return "%s.where(%s.c.%s %s c%d[%d])" % (s, T(u[1]), COLS[u[2]], OPS[u[3]], u[4], u[5])
    raise AssertionError(u)


def _ncells(uses):
    n = 0
    for u in uses:
        idx = {0: [1], 1: [4], 2: [3], 3: [1], 4: [1, 4], 5: [1], 6: [1, 2], 7: [1], 8: [3], 9: [4]}[u[0]]
        for j in idx:
            n = max(n, u[j] + 1)
    return n


def _source(c):
    bodies, helpers, _ = c["in"]
    hk = c["hkind"]
    L = []
    for hc, t, col, op, const in helpers:
        kind = hk[str(hc)]
        lhs = "%s.c.%s %s" % (TABLES[t], COLS[col], OPS[op])
        if kind == "arg":
            L.append("def h%d(v):\n    return %s v\n" % (hc, lhs))
        elif kind == "const":
            L.append("def h%d():\n    return %s %d\n" % (hc, lhs, const))
        else:
            L.append("def mk_h%d(n):\n    def h():\n        return %s n\n    return h\n" % (hc, lhs))
    for code, uses in bodies:
        n = _ncells(uses)
        args = ", ".join("c%d" % i for i in range(n))
        head = code in c["heads"]
        if head:
            base = "select(t.c.id)"
            for u in uses:
                if u[0] == 0:
                    base = "select(c%d.c.id)" % u[1]
            s = base
        else:
            s = "s"
        ds = s
        for u in uses:
            s = _use_src(u, s)
        L.append("def mk_L%d(%s):\n    return lambda%s: %s\n" % (code, args, "" if head else " s", s))
        for u in uses:
            ds = _use_src(u, ds)
        L.append("def direct_%d(s%s):\n    return %s\n" % (code, (", " + args) if args else "", ds))
    return "\n".join(L)


def _pyval(v, ns):
    k = v[0]
    if k == 0:
        return None
    if k == 1:
        return v[1]
    if k == 2:
        return "".join(chr(x) for x in v[1])
    if k == 3:
        return [_pyval(x, ns) for x in v[1]]
    if k == 4:
        return getattr(ns[TABLES[v[1]]].c, COLS[v[2]])
    if k == 5:
        return ns[TABLES[v[1]]]
    if k == 6:
        if v[2]:
            return ns["mk_h%d" % v[1]](_pyval(v[2][0], ns))
        return ns["h%d" % v[1]]
    raise AssertionError(v)


import re as _re

_CRIT = _re.compile(
    r"(\w+)\.(\w+) (?:(=|!=|<|>) \?|(IS NOT NULL|IS NULL)|IN \((SELECT 1 FROM \(SELECT 1\) WHERE 1!=1|\?(?:, \?)*)\))$"
)


def _enc_param(p):
    if p is None:
        return V_none()
    if isinstance(p, str):
        return V_str(p)
    return V_int(int(p))


def _parse(statement, params, has_from):
    """executed SQL text + parameters -> items (the encoding of LambdaRun.enc_item)"""
    params = list(params)
    s = " ".join(statement.split())
    m = _re.match(r"SELECT (\w+)\.id FROM ([\w, ]+?)(?: WHERE (.*?))?(?: LIMIT \? OFFSET \?)?$", s)
    if not m:
        raise AssertionError("cannot parse %r" % s)
    items = []
    if has_from:
        items.append([0, TABLES.index(m.group(1))])
    if m.group(3):
        for part in m.group(3).split(" AND "):
            cm = _CRIT.match(part.strip())
            if not cm:
                raise AssertionError("cannot parse criterion %r in %r" % (part, s))
            t, c = TABLES.index(cm.group(1)), COLS.index(cm.group(2))
            if cm.group(3):
                items.append([1, t, c, ["=", "!=", "<", ">"].index(cm.group(3)), _enc_param(params.pop(0))])
            elif cm.group(4):
                items.append([2 if cm.group(4) == "IS NULL" else 3, t, c])
            else:
                n = 0 if cm.group(5).startswith("SELECT") else cm.group(5).count("?")
                items.append([4, t, c, [_enc_param(params.pop(0)) for _ in range(n)]])
    if " LIMIT ? OFFSET ?" in s:
        items.append([5, _enc_param(params[0])])
    return items


def _classes(ns, c):
    """what AnalyzedCode decided for every closure cell of every analysed lambda: 0 bound 1 keyed element 2 keyed code 3 none"""
    from sqlalchemy.sql import lambdas

    out = []
    for code, uses in c["in"][0]:
        fn = ns.get("_fn_%d" % code)
        if fn is None:
            continue
        ac = lambdas.AnalyzedCode._fns.get(fn.__code__)
        if ac is None:
            continue
        n = len(fn.__code__.co_freevars)
        wrapped = {idx for name, idx in ac.build_py_wrappers if idx is not None}
        keyed = set()
        for g in ac.closure_trackers:
            cells = dict(zip(g.__code__.co_freevars, [x.cell_contents for x in (g.__closure__ or ())]))
            if "idx" in cells:
                keyed.add(cells["idx"])
        cls = []
        for i in range(n):
            if i in keyed:
                cls.append(2 if i in wrapped else 1)
            elif i in wrapped:
                cls.append(0)
            else:
                cls.append(3)
        out.append([code, cls])
    return out


_LAST = {}


def _impl_twin(c):
    """two modules with the textually identical lambda on the same line, each with its own global `t`"""
    from sqlalchemy import lambda_stmt, select

    env = _db()
    _ENV["n"] = _ENV.get("n", 0) + 1
    src = "\n" * (40 * _ENV["n"]) + "def mk(v):\n    return lambda: select(t.c.id).where(t.c.x > v)\n"
    nsA = {"select": select, "t": env["t"]}
    nsB = {"select": select, "t": env["u"]}
    exec(compile(src, "module_a_%d.py" % _ENV["n"], "exec"), nsA)
    exec(compile(src, "module_b_%d.py" % _ENV["n"], "exec"), nsB)
    checks = []
    for k, ns in enumerate((nsA, nsB)):
        fn = ns["mk"](1)
        with env["e"].connect() as conn:
            lrows = sorted(tuple(r) for r in conn.execute(lambda_stmt(fn)))
            drows = sorted(tuple(r) for r in conn.execute(fn()))
        lsql = " ".join(str(lambda_stmt(ns["mk"](1)).compile(env["e"], compile_kwargs={"literal_binds": True})).split())
        dsql = " ".join(str(fn().compile(env["e"], compile_kwargs={"literal_binds": True})).split())
        checks.append({"k": k, "lrows": lrows, "drows": drows, "lsql": lsql, "dsql": dsql, "direct_ok": True})
    _LAST["checks"] = checks
    _LAST["id"] = id(c)
    return []


def _orm():
    if "User" not in _ENV:
        from sqlalchemy import Column, Date, ForeignKey, Integer, String
        from sqlalchemy.orm import Session, declarative_base, relationship
        import datetime

        env = _db()
        Base = declarative_base()

        class User(Base):
            __tablename__ = "users"
            id = Column(Integer, primary_key=True)
            name = Column(String)
            addresses = relationship("Address", order_by="Address.id")

        class Address(Base):
            __tablename__ = "addresses"
            id = Column(Integer, primary_key=True)
            user_id = Column(ForeignKey("users.id"))
            name = Column(String)
            email = Column(String)

        class Ev(Base):
            __tablename__ = "ev"
            id = Column(Integer, primary_key=True)
            created = Column(Date)
            yr = Column(Integer)

        Base.metadata.create_all(env["e"])
        with Session(env["e"]) as s:
            for i in range(1, 6):
                s.add(User(id=i, name="n%d" % (i % 3 + 1),
                           addresses=[Address(id=i * 10 + k, name="n%d" % (k + 1), email="e%d" % k) for k in range(3)]))
            n = 0
            for yr in (2019, 2020, 2021, 2022):
                for month in (2, 6, 10):
                    n += 1
                    s.add(Ev(id=n, created=datetime.date(yr, month, 15), yr=yr))
            s.commit()
        _ENV.update(User=User, Address=Address, ev=Ev.__table__)
    return _ENV


def _impl_extra(c, kind):
    """oracle-only: every invocation of the lambda statement vs the same statement built directly"""
    import datetime

    import sqlalchemy
    from sqlalchemy import exc, lambda_stmt, select
    from sqlalchemy import orm
    from sqlalchemy.orm import Session, aliased

    env = _orm()
    _ENV["n"] = _ENV.get("n", 0) + 1
    ns = {"select": select, "lambda_stmt": lambda_stmt, "ev": env["ev"], "User": env["User"], "Address": env["Address"], "aliased": aliased}
    if kind == "attr":
        expr, args = ATTR_SHAPES[c["shape"]], "d, lst"
    elif kind == "orm":
        expr, args = ORM_SHAPES[c["shape"]], "ent, lo, nm, lst"
    else:
        ns["ld"] = getattr(orm, LOADERS[c["loader"]])
        expr = "select(User).options(ld(User.addresses.and_(Address.email != aexcl))).where(User.id > zmin).order_by(User.id)"
        args = "zmin, aexcl"
    src = "def mk(%s):\n    return lambda: %s\ndef direct(%s):\n    return %s\n" % (args, expr, args, expr)
    exec(compile("\n" * (40 * _ENV["n"]) + src, "<c17 extra %d>" % _ENV["n"], "exec"), ns)
    checks = []
    for k, h in enumerate(c["hist"]):
        if kind == "attr":
            vals = (datetime.date(h[0], h[1], h[2]), h[3])
            dvals = vals
        elif kind == "orm":
            ent = eval(ENTITIES[h[0]], ns)
            dent = eval(ENTITIES[h[0]], ns)
            vals, dvals = (ent, h[1], h[2], h[3]), (dent, h[1], h[2], h[3])
        else:
            vals = dvals = (h[0], h[1])

        def run(st):
            with Session(env["e"]) as sess:
                if kind == "ormcrit":
                    res = sess.execute(st)
                    if LOADERS[c["loader"]] == "joinedload":
                        res = res.unique()
                    return [(u.id, [a.email for a in u.addresses]) for u in res.scalars()]
                rows = sess.execute(st).all()
                return sorted(tuple(getattr(x, "id", x) for x in r) for r in rows)

        def lit(st):
            return " ".join(str(st.compile(env["e"], compile_kwargs={"literal_binds": True})).split())

        direct = ns["direct"](*dvals)
        drows, dsql = run(direct), lit(direct)
        try:
            st = lambda_stmt(ns["mk"](*vals))
            lrows, lsql = run(st), lit(st)
        except exc.InvalidRequestError as ex:
            checks.append({"k": k, "rejected": str(ex)[:160], "direct_ok": True})
            continue
        checks.append({"k": k, "lrows": lrows, "drows": drows, "lsql": lsql, "dsql": dsql, "direct_ok": True})
    _LAST["checks"] = checks
    _LAST["id"] = id(c)
    return []


def _family(c):
    k = c.get("kind", "")
    return c.get("family") if k.startswith(("witness:", "corpus:")) else k


def impl(c):
    import sqlalchemy
    from sqlalchemy import exc, lambda_stmt, select

    if c.get("twin_module"):
        return _impl_twin(c)
    if _family(c) in ("attr", "orm", "ormcrit"):
        return _impl_extra(c, _family(c))
    env = _db()
    ns = {"t": env["t"], "u": env["u"], "select": select, "lambda_stmt": lambda_stmt}
    # code objects compare BY VALUE and the comparison ignores co_filename: AnalyzedCode._fns and the lambda cache are keyed
    # by them, so two cases with textually identical lambdas on the same line would share analyses and skeletons (this is
    # finding C17-equal-code-objects-share-cache).  A per-case line offset makes every case a fresh process as far as the
    # lambda machinery is concerned (the model starts from the empty state).
    _ENV["n"] = _ENV.get("n", 0) + 1
    exec(compile("\n" * (40 * _ENV["n"]) + _source(c), "<c17 case %d>" % _ENV["n"], "exec"), ns)
    heads = set(c["heads"])
    results, checks = [], []
    for k, chain in enumerate(c["in"][2]):
        vals = [(code, [_pyval(v, ns) for v in e]) for code, e in chain]
        has_from = any(u[0] == 0 for code, uses in c["in"][0] if code == chain[0][0] for u in uses)
        # the direct statement
        direct, drows, dsql = None, None, None
        try:
            for code, pv in vals:
                direct = ns["direct_%d" % code](direct, *pv)
            with env["e"].connect() as conn:
                drows = sorted(tuple(r) for r in conn.execute(direct))
            dsql = " ".join(str(direct.compile(env["e"], compile_kwargs={"literal_binds": True})).split())
        except exc.ArgumentError:
            direct = None  # the direct construction itself is refused (comparison of None with < / >): outside the domain
        except Exception as ex:  # e.g. LIMIT with a non-integer: the direct statement is itself invalid
            drows = "EXC " + type(ex).__name__
        # the lambda statement
        try:
            st = None
            for code, pv in vals:
                fn = ns["mk_L%d" % code](*pv)
                if list(fn.__code__.co_freevars) != ["c%d" % i for i in range(len(pv))]:
                    raise AssertionError("closure layout %r" % (fn.__code__.co_freevars,))
                ns.setdefault("_fn_%d" % code, fn)
                st = lambda_stmt(fn) if code in heads else st + fn
        except exc.InvalidRequestError as ex:
            results.append([1])
            checks.append({"k": k, "rejected": str(ex)[:160], "direct_ok": direct is not None})
            continue
        except TypeError as ex:
            results.append([2])
            checks.append({"k": k, "error": "TypeError: %s" % ex, "direct_ok": direct is not None})
            continue
        del env["log"][:]
        lrows = None
        try:
            with env["e"].connect() as conn:
                lrows = sorted(tuple(r) for r in conn.execute(st))
        except exc.InvalidRequestError:
            results.append([1])
            checks.append(None)
            continue
        except Exception as ex:
            lrows = "EXC " + type(ex).__name__
        if not env["log"]:
            raise AssertionError("nothing was executed")
        statement, params = env["log"][0]
        results.append([0, _parse(statement, params, has_from)])
        try:
            lsql = " ".join(str(st.compile(env["e"], compile_kwargs={"literal_binds": True})).split())
        except Exception as ex:
            lsql = "EXC " + type(ex).__name__
        checks.append({"k": k, "lrows": lrows, "drows": drows, "lsql": lsql, "dsql": dsql, "direct_ok": direct is not None})
    _LAST["checks"] = checks
    _LAST["id"] = id(c)
    return [results, _classes(ns, c)]


def oracle(c, obs):
    """C17 itself: every construction gives the rows and the (literal-rendered) SQL of the directly built statement"""
    if _LAST.get("id") != id(c):
        return None
    for ck in _LAST["checks"]:
        if ck is None or not ck.get("direct_ok"):
            continue  # documented refusal / the direct construction is itself refused
        if "rejected" in ck:
            if c.get("unsafe") is None or c.get("unsafe") == "extra":
                # every closure value of a 'safe' case is a literal used as a bound value, a column, a table or a helper
                # function: "literal closure values become fresh bound parameters" - a refusal is not that
                return "inv=%d: the lambda statement was refused (InvalidRequestError: %s) although every closure value is a bound literal, a column, a table or a called function" % (ck["k"], ck["rejected"])
            continue
        if "error" in ck:
            return "inv=%d: building the lambda statement raised %s (the direct statement builds fine)" % (ck["k"], ck["error"])
        if ck["lrows"] != ck["drows"]:
            return "inv=%d: rows differ: lambda %r direct %r; SQL lambda [%s] direct [%s]" % (
                ck["k"], _short(ck["lrows"]), _short(ck["drows"]), ck["lsql"], ck["dsql"])
        if ck["lsql"] != ck["dsql"]:
            return "inv=%d: same rows but SQL differs: lambda [%s] direct [%s]" % (ck["k"], ck["lsql"], ck["dsql"])
    return None


def _short(r):
    return r if isinstance(r, str) else r[:6]


def match_finding(c, what):
    if c.get("twin_module"):
        return "C17-equal-code-objects-share-cache"
    if _family(c) == "ormcrit" and "refused" not in what:
        return "C17-loader-criteria-literal-stale"
    if _family(c) in ("attr", "orm", "ormcrit"):
        return None
    m = _re.match(r"inv=(\d+):", what)
    if not m:
        return None
    k = int(m.group(1))
    chain = c["in"][2][k]
    bodies = dict((code, uses) for code, uses in c["in"][0])
    mode = c.get("unsafe")
    if mode in ("none", "limit_none"):
        # a None sits in a slot of THIS construction
        for code, e in chain:
            for u in bodies[code]:
                slot = {1: 4, 4: 4, 6: 2, 7: 1}.get(u[0])
                if slot is not None and u[slot] < len(e) and e[u[slot]] == [0]:
                    return "C17-none-closure-value"
        return None
    if mode == "closure_fn" and "TypeError" not in what:
        if any(u[0] == 5 and e[u[1]][0] == 6 and e[u[1]][2] for code, e in chain for u in bodies[code]):
            return "C17-nested-function-closure-stale"
        return None
    if mode in ("shared_if", "lone_if") and "TypeError" not in what:
        for code, e in chain:
            us = bodies[code]
            for u in us:
                if u[0] == 8 and any(v[0] == 1 and v[4] == u[3] for v in us):
                    return "C17-shared-truth-test-stale"
        return None
    if mode == "index" and "TypeError" in what:
        return "C17-list-index-typeerror"  # status "fixed" (3d569da): a hit means the repair was reverted
    return None


def impl_facts():
    return {"classes": "per analysed lambda and closure cell: 0 bound value, 1 keyed element, 2 keyed function code, 3 untracked"}
