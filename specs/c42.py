"""C42 - polymorphic queries return each row as its most specific class.

Case format (tree):  [hier, tables, C, [wpk, wpl, sel, flag]]
  hier    [[parent (-1 root), polymorphic identity, joined (1 = own table, 0 = single-table onto the parent's)] ...]
          class i has one own column a<i>; the root table t0 has id, t (discriminator), a0
  tables  [[owner class, [[pk, discriminator | None, [[attr, value | None] ...]] ...]] ...]   raw table contents
  C       the queried class
  wpk     0 plain entity, 1 with_polymorphic(C, "*"), 2 with_polymorphic(C, [classes wpl])
  sel     classes given to selectin_polymorphic (empty: option not used)
  flag    0 | 1 with_polymorphic(aliased=True) | 2 with_polymorphic(flat=True)   (no effect on the result)
  optional 5th component [k, clear]: the classes k.. are mapped AFTER a first query of the (nearest mapped ancestor of
          the) queried class; clear = 1: engine.clear_compiled_cache() after the late mapping (ignored by the model)
Observation: [0, [[pk, class, attributes loaded by the query (before any attribute access), [[attr, value] ...]] ...]]
  | [1] InvalidRequestError | [2] AssertionError (unknown identity) | [3] with_polymorphic() refused the class list
  | [9, name] any other exception from the query | [8, name] an exception from an attribute access (never by the model)
"""
import itertools

from vlib.common import S, unS

ID = "C42"
LEVEL = "proof"
PROPS = "props/C42.v"
RUNNER = ("SAV.orm.PolyRun", "run_case")
STATIC_MODULES = ["SAV.orm.PolyRun"]
RULE = (
    "every hierarchy shape with <= 4 classes (parents before children) x every single/joined assignment, one "
    "object per class plus a second one of the last class, queried at every class with: no option, "
    'with_polymorphic("*"), with_polymorphic of each single subclass, selectin_polymorphic of each single '
    "subclass; plus random hierarchies (<= 8 classes, depth <= 3, width <= 3; all-single / all-joined / mixed) "
    "with 0..6 objects, NULL attribute values, shuffled table order, random class lists for with_polymorphic "
    "and selectin_polymorphic (also combined, also aliased=True / flat=True); plus rows whose discriminator is "
    "NULL / unknown / names another class with the same tables; plus hierarchies that grow after a first query (late "
    "subclasses, compiled cache cleared). Compared: result order, type(obj), the set of "
    "attributes present in obj.__dict__ right after the query, and every attribute value after access (which "
    "triggers the deferred loads). non-trivial = the queried class has a subclass with a stored object and a "
    "strict-subclass attribute is read"
)
TRUSTED = [
    "hand-written Gallina transcription (coq/orm/Poly.v) of the polymorphic part of orm/mapper.py "
    "(polymorphic_map, isa / iterate_to_root / self_and_descendants, _mappers_from_spec, "
    "_selectable_from_mappers, _single_table_criteria_component, _should_selectin_load, "
    "_iterate_to_target_viawpoly), orm/loading.py (_instance_processor incl. the registration of the "
    "per-subclass IN loaders and the _PostLoad bookkeeping, _decorate_polymorphic_switch, "
    "_load_subclass_via_in, _load_scalar_attributes), orm/context.py (_adjust_for_extra_criteria, "
    "_MapperEntity); pinned to the normalised source and compared with the implementation on every case",
    "SQL semantics of the emitted SELECT (inner / left outer joins on primary keys, IN with a NULL operand, "
    "ORDER BY id) as written in Poly.v (present, crit_ok, sort_rows); validated against SQLite through the "
    "correspondence",
    "the IN load of a subclass and the deferred load of an expired column are modelled as a lookup of the "
    "column by primary key in its table (the emitted statements also join the tables between that table and "
    "the object's class; the two coincide whenever those rows exist)",
]
ASSUMPTIONS = [
    "single-table and joined-table inheritance (also mixed in one hierarchy); concrete inheritance, "
    "polymorphic_union, mapper-level with_polymorphic / polymorphic_load, of_type() on relationships, "
    "polymorphic_abstract, classes without a polymorphic_identity, innerjoin=True are not modelled",
    "one integer primary key, integer discriminator stored in the root table, one own column per class; "
    "every class maps exactly its own and its ancestors' columns (exclude_properties lists the columns of "
    "other classes that share a table)",
    "one query per fresh Session (empty identity map); theorems about stored objects assume distinct primary "
    "keys and a row in every table on the path root..class (what the unit of work writes)",
]
ANCHORS = [
    ("lib/sqlalchemy/orm/mapper.py", "Mapper._mappers_from_spec"),
    ("lib/sqlalchemy/orm/mapper.py", "Mapper._selectable_from_mappers"),
    ("lib/sqlalchemy/orm/mapper.py", "Mapper._single_table_criteria_component"),
    ("lib/sqlalchemy/orm/mapper.py", "Mapper._single_table_criterion"),
    ("lib/sqlalchemy/orm/mapper.py", "Mapper._iterate_polymorphic_properties"),
    ("lib/sqlalchemy/orm/mapper.py", "Mapper._iterate_to_target_viawpoly"),
    ("lib/sqlalchemy/orm/mapper.py", "Mapper._should_selectin_load"),
    ("lib/sqlalchemy/orm/mapper.py", "Mapper._subclass_load_via_in"),
    ("lib/sqlalchemy/orm/mapper.py", "Mapper._optimized_get_statement"),
    ("lib/sqlalchemy/orm/mapper.py", "Mapper.isa"),
    ("lib/sqlalchemy/orm/mapper.py", "Mapper.iterate_to_root"),
    ("lib/sqlalchemy/orm/mapper.py", "Mapper.self_and_descendants"),
    ("lib/sqlalchemy/orm/mapper.py", "Mapper._configure_inheritance"),
    ("lib/sqlalchemy/orm/loading.py", "_instance_processor"),
    ("lib/sqlalchemy/orm/loading.py", "_decorate_polymorphic_switch"),
    ("lib/sqlalchemy/orm/loading.py", "_load_subclass_via_in"),
    ("lib/sqlalchemy/orm/loading.py", "_PostLoad"),
    ("lib/sqlalchemy/orm/loading.py", "_populate_full"),
    ("lib/sqlalchemy/orm/loading.py", "_populate_partial"),
    ("lib/sqlalchemy/orm/loading.py", "_load_scalar_attributes"),
    ("lib/sqlalchemy/orm/loading.py", "_setup_entity_query"),
    ("lib/sqlalchemy/orm/context.py", "_ORMSelectCompileState._adjust_for_extra_criteria"),
    ("lib/sqlalchemy/orm/context.py", "_MapperEntity"),
    ("lib/sqlalchemy/orm/util.py", "AliasedInsp._with_polymorphic_factory"),
    ("lib/sqlalchemy/orm/strategies.py", "_ColumnLoader.setup_query"),
    ("lib/sqlalchemy/orm/strategies.py", "_ColumnLoader.create_row_processor"),
    ("lib/sqlalchemy/orm/strategy_options.py", "_AbstractLoad.selectin_polymorphic"),
]


def translate(repo, outdir):
    from translate import fingerprint

    fingerprint.check(repo, ANCHORS, "C42")
    return []


# ------------------------------------------------------------------ hierarchy helpers (generator / oracle)
def _path(h, i):
    out = []
    while i >= 0:
        out.append(i)
        i = h[i][0]
    return out[::-1]


def _owner(h, i):
    while not h[i][2]:
        i = h[i][0]
    return i


def _desc(h, c):
    return [m for m in range(len(h)) if c in _path(h, m)]


def _tables_of(rng, h, objs, shuffle=True):
    """objs: [(pk, class, {attr: value})] -> raw tables as the unit of work would write them"""
    tabs = {o: [] for o in range(len(h)) if h[o][2]}
    for pk, K, vals in objs:
        byt = {}
        for a in _path(h, K):
            byt.setdefault(_owner(h, a), []).append([a, vals[a]])
        for o, vs in byt.items():
            tabs[o].append([pk, h[K][1] if o == 0 else None, vs])
    if shuffle:
        for o in tabs:
            rng.shuffle(tabs[o])
    return [[o, rows] for o, rows in sorted(tabs.items())]


def _shapes(n):
    """all parent vectors for n classes (parent index < own index)"""
    if n == 1:
        yield [-1]
        return
    for ps in itertools.product(*[range(i) for i in range(1, n)]):
        yield [-1] + list(ps)


def _gen_hier(rng, maxn, depth=3, width=3):
    n = rng.randint(1, maxn)
    h = [[-1, 10, 1]]
    d = [0]
    kids = [0]
    mode = rng.choice(["single", "joined", "mixed"])
    idents = rng.sample(range(11, 40), n)
    for i in range(1, n):
        cands = [p for p in range(i) if d[p] < depth and kids[p] < width]
        p = rng.choice(cands)
        j = {"single": 0, "joined": 1, "mixed": rng.randint(0, 1)}[mode]
        h.append([p, idents[i], j])
        d.append(d[p] + 1)
        kids.append(0)
        kids[p] += 1
    return h


VALS = [None, 0, 1, 2, 3, 7, -5]


def _gen_objs(rng, h, nobj):
    pks = rng.sample(range(1, 14), nobj)
    return [(pk, K, {a: rng.choice(VALS) for a in _path(h, K)}) for pk in pks for K in [rng.randrange(len(h))]]


def _gen_opt(rng, h, C):
    ds = [m for m in _desc(h, C) if m != C]
    k = rng.randrange(7)
    flag = rng.choice([0, 0, 1, 2])
    if k == 0 or (not ds and k >= 2):
        return [rng.choice([0, 1]), [], [], flag]
    if k == 1:
        return [1, [], [], flag]
    if k == 2:
        return [2, rng.sample(ds, rng.randint(1, len(ds))), [], flag]
    if k in (3, 4):
        return [0, [], rng.sample(ds, rng.randint(1, len(ds))), 0]
    if k == 5:
        return [1, [], rng.sample(ds, rng.randint(1, len(ds))), flag]
    return [2, rng.sample(ds, rng.randint(1, len(ds))), rng.sample(ds, rng.randint(1, len(ds))), flag]


def _corrupt(rng, h, tables):
    tabs = {o: [list(r) for r in rows] for o, rows in tables}
    if not tabs[0]:
        return tables
    r = rng.choice(tabs[0])
    k = rng.randrange(3)
    if k == 0:
        r[1] = None
    elif k == 1:
        r[1] = 99
    else:  # another class of the hierarchy whose tables all have a row for this key
        have = {o for o, rows in tabs.items() if any(x[0] == r[0] for x in rows)}
        cands = [K for K in range(len(h)) if {_owner(h, a) for a in _path(h, K)} <= have]
        r[1] = h[rng.choice(cands)][1]
    return [[o, rows] for o, rows in sorted(tabs.items())]


def gen_cases(rng, tier):
    cases = []
    # ---- small scope: every shape with <= 4 classes x every storage assignment
    for n in (1, 2, 3, 4):
        for ps in _shapes(n):
            for jm in range(1 << (n - 1)):
                h = [[ps[i], 10 + i, 1 if i == 0 else (jm >> (i - 1)) & 1] for i in range(n)]
                objs = [(i + 1, i, {a: 10 * (i + 1) + a for a in _path(h, i)}) for i in range(n)]
                objs.append((n + 1, n - 1, {a: (None if a == n - 1 else 5) for a in _path(h, n - 1)}))
                rng.shuffle(objs)
                tables = _tables_of(rng, h, objs, shuffle=False)
                for C in range(n):
                    ds = [m for m in _desc(h, C) if m != C]
                    opts = [[0, [], [], 0], [1, [], [], 0]]
                    opts += [[2, [m], [], 0] for m in ds] + [[0, [], [m], 0] for m in ds]
                    if tier != "thorough" and n == 4:
                        opts = opts[:2] + rng.sample(opts[2:], min(1, len(opts) - 2))
                    for o in opts:
                        cases.append({"in": [h, tables, C, o], "kind": "small%d" % n})
    # ---- random hierarchies
    nrand = 2500 if tier == "thorough" else 250
    for _ in range(nrand):
        h = _gen_hier(rng, 8)
        objs = _gen_objs(rng, h, rng.randint(0, 6))
        tables = _tables_of(rng, h, objs)
        kind = "random"
        if rng.random() < 0.2:
            tables = _corrupt(rng, h, tables)
            kind = "baddisc"
        for C in rng.sample(range(len(h)), min(len(h), 3)):
            cases.append({"in": [h, tables, C, _gen_opt(rng, h, C)], "kind": kind})
    # ---- deep chains: the registration order of the IN loaders matters (row order dependent eager set)
    for _ in range(150 if tier == "thorough" else 40):
        n = rng.randint(3, 5)
        h = [[i - 1, 10 + i, rng.choice([1, 1, 0]) if i else 1] for i in range(n)]
        objs = _gen_objs(rng, h, rng.randint(1, 5))
        tables = _tables_of(rng, h, objs)
        C = rng.randrange(0, n - 1)
        ds = list(range(C + 1, n))
        cases.append({"in": [h, tables, C, [0, [], rng.sample(ds, rng.randint(1, len(ds))), 0]], "kind": "chain"})
    # ---- hierarchies that grow after first use: map k classes, query, map the rest, (clear the compiled cache,) query
    for _ in range(400 if tier == "thorough" else 90):
        h = _gen_hier(rng, 7)
        if len(h) < 3:
            continue
        if rng.random() < 0.6:
            h = [[c[0], c[1], 1 if i == 0 else 0] for i, c in enumerate(h)]  # all single-table
        k = rng.randint(2, len(h) - 1)
        objs = _gen_objs(rng, h, rng.randint(1, 6))
        tables = _tables_of(rng, h, objs)
        C = rng.randrange(len(h))
        cases.append({"in": [h, tables, C, _gen_opt(rng, h, C), [k, 1]], "kind": "grow"})
    return cases


def search_cases(rng, tier):
    """the ordinary families, plus growing hierarchies without clearing the compiled cache (oracle only: the
    model has no statement cache)"""
    cases = gen_cases(rng, "quick")
    for c in list(cases):
        if c["kind"] == "grow" and rng.random() < 0.5:
            cases.append({"in": c["in"][:4] + [[c["in"][4][0], 0]], "kind": "grow-nocache-clear", "model": False})
    return cases


def nontrivial(c):
    h, tables, C, opt = c["in"][:4]
    idents = {h[m][1]: m for m in _desc(h, C) if m != C}
    root = next((rows for o, rows in tables if o == 0), [])
    return any(isinstance(r[1], int) and r[1] in idents for r in root)


# ------------------------------------------------------------------ implementation side
_MAPPED = {}


def _define(hier, Base, classes, lo, hi):
    """map the classes lo..hi-1 of the hierarchy (their parents are already in [classes])"""
    from sqlalchemy import Column, ForeignKey, Integer
    from sqlalchemy.orm import configure_mappers

    for i in range(lo, hi):
        p, ident, joined = hier[i]
        attrs = {}
        if p < 0:
            attrs.update(
                __tablename__="t0",
                id=Column(Integer, primary_key=True),
                t=Column(Integer),
                __mapper_args__={"polymorphic_on": "t", "polymorphic_identity": ident},
            )
            parent = Base
        else:
            parent = classes[p]
            if joined:
                attrs["__tablename__"] = "t%d" % i
                attrs["id"] = Column(ForeignKey("t%d.id" % _owner(hier, p)), primary_key=True)
            pth = _path(hier, i)
            attrs["__mapper_args__"] = {
                "polymorphic_identity": ident,
                # a class maps its own and its ancestors' columns only (not those of other classes that
                # share one of its tables)
                "exclude_properties": ["a%d" % j for j in range(i) if j not in pth],
            }
        attrs["a%d" % i] = Column(Integer)
        classes.append(type("C%d" % i, (parent,), attrs))
    configure_mappers()


def _build(hier):
    from sqlalchemy.orm import declarative_base

    key = tuple(tuple(c) for c in hier)
    if key in _MAPPED:
        return _MAPPED[key]
    Base = declarative_base()
    classes = []
    _define(hier, Base, classes, 0, len(hier))
    if len(_MAPPED) > 400:
        _MAPPED.clear()
    _MAPPED[key] = (Base, classes)
    return Base, classes


def _statement(classes, C, opt):
    """the query under test; None when with_polymorphic() refuses the class list"""
    from sqlalchemy import exc as sa_exc
    from sqlalchemy import select
    from sqlalchemy.orm import selectin_polymorphic, with_polymorphic

    wpk, wpl, sel, flag = opt
    cls = classes[C]
    kw = {1: {"aliased": True}, 2: {"flat": True}}.get(flag, {})
    try:
        if wpk == 1:
            ent = with_polymorphic(cls, "*", **kw)
        elif wpk == 2:
            ent = with_polymorphic(cls, [classes[k] for k in wpl], **kw)
        else:
            ent = cls
    except sa_exc.InvalidRequestError:
        return None
    st = select(ent)
    if sel:
        st = st.options(selectin_polymorphic(ent, [classes[k] for k in sel]))
    return st.order_by(ent.id)


def impl(c):
    import warnings

    from sqlalchemy import create_engine, insert, inspect, select
    from sqlalchemy import exc as sa_exc
    from sqlalchemy.orm import Session

    warnings.simplefilter("ignore")
    hier, tables, C, opt = c["in"][:4]
    grow = c["in"][4] if len(c["in"]) > 4 else None
    wpk, wpl, sel, flag = opt
    e = create_engine("sqlite://")
    try:
        if grow:
            # the hierarchy grows after it has been used: map the first k classes, run a query, map the rest
            from sqlalchemy import text
            from sqlalchemy.orm import declarative_base

            k, clear = grow
            Base, classes = declarative_base(), []
            _define(hier, Base, classes, 0, k)
            Base.metadata.create_all(e)
            c1 = C
            while c1 >= k:
                c1 = hier[c1][0]
            early = c1 == C and all(m < k for m in wpl + sel)
            st1 = _statement(classes, c1, opt if early else [0, [], [], 0])
            with Session(e) as s:
                if st1 is not None:
                    s.scalars(st1).all()
            _define(hier, Base, classes, k, len(hier))
            with e.begin() as conn:
                for i in range(k, len(hier)):
                    if not hier[i][2] and _owner(hier, i) < k:  # a late table is created with all its columns
                        conn.execute(text("ALTER TABLE t%d ADD COLUMN a%d INTEGER" % (_owner(hier, i), i)))
            if clear:
                e.clear_compiled_cache()
        else:
            Base, classes = _build(hier)
        Base.metadata.create_all(e)
        with e.begin() as conn:
            for owner, rows in tables:
                tbl = Base.metadata.tables["t%d" % owner]
                for pk, disc, vals in rows:
                    kw = {"id": pk}
                    if owner == 0:
                        kw["t"] = None if disc == [] else disc
                    for a, v in vals:
                        kw["a%d" % a] = None if v == [] else v
                    conn.execute(insert(tbl).values(**kw))
        with Session(e) as s:
            st = _statement(classes, C, opt)
            if st is None:
                return [3]
            try:
                objs = s.scalars(st).all()
            except AssertionError:
                return [2]
            except sa_exc.InvalidRequestError:
                return [1]
            except Exception as ex:  # anything else is not a documented outcome of a query
                return [9, S(type(ex).__name__)]
            out = []
            for o in objs:
                k = classes.index(type(o))
                d = inspect(o).dict
                pth = _path(hier, k)
                out.append([d.get("id"), k, [a for a in pth if "a%d" % a in d]])
            try:
                for rec, o in zip(out, objs):
                    rec.append([[a, getattr(o, "a%d" % a)] for a in _path(hier, rec[1])])
            except Exception as ex:  # a deferred load that fails
                return [8, S(type(ex).__name__)]
            return [0, out]
    finally:
        e.dispose()


# ------------------------------------------------------------------ the property, stated on the observation
def _objects(h, tables):
    """the stored objects, read off the tables; None when the tables are not the image of a set of objects
    (NULL / unknown discriminator, a missing or an orphan row) - such data is outside the property"""
    tabs = {o: rows for o, rows in tables}
    byid = {}
    for m, (p, ident, j) in enumerate(h):
        if ident in byid:
            return None
        byid[ident] = m
    objs = []
    seen = set()
    for pk, disc, _ in tabs.get(0, []):
        if disc in (None, []) or disc not in byid or pk in seen:
            return None
        seen.add(pk)
        K = byid[disc]
        vals = []
        for a in _path(h, K):
            rs = [r for r in tabs.get(_owner(h, a), []) if r[0] == pk]
            if len(rs) != 1:
                return None
            v = [x[1] for x in rs[0][2] if x[0] == a]
            vals.append([a, None if not v or v[0] == [] else v[0]])
        objs.append((pk, K, vals))
    for o, rows in tabs.items():
        for r in rows:
            ob = [x for x in objs if x[0] == r[0]]
            if not ob or o not in _path(h, ob[0][1]):
                return None
    return objs


def oracle(c, obs):
    h, tables, C, opt = c["in"][:4]
    objs = _objects(h, tables)
    if objs is None:
        return None
    if obs == [3]:
        return None if any(C not in _path(h, m) for m in opt[1]) else "with_polymorphic() refused subclasses %s of class %d" % (opt[1], C)
    want = sorted((pk, K, vals) for pk, K, vals in objs if C in _path(h, K))
    if obs[0] != 0:
        return "query of class %d with options %s raised (code %d%s) on well-formed data" % (
            C, opt, obs[0], " " + unS(obs[1]) if len(obs) > 1 else "")
    got = [(pk, K, [[a, None if v == [] else v] for a, v in vals]) for pk, K, _, vals in obs[1]]
    if sorted(x[0] for x in got) != [x[0] for x in want]:
        return "query of class %d returned primary keys %s, the rows of its subtree are %s" % (
            C, [x[0] for x in got], [x[0] for x in want])
    for g, w in zip(sorted(got), want):
        if g[1] != w[1]:
            return "row %d loaded as class %d, its discriminator names class %d" % (g[0], g[1], w[1])
        if g[2] != w[2]:
            return "object %d of class %d has attributes %s, stored %s (options %s)" % (g[0], g[1], g[2], w[2], opt)
    if [x[0] for x in got] != sorted(x[0] for x in got):
        return "ORDER BY id not respected: %s" % [x[0] for x in got]
    return None


def match_finding(c, what):
    if len(c["in"]) > 4:
        h, tables, C, opt, (k, clear) = c["in"]
        # the statement was compiled before the late classes existed and the compiled cache was not cleared
        if not clear and what.startswith("query of class") and "returned primary keys" in what and any(
            m >= k and not h[C][2] and h[C][0] >= 0 for m in _desc(h, C)
        ):
            return "C42-stale-in-list-in-compiled-cache"
    return None


LEVEL_TEXT = (
    "Machine-checked proof (Coq) over the Gallina transcription of the polymorphic query pipeline (FROM/WHERE of "
    "the entity incl. with_polymorphic outer joins and the single-table IN criterion, the discriminator switch, "
    "column population, selectin_polymorphic IN loads, deferred loads): for every well-formed hierarchy of any "
    "depth/width mixing single- and joined-table storage, every set of stored objects, every queried class and "
    "every with_polymorphic / selectin_polymorphic option, the query does not raise, returns exactly the objects "
    "of the subtree (as a multiset of primary keys, ordered by id), each as the class named by its discriminator "
    "(= polymorphic_map of the discriminator, for arbitrary table contents), with every attribute equal to the "
    "stored value whether it was loaded by the query, by an IN load or on access. Tied to the code by a source "
    "pin and a behavioural correspondence on exhaustive small and random larger hierarchies on SQLite."
)
LEVEL_NOTE = (
    "partial: concrete inheritance, of_type() on relationships, mapper-level with_polymorphic / polymorphic_load, "
    "polymorphic_abstract and pre-populated identity maps are not modelled. Trusted: Coq kernel; the hand "
    "transcription (pin + correspondence); SQLite as the referee for the join / IN / ORDER BY semantics. No axioms."
)
TECHNIQUE = "Coq proof (tree induction, join-presence invariant) over an executable model; source pin; small-scope exhaustive + random model/impl correspondence on SQLite; direct oracle"
