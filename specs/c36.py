"""C36 - attribute history reports exactly the net change since load.

Case format (tree):  [ckind, [okind, x0, b0, c0], ops]
  ckind  0 list, 1 set, 2 dict keyed by the child column k      (collection class of a.cs)
  okind  0 new object A(), 1 persistent with x, b, cs loaded, 2 persistent with b, cs unloaded
  x0 b0  initial column value / related object (0 = None);  c0 = ids of the initial children
  ops    [code, arg]: 0 a.x = arg | 1 del a.x | 2 a.x | 3 a.b = b[arg] | 4 del a.b | 5 a.b
         | 6 a.cs.append/add/set(c[arg]) | 7 a.cs.remove(c[arg]) | 8 a.cs = [c[i] for i in arg]
         | 9 del a.cs | 10 a.cs | 11 session.flush() | 12 session.expire(a)
         keyed dict only (k = key of child arg): 13 a.cs.pop(k) | 14 a.cs.pop(k, None) | 15 a.cs.popitem()
         | 16 del a.cs[k] | 17 a.cs.setdefault(k, c[arg]) | 18 a.cs.update({k_i: c[i] for i in arg}) | 19 a.cs.clear()
  ckind 3 (list of value objects), 4 and 5 are checked by the oracle only (no Coq model):
    4  a = Child with x = foreign key to the UNIQUE non-primary-key column Parent.code (value = number of
       the parent whose code it holds) and b = the many-to-one over it (deferred history: the old value
       is loaded on demand); ops 0, 3, 4, 11 (= flush + expire), 12
    5  a = parent whose collection cs is the target of a backref; 20 c[arg].parent = a and
       21 c[arg].parent = None reach the UNLOADED collection as queued (pending) mutations
Observation: one [rc, ret, hist x, hist b, hist cs, modified] per operation (coq/orm/HistoryRun.v);
a flush that raises ends the run.  Values: 0 = None, ints / object numbers positive.
"""
import itertools
import json

ID = "C36"
LEVEL = "proof"
PROPS = "props/C36.v"
RUNNER = ("SAV.orm.HistoryRun", "run_case")
STATIC_MODULES = ["SAV.orm.HistoryRun"]
RULE = (
    "all sequences of two operations from a 22-letter alphabet (assignments of 3 values, del, read on "
    "the scalar and the many-to-one; add/remove/bulk-replace/del/read on the collection; flush; expire) "
    "on a list collection for a new, a fully loaded and a partially loaded object, followed by a flush; "
    "the same for the 12 collection-related letters on set and keyed-dict collections; all triples over "
    "{expire, set, del, read, flush} per attribute (about 4400 sequences; quick: a seeded 1200 of them, "
    "thorough: all); 19 fixed sequences that reach every rarely taken branch of the model; plus random "
    "sequences of 3..8 operations with random initial rows (None values, empty collections, key "
    "collisions in the dict, duplicates in the list). non-trivial = some attribute is mutated at least "
    "twice and the sequence contains a delete or an assignment of the initial value (set-back)"
)
TRUSTED = [
    "hand-written Gallina transcription (coq/orm/History.v) of _AttributeImpl.get, the set/delete/"
    "get_history/fire_*_event methods of the three impl classes, History.from_*, InstanceState."
    "_modified_event/_commit/_commit_all_states/_expire/_load_expired, the append/remove decorators of "
    "list/set/dict collections and bulk_replace; pinned to the normalised source and compared "
    "behaviourally on every run through real mapped classes on in-memory SQLite",
    "the part of the unit of work that the model summarises in [flush] (many-to-one and one-to-many "
    "process_saves, _collect_update_commands, INSERT of a new object) and the many-to-one lazy loader's "
    "identity-map lookup are not pinned; they are tied by the correspondence only (database row compared "
    "after every flush)",
    "harness conventions: Session(autoflush=False); every related object is persistent and in the "
    "identity map; a single parent object; relationships without backref, default cascade, "
    "active_history=False, order_by=id",
]
ASSUMPTIONS = [
    "column values are None or small ints compared with ==; related objects compared by identity",
    "no event listener replaces values or raises; no backref (C37), no active_history, no deferred columns",
    "the bulk-replace value of a dict collection has distinct keys, of a set collection distinct members",
]
ANCHORS = [
    ("lib/sqlalchemy/orm/attributes.py", "History.from_scalar_attribute"),
    ("lib/sqlalchemy/orm/attributes.py", "History.from_object_attribute"),
    ("lib/sqlalchemy/orm/attributes.py", "History.from_collection"),
    ("lib/sqlalchemy/orm/attributes.py", "_AttributeImpl.get"),
    ("lib/sqlalchemy/orm/attributes.py", "_AttributeImpl._fire_loader_callables"),
    ("lib/sqlalchemy/orm/attributes.py", "_AttributeImpl.set_committed_value"),
    ("lib/sqlalchemy/orm/attributes.py", "_ScalarAttributeImpl.delete"),
    ("lib/sqlalchemy/orm/attributes.py", "_ScalarAttributeImpl.get_history"),
    ("lib/sqlalchemy/orm/attributes.py", "_ScalarAttributeImpl.set"),
    ("lib/sqlalchemy/orm/attributes.py", "_ScalarObjectAttributeImpl.delete"),
    ("lib/sqlalchemy/orm/attributes.py", "_ScalarObjectAttributeImpl.get_history"),
    ("lib/sqlalchemy/orm/attributes.py", "_ScalarObjectAttributeImpl.set"),
    ("lib/sqlalchemy/orm/attributes.py", "_ScalarObjectAttributeImpl.fire_remove_event"),
    ("lib/sqlalchemy/orm/attributes.py", "_ScalarObjectAttributeImpl.fire_replace_event"),
    ("lib/sqlalchemy/orm/attributes.py", "_CollectionAttributeImpl.get_history"),
    ("lib/sqlalchemy/orm/attributes.py", "_CollectionAttributeImpl.fire_append_event"),
    ("lib/sqlalchemy/orm/attributes.py", "_CollectionAttributeImpl.fire_remove_event"),
    ("lib/sqlalchemy/orm/attributes.py", "_CollectionAttributeImpl.delete"),
    ("lib/sqlalchemy/orm/attributes.py", "_CollectionAttributeImpl._default_value"),
    ("lib/sqlalchemy/orm/attributes.py", "_CollectionAttributeImpl.set"),
    ("lib/sqlalchemy/orm/attributes.py", "_CollectionAttributeImpl.set_committed_value"),
    ("lib/sqlalchemy/orm/attributes.py", "_CollectionAttributeImpl.get_collection"),
    ("lib/sqlalchemy/orm/state.py", "PendingCollection"),
    ("lib/sqlalchemy/orm/attributes.py", "_CollectionAttributeImpl.append"),
    ("lib/sqlalchemy/orm/attributes.py", "_CollectionAttributeImpl.remove"),
    ("lib/sqlalchemy/orm/state.py", "InstanceState._modified_event"),
    ("lib/sqlalchemy/orm/state.py", "InstanceState._commit"),
    ("lib/sqlalchemy/orm/state.py", "InstanceState._commit_all_states"),
    ("lib/sqlalchemy/orm/state.py", "InstanceState._expire"),
    ("lib/sqlalchemy/orm/state.py", "InstanceState._load_expired"),
    ("lib/sqlalchemy/orm/collections.py", "CollectionAdapter._reset_empty"),
    ("lib/sqlalchemy/orm/collections.py", "CollectionAdapter.fire_append_event"),
    ("lib/sqlalchemy/orm/collections.py", "CollectionAdapter.fire_remove_event"),
    ("lib/sqlalchemy/orm/collections.py", "CollectionAdapter.fire_append_wo_mutation_event"),
    ("lib/sqlalchemy/orm/collections.py", "CollectionAdapter.clear_with_event"),
    ("lib/sqlalchemy/orm/collections.py", "bulk_replace"),
    ("lib/sqlalchemy/orm/collections.py", "__set"),
    ("lib/sqlalchemy/orm/collections.py", "__del"),
    ("lib/sqlalchemy/orm/collections.py", "_list_decorators.append"),
    ("lib/sqlalchemy/orm/collections.py", "_list_decorators.remove"),
    ("lib/sqlalchemy/orm/collections.py", "_set_decorators.add"),
    ("lib/sqlalchemy/orm/collections.py", "_set_decorators.remove"),
    ("lib/sqlalchemy/orm/collections.py", "_dict_decorators.__setitem__"),
    ("lib/sqlalchemy/orm/collections.py", "_dict_decorators.__delitem__"),
    ("lib/sqlalchemy/orm/collections.py", "_dict_decorators.pop"),
    ("lib/sqlalchemy/orm/collections.py", "_dict_decorators.popitem"),
    ("lib/sqlalchemy/orm/collections.py", "_dict_decorators.setdefault"),
    ("lib/sqlalchemy/orm/collections.py", "_dict_decorators.update"),
    ("lib/sqlalchemy/orm/collections.py", "_dict_decorators.clear"),
    ("lib/sqlalchemy/orm/collections.py", "__before_pop"),
    ("lib/sqlalchemy/orm/collections.py", "CollectionAdapter.fire_pre_remove_event"),
    ("lib/sqlalchemy/orm/attributes.py", "_CollectionAttributeImpl.fire_pre_remove_event"),
    ("lib/sqlalchemy/orm/mapped_collection.py", "KeyFuncDict.set"),
    ("lib/sqlalchemy/orm/mapped_collection.py", "KeyFuncDict.remove"),
    ("lib/sqlalchemy/orm/dependency.py", "_ManyToOneDP.process_saves"),
    ("lib/sqlalchemy/orm/dependency.py", "_OneToManyDP.process_saves"),
]

NB = 3
NC = 4
CKEY = {1: 1, 2: 2, 3: 1, 4: 3}  # children 1 and 3 share a dict key

SETX, DELX, GETX, SETB, DELB, GETB, CADD, CREM, CREPL, CDEL, CGET, FLUSH, EXPIRE = range(13)
CPOP, CPOPD, CPOPITEM, CDELKEY, CSETDEFAULT, CUPDATE, CCLEAR = range(13, 20)
_DICT_OPS = (CPOP, CPOPD, CPOPITEM, CDELKEY, CSETDEFAULT, CUPDATE, CCLEAR)
BSETP, BUNSET = 20, 21


def translate(repo, outdir):
    from translate import fingerprint

    fingerprint.check(repo, ANCHORS, "C36")
    return []


# --------------------------------------------------------------------------------------------
# generator
_ALPHABET = (
    [[SETX, v] for v in (0, 1, 2)]
    + [[DELX, 0], [GETX, 0]]
    + [[SETB, v] for v in (0, 1, 2)]
    + [[DELB, 0], [GETB, 0]]
    + [[CADD, o] for o in (1, 2, 3)]
    + [[CREM, o] for o in (1, 3)]
    + [[CREPL, l] for l in ([], [2, 3], [1])]
    + [[CDEL, 0], [CGET, 0], [FLUSH, 0], [EXPIRE, 0]]
)
_COLL_LETTERS = [o for o in _ALPHABET if o[0] in (CADD, CREM, CREPL, CDEL, CGET, FLUSH, EXPIRE)]
_DICT_LETTERS = (
    [[c, o] for c in (CPOP, CPOPD, CDELKEY, CSETDEFAULT) for o in (1, 3, 4)]
    + [[CPOPITEM, 0], [CCLEAR, 0]]
    + [[CUPDATE, l] for l in ([], [1], [3], [2, 4], [3, 2])]
)


def _fix_repl(kind, l):
    if kind == 1:
        return sorted(set(l))
    if kind == 2:
        seen, out = set(), []
        for o in l:
            if CKEY[o] not in seen:
                seen.add(CKEY[o])
                out.append(o)
        return out
    return list(l)


def _rand_case(rng):
    kind = rng.randint(0, 2)
    okind = rng.randint(0, 2)
    if okind == 0:
        init = [0, 0, 0, []]
    else:
        c0 = [i for i in (1, 2, 3, 4) if rng.random() < 0.4]
        if kind == 2 and 1 in c0 and 3 in c0:
            c0.remove(3)
        init = [okind, rng.choice([0, 1, 2]), rng.choice([0, 1, 2]), c0]
    ops = []
    for _ in range(rng.randint(3, 8)):
        code = rng.choice([0, 0, 1, 2, 3, 3, 4, 5, 6, 6, 7, 7, 8, 9, 10, 11, 12])
        if code in (SETX, SETB):
            arg = rng.choice([0, 1, 2, 3])
        elif code in (CADD, CREM):
            arg = rng.randint(1, 4)
            if kind == 2 and rng.random() < 0.5:
                code = rng.choice([CPOP, CPOPD, CDELKEY, CSETDEFAULT, CPOPITEM, CCLEAR, CUPDATE])
                if code == CUPDATE:
                    arg = _fix_repl(2, [rng.randint(1, 4) for _ in range(rng.randint(0, 3))])
        elif code == CREPL:
            arg = _fix_repl(kind, [rng.randint(1, 4) for _ in range(rng.randint(0, 3))])
        else:
            arg = 0
        ops.append([code, arg])
    return {"in": [kind, init, ops], "kind": "random"}


# sequences that reach the rarely taken branches of the model; always part of the run
_CORE = [
    # KeyError("Deferred loader ... failed to populate") when reading a deleted, expired column
    (0, [1, 1, 1, [1, 2]], [[EXPIRE, 0], [DELX, 0], [GETX, 0], [GETX, 0]]),
    (0, [1, 1, 1, [1, 2]], [[EXPIRE, 0], [SETX, 2], [DELX, 0], [GETX, 0], [SETX, 1], [FLUSH, 0]]),
    # many-to-one: old value from the identity map / PASSIVE_NO_RESULT / NO_VALUE
    (0, [2, 1, 1, []], [[SETB, 2], [SETB, 1], [FLUSH, 0]]),
    (0, [2, 1, 2, []], [[EXPIRE, 0], [SETB, 3], [DELB, 0], [GETB, 0], [FLUSH, 0]]),
    (0, [0, 0, 0, []], [[FLUSH, 0], [SETB, 2], [DELB, 0], [GETB, 0], [SETB, 0], [FLUSH, 0]]),
    (0, [0, 0, 0, []], [[DELB, 0], [SETB, 1], [DELB, 0], [DELB, 0], [FLUSH, 0], [GETB, 0]]),
    (0, [1, 1, 0, []], [[SETB, 1], [SETB, 0], [DELB, 0], [FLUSH, 0]]),
    # flush: UPDATE of an expired object reloads the unmodified columns
    (0, [1, 1, 1, [1]], [[EXPIRE, 0], [SETX, 2], [FLUSH, 0], [GETB, 0], [SETX, 2], [FLUSH, 0]]),
    (0, [1, 1, 1, [1]], [[EXPIRE, 0], [SETB, 2], [FLUSH, 0], [GETX, 0], [EXPIRE, 0], [SETB, 2], [FLUSH, 0]]),
    (0, [1, 1, 1, [1]], [[EXPIRE, 0], [CGET, 0], [DELX, 0], [SETX, 1], [FLUSH, 0]]),
    # collections: the special empty collection, duplicates, failed removals, key collisions
    (0, [0, 0, 0, []], [[CGET, 0], [CREM, 1], [CADD, 1], [CADD, 1], [CREM, 1], [FLUSH, 0], [CREM, 1], [FLUSH, 0]]),
    (1, [0, 0, 0, []], [[CREM, 1], [CADD, 2], [CADD, 2], [CADD, 1], [CREM, 2], [FLUSH, 0]]),
    (2, [1, 1, 1, [1, 2]], [[CADD, 3], [CREM, 1], [CREM, 4], [CADD, 1], [CREM, 1], [FLUSH, 0]]),
    (2, [2, 1, 1, [2, 3]], [[CREPL, [1, 4]], [CADD, 3], [CADD, 3], [FLUSH, 0], [CDEL, 0], [CGET, 0]]),
    (0, [2, 1, 1, [1, 2]], [[CREPL, [2, 3, 3]], [CREM, 3], [EXPIRE, 0], [CREPL, [1, 2]], [FLUSH, 0]]),
    (1, [1, 1, 1, [1, 2]], [[CDEL, 0], [CDEL, 0], [CADD, 3], [FLUSH, 0]]),
    (0, [1, 1, 1, [1, 2]], [[CDEL, 0], [CREM, 3], [CGET, 0]]),
    (0, [1, 1, 1, []], [[EXPIRE, 0], [EXPIRE, 0], [FLUSH, 0], [GETX, 0], [DELX, 0], [DELX, 0]]),
    (0, [0, 0, 0, []], [[EXPIRE, 0], [GETX, 0], [GETB, 0], [SETX, 0], [DELX, 0], [DELX, 0], [FLUSH, 0], [EXPIRE, 0]]),
]


def _families():
    inits = [[0, 0, 0, []], [1, 1, 1, [1, 2]], [2, 1, 1, [1, 2]]]
    for init in inits:
        for a, b in itertools.product(_ALPHABET, repeat=2):
            ops = [a, b] + ([[FLUSH, 0]] if b[0] != FLUSH else [])
            yield {"in": [0, init, ops], "kind": "pairs-list"}
    for kind in (1, 2):
        for init in inits:
            for a, b in itertools.product(_COLL_LETTERS, repeat=2):
                ops = [[a[0], _fix_repl(kind, a[1]) if a[0] == CREPL else a[1]],
                       [b[0], _fix_repl(kind, b[1]) if b[0] == CREPL else b[1]]]
                if b[0] != FLUSH:
                    ops.append([FLUSH, 0])
                yield {"in": [kind, init, ops], "kind": "pairs-set" if kind == 1 else "pairs-dict"}
    # keyed dict: every instrumented method as the FIRST mutation after load / flush / expire,
    # followed by a second one and a flush
    for init in inits + [[1, 1, 1, [2, 3]], [2, 1, 1, []]]:
        for a in _DICT_LETTERS:
            yield {"in": [2, init, [list(a), [FLUSH, 0]]], "kind": "dict-first"}
            yield {"in": [2, init, [[FLUSH, 0], [EXPIRE, 0], list(a), [FLUSH, 0], list(a)]], "kind": "dict-first"}
    for init in inits:
        for a, b in itertools.product(_DICT_LETTERS + [[CADD, 3], [CGET, 0]], repeat=2):
            yield {"in": [2, init, [list(a), list(b), [FLUSH, 0]]], "kind": "pairs-dictops"}
    tx = [[EXPIRE, 0], [SETX, 2], [DELX, 0], [GETX, 0], [FLUSH, 0]]
    tb = [[EXPIRE, 0], [SETB, 2], [DELB, 0], [GETB, 0], [FLUSH, 0]]
    tc = [[EXPIRE, 0], [CADD, 3], [CREM, 1], [CDEL, 0], [CGET, 0], [FLUSH, 0], [CREPL, [2, 3]]]
    for fam, letters in (("triples-x", tx), ("triples-b", tb), ("triples-c", tc)):
        for init in inits:
            for ops in itertools.product(letters, repeat=3):
                yield {"in": [0, init, [list(o) for o in ops]], "kind": fam}


def _value_object_cases():
    """list collection whose members define __eq__/__hash__ by value (children 1 and 3 are equal):
    swapping a member for an equal one is a change; checked by the oracle only (no Coq model)"""
    letters = [[CREPL, [3]], [CREPL, [3, 2]], [CREPL, [1]], [CADD, 3], [CADD, 1], [CGET, 0], [FLUSH, 0], [EXPIRE, 0]]
    for init in ([1, 1, 1, [1]], [1, 1, 1, [1, 2]], [2, 1, 1, [3]], [0, 0, 0, []]):
        for a, b in itertools.product(letters, repeat=2):
            yield {"in": [3, init, [list(a), list(b), [FLUSH, 0]]], "kind": "value-objects", "model": False}


def _deferred_cases():
    """ckind 4: foreign key column edited by hand around a re-assignment of the deferred-history many-to-one"""
    letters = [[SETX, 2], [SETX, 0], [SETB, 3], [SETB, 2], [SETB, 0], [DELB, 0], [FLUSH, 0], [EXPIRE, 0]]
    for okind in (1, 2):
        for x0 in (1, 0):
            for n in (1, 2, 3):
                for ops in itertools.product(letters, repeat=n):
                    yield {"in": [4, [okind, x0, 0, []], [list(o) for o in ops] + [[FLUSH, 0]]],
                           "kind": "deferred-m2o", "model": False}


def _pending_cases():
    """ckind 5: scalar-side assignments queue up for the unloaded collection, which is then loaded"""
    # (no expire here: an expired parent cannot be found by the child's backref without SQL - that is
    # the unloaded-side exception of C37, not a history question)
    letters = [[BSETP, 3], [BSETP, 1], [BUNSET, 1], [BUNSET, 2], [CGET, 0], [CADD, 4], [CREM, 2], [FLUSH, 0]]
    for okind in (2, 1):
        for c0 in ([1, 2], []):
            for n in (2, 3):
                for ops in itertools.product(letters, repeat=n):
                    yield {"in": [5, [okind, 0, 0, c0], [list(o) for o in ops] + [[CGET, 0], [FLUSH, 0]]],
                           "kind": "pending-backref", "model": False}


def gen_cases(rng, tier):
    cases = [{"in": [k, list(i), [list(o) for o in ops]], "kind": "core"} for k, i, ops in _CORE]
    cases += [
        {"in": [4, [2, 1, 0, []], [[SETX, 2], [SETB, 3], [FLUSH, 0]]], "kind": "deferred-m2o", "model": False},
        {"in": [5, [2, 0, 0, [1, 2]], [[BSETP, 3], [BUNSET, 1], [CGET, 0], [FLUSH, 0]]], "kind": "pending-backref", "model": False},
    ]
    for fam, n in ((list(_deferred_cases()), 150), (list(_pending_cases()), 200)):
        cases += fam if tier == "thorough" else rng.sample(fam, n)
    vo = list(_value_object_cases())
    cases += vo if tier == "thorough" else rng.sample(vo, 100)
    fam = list(_families())
    if tier != "thorough":
        first = [c for c in fam if c["kind"] == "dict-first"]
        fam = first + rng.sample([c for c in fam if c["kind"] != "dict-first"], 1100)
    cases += fam
    nrand = 12000 if tier == "thorough" else 700
    for _ in range(nrand):
        cases.append(_rand_case(rng))
    seen, out = set(), []
    for c in cases:
        k = json.dumps(c["in"])
        if k not in seen:
            seen.add(k)
            out.append(c)
    return out


def nontrivial(c):
    _kind, init, ops = c["in"]
    muts = {"x": 0, "b": 0, "c": 0}
    special = False
    for code, arg in ops:
        if code in (SETX, DELX):
            muts["x"] += 1
            special |= code == DELX or arg == init[1]
        elif code in (SETB, DELB):
            muts["b"] += 1
            special |= code == DELB or arg == init[2]
        elif code in (CADD, CREM, CREPL, CDEL) + _DICT_OPS:
            muts["c"] += 1
            special |= code in (CREM, CDEL, CPOP, CPOPD, CPOPITEM, CDELKEY, CCLEAR) or (
                code == CREPL and sorted(arg) == sorted(init[3]))
    return special and max(muts.values()) >= 2


# --------------------------------------------------------------------------------------------
# implementation side
_ENV = {}
_EXC = {"AttributeError": 1, "KeyError": 2, "ValueError": 3, "InvalidRequestError": 4}


def impl_setup():
    if _ENV:
        return
    from sqlalchemy import Column, ForeignKey, Integer, create_engine
    from sqlalchemy.orm import Session, attribute_keyed_dict, declarative_base, relationship
    from sqlalchemy.pool import StaticPool

    Base = declarative_base()

    class B(Base):
        __tablename__ = "b"
        id = Column(Integer, primary_key=True)

    classes = {}
    for kind in (0, 1, 2, 3):
        body = {
            "__tablename__": "c%d" % kind,
            "id": Column(Integer, primary_key=True),
            "k": Column(Integer),
            "aid": Column(ForeignKey("a%d.id" % kind)),
        }
        if kind == 3:  # value objects: children 1 and 3 compare (and hash) equal
            body["__eq__"] = lambda self, other: isinstance(other, type(self)) and self.k == other.k
            body["__hash__"] = lambda self: hash(self.k)
        C = type("C%d" % kind, (Base,), body)
        ccls = [list, set, attribute_keyed_dict("k"), list][kind]
        A = type(
            "A%d" % kind,
            (Base,),
            {
                "__tablename__": "a%d" % kind,
                "id": Column(Integer, primary_key=True),
                "x": Column(Integer),
                "bid": Column(ForeignKey("b.id")),
                "b": relationship(B),
                "cs": relationship(C, collection_class=ccls, order_by=C.id),
            },
        )
        classes[kind] = (A, C)
    class DP(Base):  # parent addressed through a unique non-primary-key column
        __tablename__ = "dp"
        id = Column(Integer, primary_key=True)
        code = Column(Integer, unique=True, nullable=False)

    class DC(Base):
        __tablename__ = "dc"
        id = Column(Integer, primary_key=True)
        pcode = Column(ForeignKey("dp.code"))
        parent = relationship(DP)

    class BP(Base):  # bidirectional pair: the collection side receives backref events
        __tablename__ = "bp"
        id = Column(Integer, primary_key=True)
        children = relationship("BC", back_populates="parent", order_by="BC.id")

    class BC(Base):
        __tablename__ = "bc"
        id = Column(Integer, primary_key=True)
        pid = Column(ForeignKey("bp.id"))
        parent = relationship(BP, back_populates="children")

    e = create_engine("sqlite://", poolclass=StaticPool, connect_args={"autocommit": False})
    Base.metadata.create_all(e)
    with Session(e) as s:
        s.add_all([DP(id=i, code=10 * i) for i in (1, 2, 3)])
        s.add(BP(id=2))
        s.add_all([B(id=i) for i in range(1, NB + 1)])
        for kind in (0, 1, 2, 3):
            s.add_all([classes[kind][1](id=i, k=CKEY[i]) for i in range(1, NC + 1)])
        s.commit()
    _ENV.update(B=B, classes=classes, e=e, DP=DP, DC=DC, BP=BP, BC=BC)


def _dec(v):
    return None if v == 0 else v


def _hist3(st, key, enc):
    try:
        h = getattr(st.attrs, key).history
        return [sorted(enc(v) for v in part) for part in h]
    except Exception:
        return [[-9], [], []]


def _impl_deferred(case):
    """ckind 4: many-to-one to a unique non-pk column (deferred history), FK column edited by hand"""
    import warnings

    from sqlalchemy import exc as sa_exc
    from sqlalchemy import inspect, text
    from sqlalchemy.orm import Session

    _ckind, init, ops = case["in"]
    okind, x0, _b0, _c0 = init
    DP, DC, e = _ENV["DP"], _ENV["DC"], _ENV["e"]
    warnings.simplefilter("ignore")
    with e.connect() as conn:
        conn.execute(text("delete from dc"))
        conn.execute(text("insert into dc (id, pcode) values (1, :c)"), {"c": 10 * x0 if x0 else None})
        conn.commit()
    out = []
    with Session(e, autoflush=False) as s:
        ps = {p.id: p for p in s.query(DP).all()}
        pidx = {id(p): i for i, p in ps.items()}
        a = s.get(DC, 1)
        if okind == 1:
            a.parent
        st = inspect(a)
        for code, arg in ops:
            rc, ret = 0, []
            try:
                if code == SETX:
                    a.pcode = 10 * arg if arg else None
                elif code == SETB:
                    a.parent = ps[arg] if arg else None
                elif code == DELB:
                    del a.parent
                elif code == FLUSH:
                    s.flush()
                    r = s.execute(text("select pcode from dc where id=1")).scalar()
                    v = (r or 0) // 10
                    ret = [1, v, v, []]
                    s.expire(a)
                elif code == EXPIRE:
                    s.expire(a)
                else:
                    raise NotImplementedError(code)
            except (AttributeError, KeyError, ValueError, sa_exc.InvalidRequestError) as ex:
                rc = _EXC.get(type(ex).__name__, 4)
                if code == FLUSH:
                    out.append([rc, [], [], [], [], 0])
                    break
            out.append([rc, ret, _hist3(st, "pcode", lambda v: (v or 0) // 10),
                        _hist3(st, "parent", lambda v: 0 if v is None else pidx[id(v)]), [[], [], []], int(st.modified)])
        s.rollback()
    return out


def _impl_pending(case):
    """ckind 5: backref events from the scalar side reach an unloaded collection (pending mutations)"""
    import warnings

    from sqlalchemy import exc as sa_exc
    from sqlalchemy import inspect, text
    from sqlalchemy.orm import Session

    _ckind, init, ops = case["in"]
    okind, _x0, _b0, c0 = init
    BP, BC, e = _ENV["BP"], _ENV["BC"], _ENV["e"]
    warnings.simplefilter("ignore")
    with e.connect() as conn:
        conn.execute(text("delete from bc"))
        conn.execute(text("delete from bp where id = 1"))
        conn.execute(text("insert into bp (id) values (1)"))
        for i in range(1, NC + 1):
            conn.execute(text("insert into bc (id, pid) values (:i, :p)"), {"i": i, "p": 1 if i in c0 else None})
        conn.commit()
    out = []
    with Session(e, autoflush=False) as s:
        cs = {c.id: c for c in s.query(BC).order_by(BC.id).all()}
        cid = {id(c): i for i, c in cs.items()}
        a = s.get(BP, 1)
        if okind == 1:
            a.children
        st = inspect(a)
        for code, arg in ops:
            rc, ret = 0, []
            try:
                if code == BSETP:
                    cs[arg].parent = a
                elif code == BUNSET:
                    cs[arg].parent = None
                elif code == CADD:
                    a.children.append(cs[arg])
                elif code == CREM:
                    a.children.remove(cs[arg])
                elif code == CGET:
                    ret = [cid[id(v)] for v in a.children]
                elif code == FLUSH:
                    s.flush()
                    ch = [r[0] for r in s.execute(text("select id from bc where pid=1 order by id")).all()]
                    ret = [1, 0, 0, ch]
                elif code == EXPIRE:
                    s.expire(a)
                else:
                    raise NotImplementedError(code)
            except (AttributeError, KeyError, ValueError, sa_exc.InvalidRequestError) as ex:
                rc = _EXC.get(type(ex).__name__, 4)
                if code == FLUSH:
                    out.append([rc, [], [], [], [], 0])
                    break
            out.append([rc, ret, [[], [], []], [[], [], []], _hist3(st, "children", lambda v: cid[id(v)]), int(st.modified)])
        s.rollback()
    return out


def impl(case):
    import warnings

    from sqlalchemy import exc as sa_exc
    from sqlalchemy import inspect, text
    from sqlalchemy.orm import Session

    impl_setup()
    ckind, init, ops = case["in"]
    if ckind == 4:
        return _impl_deferred(case)
    if ckind == 5:
        return _impl_pending(case)
    okind, x0, b0, c0 = init
    A, C = _ENV["classes"][ckind]
    B = _ENV["B"]
    e = _ENV["e"]
    warnings.simplefilter("ignore")
    out = []
    with e.connect() as conn:
        conn.execute(text("delete from a%d" % ckind))
        conn.execute(text("update c%d set aid = null" % ckind))
        if okind != 0:
            conn.execute(
                text("insert into a%d (id, x, bid) values (1, :x, :b)" % ckind), {"x": _dec(x0), "b": _dec(b0)}
            )
            for i in c0:
                conn.execute(text("update c%d set aid=1 where id=%d" % (ckind, i)))
        conn.commit()
    with Session(e, autoflush=False) as s:
        bs = {b.id: b for b in s.query(B).all()}
        cs = {c.id: c for c in s.query(C).order_by(C.id).all()}
        cid = {id(c): i for i, c in cs.items()}
        bidx = {id(b): i for i, b in bs.items()}
        if okind == 0:
            a = A()
        else:
            a = s.get(A, 1)
            if okind == 1:
                a.b
                a.cs
        st = inspect(a)

        def encv(v):
            return 0 if v is None else v

        def encb(v):
            return 0 if v is None else bidx[id(v)]

        def encc(v):
            return cid[id(v)]

        def H(key, enc, sort=False):
            try:
                h = getattr(st.attrs, key).history
                [enc(v) for part in h for v in part]
            except Exception:  # inspecting the history must not raise
                return [[-9], [], []]
            r = []
            for part in h:
                l = [enc(v) for v in part]
                if sort:
                    l.sort()
                r.append(l)
            return r

        def coll_items():
            c = a.__dict__.get("cs")
            if c is None:
                return [-1]
            l = [cid[id(v)] for v in (c.values() if ckind == 2 else c)]
            if ckind == 1:
                l.sort()
            return l

        def dbstate():
            r = s.execute(text("select x, bid from a%d where id=1" % ckind)).all()
            ch = [row[0] for row in s.execute(text("select id from c%d where aid=1 order by id" % ckind)).all()]
            if not r:
                return [0, 0, 0, ch]
            return [1, encv(r[0][0]), encv(r[0][1]), ch]

        for code, arg in ops:
            rc = 0
            ret = []
            try:
                if code == SETX:
                    a.x = _dec(arg)
                elif code == DELX:
                    del a.x
                elif code == GETX:
                    ret = [encv(a.x)]
                elif code == SETB:
                    a.b = None if arg == 0 else bs[arg]
                elif code == DELB:
                    del a.b
                elif code == GETB:
                    ret = [encb(a.b)]
                elif code == CADD:
                    if ckind in (0, 3):
                        a.cs.append(cs[arg])
                    elif ckind == 1:
                        a.cs.add(cs[arg])
                    else:
                        a.cs.set(cs[arg])
                elif code == CREM:
                    a.cs.remove(cs[arg])
                elif code == CREPL:
                    if ckind in (0, 3):
                        a.cs = [cs[i] for i in arg]
                    elif ckind == 1:
                        a.cs = {cs[i] for i in arg}
                    else:
                        a.cs = {CKEY[i]: cs[i] for i in arg}
                elif code == CDEL:
                    del a.cs
                elif code == CGET:
                    a.cs
                    ret = coll_items()
                elif code == FLUSH:
                    if not st.persistent and a not in s:
                        a.id = 1
                        s.add(a)
                    s.flush()
                    ret = dbstate()
                elif code == EXPIRE:
                    s.expire(a)
                elif code == CPOP:
                    a.cs.pop(CKEY[arg])
                elif code == CPOPD:
                    a.cs.pop(CKEY[arg], None)
                elif code == CPOPITEM:
                    a.cs.popitem()
                elif code == CDELKEY:
                    del a.cs[CKEY[arg]]
                elif code == CSETDEFAULT:
                    a.cs.setdefault(CKEY[arg], cs[arg])
                elif code == CUPDATE:
                    a.cs.update({CKEY[i]: cs[i] for i in arg})
                elif code == CCLEAR:
                    a.cs.clear()
                else:
                    raise NotImplementedError(code)
            except (AttributeError, KeyError, ValueError, sa_exc.InvalidRequestError) as ex:
                rc = _EXC.get(type(ex).__name__, 4)
                if code == FLUSH:
                    out.append([rc, [], [], [], [], 0])
                    break
            out.append([rc, ret, H("x", encv), H("b", encb), H("cs", encc, ckind == 1), int(st.modified)])
        s.rollback()
    return out


# --------------------------------------------------------------------------------------------
# oracle: the property itself.  After every operation, for each of the three attributes, the history
# must be the net difference between the value the attribute had at the last synchronisation point
# (load / flush / expire) and its current value; an operation that raised must not change what is
# reported as added / deleted; a flush must leave the current values in the database.
_MISSING = "missing"


def _diff_scalar(base, cur, obj):
    """allowed (added, deleted) pairs; base: ("K", v) | "U";  cur: value or _MISSING"""
    if base == "U":
        if cur is _MISSING:
            return [([0], [])] + ([([], [])] if obj else [])
        return [([cur], [])]
    p = base[1]
    if cur is _MISSING:
        if obj and p == 0:
            return [([0], []), ([], [])]
        return [([], [p])]
    if cur == p:
        return [([], [])]
    return [([cur], [] if (obj and p == 0) else [p])]


def _diff_coll(base, cur):
    if cur is _MISSING:
        cur = []
    if base == "U":
        return [(sorted(cur), [])]
    p = base[1]
    return [(sorted(o for o in cur if o not in p), sorted(o for o in p if o not in cur))]


def _coll_apply(kind, cur, code, arg):
    """Python semantics of the collection operation on the members (list of child numbers)"""
    cur = list(cur)
    if code == CADD:
        if kind in (0, 3, 5):
            cur.append(arg)
        elif kind == 1:
            if arg not in cur:
                cur.append(arg)
        else:
            cur = [arg if CKEY[o] == CKEY[arg] else o for o in cur]
            if arg not in cur:
                cur.append(arg)
    elif code == CREM:
        if arg in cur:
            cur.remove(arg)
    elif code == CREPL:
        cur = list(arg)
    elif code in (CPOP, CPOPD, CDELKEY):
        cur = [o for o in cur if CKEY[o] != CKEY[arg]]
    elif code == CPOPITEM:
        cur = cur[:-1]
    elif code == CSETDEFAULT:
        if not any(CKEY[o] == CKEY[arg] for o in cur):
            cur.append(arg)
    elif code == CUPDATE:
        for v in arg:
            cur = [v if CKEY[o] == CKEY[v] else o for o in cur]
            if v not in cur:
                cur.append(v)
    elif code == CCLEAR:
        cur = []
    return cur


def oracle(case, obs):
    kind, init, ops = case["in"]
    okind, x0, b0, c0 = init
    persistent = okind != 0
    db = {"x": x0 if persistent else 0, "b": b0 if persistent else 0, "c": sorted(c0) if persistent else []}
    # per attribute: loaded (lower bound), dirty, base candidates, cur (value | _MISSING | None = as in db)
    st = {}
    if kind == 4:
        db["b"] = db["x"]  # the many-to-one follows the foreign key x (both are numbers of parents)
    for k in "xbc":
        loaded = okind == 1 or (okind == 2 and k == "x")
        st[k] = {"loaded": loaded, "dirty": False, "bases": None, "cur": None, "cdel": False}
    prev = {"x": ([], []), "b": ([], []), "c": ([], [])}
    delx_persistent_missing = False
    truth = set(c0)  # kind 5: the children whose own parent attribute points at a

    def view(k):
        c = st[k]["cur"]
        return db[k] if c is None else c

    def mutate(k, newcur):
        a = st[k]
        if not a["dirty"]:
            v = view(k)
            known = ("K", sorted(v) if k == "c" else v)
            if k == "c" and v is _MISSING:
                known = ("K", [])
            if a["loaded"] and persistent:
                a["bases"] = [known]
            elif not persistent:
                a["bases"] = ["U", known] if k != "c" else [known]
            else:
                a["bases"] = ["U", known]
            a["dirty"] = True
        a["cur"] = newcur

    for n, ((code, arg), o) in enumerate(zip(ops, obs)):
        rc = o[0]
        where = "step %d %s" % (n, [code, arg])
        if code == FLUSH and rc != 0:
            tag = "[flush-after-del] " if delx_persistent_missing else ""
            return "%s%s: flush raised (rc=%d)" % (tag, where, rc)
        hs = {"x": o[2], "b": o[3], "c": o[4]}
        for k in "xbc":
            if hs[k] == [[-9], [], []]:
                return "%s: reading the history of %s raised" % (where, k)
        if rc != 0:
            for k in "xbc":
                got = (sorted(hs[k][0]), sorted(hs[k][2]))
                if kind == 5 and k == "c" and not st["c"]["loaded"]:
                    prev[k] = got  # the failed remove() loaded the collection: queued changes become visible
                    continue
                if got != (sorted(prev[k][0]), sorted(prev[k][1])):
                    tag = "[failed-delete] " if (code == DELX and k == "x" and rc == 1) else ""
                    if k == "c" and st["c"]["cdel"]:
                        tag = "[collection-del] "  # the deleted collection's history surfaces only now
                    return "%s%s raised (rc=%d) but the history of %s changed from %s to %s" % (
                        tag, where, rc, k, prev[k], got)
            if code in (CREM, CPOP, CPOPITEM, CDELKEY) and persistent and not st["c"]["dirty"]:
                st["c"]["loaded"] = True  # a.cs was read before remove() raised
            continue
        # ---- the operation succeeded: its meaning for the user ----
        if code == SETX:
            mutate("x", arg)
        elif code == DELX:
            mutate("x", _MISSING)
        elif code == GETX:
            pass  # may or may not load (a flushed new object keeps x absent): "loaded" stays a lower bound
        elif code == SETB:
            mutate("b", arg)
        elif code == DELB:
            mutate("b", _MISSING)
        elif code == GETB:
            pass
        elif code in (CADD, CREM, CREPL) + _DICT_OPS:
            cur = view("c")
            cur = [] if cur is _MISSING else cur
            new = _coll_apply(kind, cur, code, arg)
            if code != CREPL and persistent and not st["c"]["dirty"]:
                st["c"]["loaded"] = True  # a.cs was read
            if kind == 5:
                truth = (truth | {arg}) if code == CADD else (truth - {arg})
            if kind == 1 and code == CADD and arg in cur:
                pass  # adding a present member: no change
            elif code in _DICT_OPS and new == cur:
                pass  # pop of a missing key with a default, setdefault / update of present entries, ...
            else:
                mutate("c", new)
        elif code == CDEL:
            if st["c"]["loaded"] or st["c"]["dirty"]:
                if view("c") not in (_MISSING, []) or st["c"]["dirty"]:
                    st["c"]["cdel"] = True
                    mutate("c", _MISSING)
        elif code in (BSETP, BUNSET):
            truth = (truth | {arg}) if code == BSETP else (truth - {arg})
            # the scalar side of a bidirectional pair is assigned: a gains / loses the child
            cur = view("c")
            cur = [] if cur is _MISSING else list(cur)
            new = (cur + [arg] if arg not in cur else cur) if code == BSETP else [o_ for o_ in cur if o_ != arg]
            if new != cur:
                mutate("c", new)
        elif code == CGET:
            if (not st["c"]["dirty"] or kind == 5) and persistent:
                st["c"]["loaded"] = True
        elif code == EXPIRE:
            for k in "xbc":
                st[k] = {"loaded": False, "dirty": False, "bases": None, "cur": None, "cdel": False}
        elif code == FLUSH:
            want = {}
            for k in "xbc":
                v = view(k)
                if v is _MISSING:
                    v = [] if k == "c" else 0
                want[k] = sorted(set(v)) if k == "c" else v
            got = {"x": o[1][1], "b": o[1][2], "c": sorted(o[1][3])}
            if kind == 5:
                want["c"] = sorted(truth)  # the children's foreign keys are written from their own side
            if kind == 4:
                # one column behind both attributes: an assigned relationship decides, else the column
                if st["b"]["dirty"]:
                    want["x"] = got["x"] if (st["x"]["dirty"] and got["x"] == want["x"]) else want["b"]
                    want["b"] = want["x"]
                else:
                    want["b"] = want["x"]
            for k in "xbc":
                if got[k] != want[k]:
                    tag = "[collection-del] " if (k == "c" and st["c"]["cdel"]) else ""
                    return "%s%s: after the flush the database has %s=%s, the object has %s" % (
                        tag, where, k, got[k], want[k])
            persistent = True
            db = want
            for k in "xbc":
                a = st[k]
                present = a["loaded"] or (a["dirty"] and a["cur"] is not _MISSING)
                keep = a["cur"] if (a["dirty"] and a["cur"] is not _MISSING) else None
                if a["dirty"] and a["cur"] is _MISSING:
                    present = False
                if kind == 5 and k == "c":
                    present = a["loaded"]  # queued mutations do not load the collection
                # the object keeps its in-memory value (a list may hold duplicates the database cannot)
                st[k] = {"loaded": present, "dirty": False, "bases": None, "cur": keep, "cdel": False}
                if kind == 4:  # this flush is followed by an expire
                    st[k] = {"loaded": False, "dirty": False, "bases": None, "cur": None, "cdel": False}
        delx_persistent_missing = persistent and st["x"]["dirty"] and st["x"]["cur"] is _MISSING
        # ---- the histories ----
        for k in "xbc":
            a = st[k]
            got = (sorted(hs[k][0]), sorted(hs[k][2]))
            if kind == 4 and k == "b" and st["x"]["dirty"] and "U" in st["x"]["bases"]:
                prev[k] = got  # the foreign key was overwritten while expired: the old parent is unknowable
                continue
            if not a["dirty"]:
                allowed = [([], [])]
            else:
                allowed = []
                for bse in a["bases"]:
                    if k == "c":
                        allowed += _diff_coll(bse, a["cur"])
                    else:
                        allowed += [(sorted(x), sorted(y)) for x, y in _diff_scalar(bse, a["cur"], k == "b")]
            if kind == 5 and k == "c" and not a["loaded"]:
                # AttributeState.history never loads: an unloaded collection reports nothing, whatever
                # is queued for it; the net difference is due as soon as the collection is loaded
                allowed.append(([], []))
                if got == ([], []) and not hs[k][1]:
                    prev[k] = got
                    continue
            if got not in allowed:
                tag = ""
                if k == "c" and a["cdel"]:
                    tag = "[collection-del] "
                return "%s%s: history of %s reports added/deleted %s, the net change is %s" % (
                    tag, where, k, got, allowed)
            # unchanged part: members of the current value that are not added
            if a["dirty"] and a["cur"] is not _MISSING:
                cur = a["cur"] if k == "c" else [a["cur"]]
                want_un = sorted(v for v in cur if v not in got[0])
                if sorted(hs[k][1]) != want_un:
                    return "%s: history of %s reports unchanged %s, expected %s" % (where, k, hs[k][1], want_un)
            prev[k] = got
    return None


def match_finding(case, what):
    _kind, init, ops = case["in"]
    codes = [o[0] for o in ops]
    if what.startswith("[failed-delete]") and DELX in codes:
        return "C36-failed-delete-changes-history"
    if what.startswith("[flush-after-del]") and DELX in codes and FLUSH in codes:
        return "C36-flush-after-del-keyerror"
    if what.startswith("[collection-del]") and CDEL in codes:
        return "C36-del-collection-history-blank"
    return None


LEVEL_TEXT = (
    "Machine-checked proof (Coq) over an executable model of one mapped object with a column attribute, a "
    "many-to-one and a list/set/dict collection: for every sequence of assignments, deletions, reads and "
    "collection mutations the history equals the declarative net difference against the value at load "
    "(capture-on-first-change invariant, unbounded induction over the sequence), with the missing-previous-"
    "value cases spelled out; set-back restores 'unchanged'; across flush/expire the captured value is the "
    "database value in every reachable state; flush resets the history and persists the current values. "
    "Three defects of the unchanged code are proved as _refuted/_guarded pairs."
)
LEVEL_NOTE = (
    "Trusted: Coq kernel; the hand transcription (source pin of 45 functions + behavioural correspondence "
    "on ~2000 operation sequences per run, histories, modified flag and database row compared after every "
    "operation); the summary of the unit of work inside [flush]. No axioms."
)
TECHNIQUE = (
    "Coq: invariant + frame lemmas + induction over operation sequences; source pin; small-scope exhaustive "
    "and random model/implementation correspondence on SQLite; direct net-difference oracle"
)
