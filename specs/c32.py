"""C32 - a failed flush leaves the database untouched and the session recoverable."""
from specs import c33 as B

ID = "C32"
LEVEL = "proof"
PROPS = "props/C32.v"
RUNNER = ("SAV.orm.FlushFailRun", "run_case")
STATIC_MODULES = ["SAV.orm.FlushFailRun"]
RULE = (
    "the histories of C33 (new+add, add, o.v=x, o.id=pk, delete, flush, begin_nested, Session.commit/"
    "rollback, handle.commit/rollback, close, read o.v; expire_on_commit on and off; mapped class "
    "T(id primary key, v) on a SQLite file) extended with FAULTY flushes: (a) the DBAPI cursor reports "
    "OperationalError for the (k+1)-th INSERT/UPDATE/DELETE of the flush after the statement ran "
    "(do_execute/do_executemany hooks; inside an executemany batch the first rows are really executed), "
    "for EVERY k from 0 to the number of statements of the flush (and beyond: no failure); (b) an "
    "exception raised by the before_flush, after_flush or after_flush_postexec listener; (c) real "
    "IntegrityErrors (duplicate primary key on INSERT or on a primary-key UPDATE). Families: 2 database "
    "setups x 10 transactions x all fault positions x 6 continuations (rollback; rollback+reads; use "
    "while the rollback is pending; re-run of the same changes + flush + commit, compared with a "
    "failure-free reference run executed on the implementation), the same inside a savepoint with "
    "handle.rollback / Session.rollback / handle.commit continuations, after a savepoint that was released "
    "before the failure, and random C33 histories in which "
    "flushes are replaced by faulty ones. Observed after EVERY operation: as C33 (exception class, every "
    "object's lifecycle state/identity key/loaded values/modified/deleted/expired, transaction flags, "
    "rows seen by a second connection, rows seen by the session's own connection). "
    "non-trivial = the injected failure fired after at least one statement of the flush had run and the "
    "session was rolled back afterwards"
)
TRUSTED = B.TRUSTED + [
    "the crash oracle of coq/orm/FlushFail.v (exec_f): a driver failure is reported after the statement "
    "took effect; the position counts INSERT/UPDATE/DELETE statements only (SELECTs and SAVEPOINT "
    "commands of the flush never fail)",
]
ASSUMPTIONS = [
    "as C33; in addition: ROLLBACK / ROLLBACK TO SAVEPOINT succeed after the failure (the connection "
    "survives it: no disconnect handling); the failure does not happen inside the rollback itself",
]
ANCHORS = B.ANCHORS + [
    ("lib/sqlalchemy/orm/unitofwork.py", "UOWTransaction.execute"),
    ("lib/sqlalchemy/orm/persistence.py", "_emit_update_statements"),
    ("lib/sqlalchemy/orm/persistence.py", "_emit_insert_statements"),
    ("lib/sqlalchemy/orm/persistence.py", "_emit_delete_statements"),
]

NEW, ADD, SETV, SETPK, DEL, FLUSH, NESTED, COMMIT, ROLLBACK, TCOMMIT, TROLLBACK, CLOSE, LOAD = range(13)
FLUSHF = B.FLUSHF
K_STMT, K_PRE, K_AFTER, K_POST = 0, 1, 2, 3
E_FAULT, E_EVENT = B.E_FAULT, B.E_EVENT
OPNAMES = B.OPNAMES


def translate(repo, outdir):
    """source pin + the declare_states table the model's error path depends on"""
    import os
    from translate import fingerprint

    fingerprint.check(repo, ANCHORS, "C32")
    tab = B._declared_table(repo)
    body = "; ".join("(%d, [%s], %d)" % (m, "; ".join(str(x) for x in pre), mv) for m, pre, mv in tab)
    src = (
        "(* generated on every run from the declare_states decorators of orm/session.py SessionTransaction - do not edit *)\n"
        "From Coq Require Import List ZArith.\nImport ListNotations.\nOpen Scope Z_scope.\n"
        "From SAV.orm Require Import SessTxn.\n\n"
        "Definition gen_states : list smrow := [ %s ].\n\n"
        "Lemma gen_states_ok : gen_states = declared.\nProof. vm_compute; reflexivity. Qed.\n" % body
    )
    p = os.path.join(outdir, "Gen_C32.v")
    with open(p, "w") as fh:
        fh.write(src)
    return [p]


# ---------------- generators --------------------------------------------------------------------
def _faults(maxk):
    return [[FLUSHF, K_STMT, k] for k in range(maxk + 1)] + [[FLUSHF, K_PRE, 0], [FLUSHF, K_AFTER, 0], [FLUSHF, K_POST, 0]]


_SETUPS = [
    [],
    [[NEW, 0, 1, 0], [NEW, 1, 2, 1], [COMMIT]],
]
# transactions over the second setup (objects 0 and 1 persistent, rows 1 and 2); new objects from index 2
_TXNS = [
    [[SETV, 0, 2], [SETV, 1, 3], [NEW, 2, 3, 1], [NEW, 3, 4, 2]],
    [[DEL, 0], [DEL, 1], [NEW, 2, 3, 0]],
    [[SETPK, 0, 3], [SETV, 1, 2], [NEW, 2, 4, 0]],
    [[NEW, 2, 3, 0], [NEW, 3, 1, 0]],                       # the second INSERT collides with row 1
    [[SETPK, 0, 2]],                                        # primary-key UPDATE onto an existing row
    [[SETPK, 0, 3], [FLUSH], [SETPK, 0, 4], [NEW, 2, 5, 1]],
    [[NEW, 2, 3, 0], [FLUSH], [SETPK, 2, 4], [SETV, 0, 3]],  # a new object that switches its key
    [[DEL, 0], [FLUSH], [NEW, 2, 1, 3], [SETV, 1, 0]],
    [[SETV, 0, 1], [FLUSH], [DEL, 0], [NEW, 2, 3, 2]],
    [[NEW, 2, 3, 0], [FLUSH], [DEL, 2], [FLUSH], [SETV, 0, 3]],   # inserted and deleted in the same transaction
]
# over the empty setup (objects from index 0)
_TXNS0 = [
    [[NEW, 0, 1, 0], [NEW, 1, 2, 1], [NEW, 2, 3, 2]],
    [[NEW, 0, 1, 0], [FLUSH], [SETV, 0, 2], [NEW, 1, 2, 1]],
    [[NEW, 0, 1, 0], [NEW, 1, 1, 1]],
    [[NEW, 0, 1, 0], [FLUSH], [DEL, 0], [FLUSH], [NEW, 1, 2, 1]],
]


def _redo(txn):
    """the same changes once more after a rollback: the objects exist already, so new -> add"""
    out = []
    for o in txn:
        if o[0] == NEW:
            out.append([ADD, o[1]])
        else:
            out.append(list(o))
    return out


def _tails(txn, nobj):
    loads = [[LOAD, i] for i in range(min(nobj, 3))]
    return [
        ("rollback", [[ROLLBACK]] + loads),
        ("pending-use", [[LOAD, 0], [FLUSH], [COMMIT], [ROLLBACK]] + loads),
        ("pending-modify", [[SETV, 0, 3], [NEW, nobj, 7, 7], [ROLLBACK]] + loads),
        ("close", [[CLOSE]]),
        ("rollback-commit", [[ROLLBACK], [COMMIT]] + loads),
    ]


def _nobj(ops):
    return sum(1 for o in ops if o[0] == NEW)


def gen_cases(rng, tier):
    thorough = tier == "thorough"
    cases = []

    def add(eoc, ops, kind, **kw):
        if ops and B.in_scope(eoc, ops):
            c = {"in": [int(eoc), [list(o) for o in ops]], "kind": kind}
            c.update(kw)
            cases.append(c)

    fam = []
    for si, setup in enumerate(_SETUPS):
        for txn in (_TXNS if si == 1 else _TXNS0):
            fam.append((setup, txn))
    for eoc in (1, 0):
        for setup, txn in fam:
            n = _nobj(setup + txn)
            for ft in _faults(4):
                pre = setup + txn + [ft]
                for name, tail in _tails(txn, n):
                    if not thorough and name in ("close", "rollback-commit", "pending-modify") and rng.random() < 0.6:
                        continue
                    add(eoc, pre + tail, "fault-" + name)
                # re-run of the same changes after the rollback, against a failure-free reference run
                redo = _redo(txn)
                a = pre + [[ROLLBACK]] + redo + [[FLUSH], [COMMIT]] + [[LOAD, i] for i in range(min(n, 4))]
                b = setup + txn + [[FLUSH], [COMMIT]] + [[LOAD, i] for i in range(min(n, 4))]
                add(eoc, a, "rerun", ref=b)
                # inside a savepoint
                if thorough or rng.random() < 0.5:
                    for name, tail in (("sp-hrollback", [[TROLLBACK, 0], [LOAD, 0], [COMMIT]]),
                                       ("sp-rollback", [[ROLLBACK], [LOAD, 0]]),
                                       ("sp-hcommit", [[TCOMMIT, 0], [TROLLBACK, 0], [FLUSH], [COMMIT]])):
                        add(eoc, setup + [[NESTED]] + txn + [ft] + tail, "fault-" + name)
                    # the savepoint is released, the failure comes later in the enclosing transaction
                    add(eoc, setup + [[NESTED]] + txn + [[FLUSH], [TCOMMIT, 0], [NEW, n, 8, 8], ft, [ROLLBACK]]
                        + [[LOAD, i] for i in range(min(n, 3))], "fault-sp-released")
                    if len(txn) >= 2:
                        add(eoc, setup + txn[:1] + [[NESTED]] + txn[1:] + [ft, [TROLLBACK, 0]] + _redo(txn[1:]) + [[FLUSH], [COMMIT]],
                            "fault-sp-rerun")
    # random C33 histories with faulty flushes
    nrand = 6000 if thorough else 500
    for k in range(nrand):
        mode = 0 if k % 3 == 0 else 1
        n = rng.randint(3, 24 if thorough else 12)
        ops = B._rand_hist(rng, n, mode)
        out = []
        for o in ops:
            if o[0] == FLUSH and rng.random() < 0.7:
                o = rng.choice(_faults(3))
            out.append(o)
            if o[0] == FLUSHF and rng.random() < 0.5:
                out.append([ROLLBACK])
            elif o[0] in (SETV, SETPK, DEL, NEW) and rng.random() < 0.2:
                out.append(rng.choice(_faults(3)))
        add(rng.randint(0, 1), out, "random-fault")
    return cases


def nontrivial(c):
    eoc, ops = c["in"]
    try:
        out, _ = B.py_run(eoc, ops)
    except B.OutOfScope:
        return False
    fired = False
    for op, rec in zip(ops, out):
        if op[0] == FLUSHF and (rec[0] == E_FAULT and op[2] >= 1 or rec[0] == E_EVENT and op[1] != K_PRE):
            fired = True
        elif fired and op[0] in (ROLLBACK, TROLLBACK) and rec[0] == 0:
            return True
    return False


# ---------------- implementation side ----------------------------------------------------------
_F = {"k": None, "ev": None}


class _InjectedEventError(Exception):
    pass


def impl_setup():
    import sqlite3

    from sqlalchemy import event, exc

    B.impl_setup()
    eng = B._ENV["eng"]

    def is_dml(stmt):
        return stmt.lstrip()[:6].upper() in ("INSERT", "UPDATE", "DELETE")

    def tick():
        if _F["k"] == 0:
            _F["k"] = None
            raise sqlite3.OperationalError("injected driver failure")
        _F["k"] -= 1

    @event.listens_for(eng, "do_execute")
    def _do_execute(cursor, statement, parameters, context):
        if _F["k"] is None or not is_dml(statement):
            return None
        cursor.execute(statement, parameters)
        tick()
        return True

    @event.listens_for(eng, "do_executemany")
    def _do_executemany(cursor, statement, parameters, context):
        if _F["k"] is None or not is_dml(statement):
            return None
        if _F["k"] >= len(parameters):      # the failure is not in this batch: the driver runs it as usual
            _F["k"] -= len(parameters)
            return None
        for p in parameters:                # the batch stops at the failing row: the rows before it are in
            cursor.execute(statement, p)
            tick()
        return True

    def on_session(s):
        def mk(name):
            def fn(*a, **kw):
                if _F["ev"] == name:
                    _F["ev"] = None
                    raise _InjectedEventError(name)
            return fn

        for name in ("before_flush", "after_flush", "after_flush_postexec"):
            event.listen(s, name, mk(name))

    def flushf(s, op):
        kind, k = op[1], op[2]
        try:
            if kind == K_STMT:
                _F["k"] = k
            else:
                _F["ev"] = {K_PRE: "before_flush", K_AFTER: "after_flush", K_POST: "after_flush_postexec"}[kind]
            s.flush()
        finally:
            _F["k"] = None
            _F["ev"] = None

    def code_ext(ex):
        if isinstance(ex, _InjectedEventError):
            return E_EVENT
        if isinstance(ex, exc.OperationalError) and "injected driver failure" in str(ex):
            return E_FAULT
        return None

    B._ENV.update(on_session=on_session, flushf=flushf, code_ext=code_ext)


def impl(c):
    return B.impl(c)


# ---------------- the property, stated directly on the observation ------------------------------
_FAILS = (E_FAULT, E_EVENT, B.E_INTEG, B.E_STALE, B.E_OBJDEL)


def _agree(rec, W, where):
    """every persistent object has its row and its loaded values equal it; nothing pending; no object in
    the deleted state whose row exists"""
    for o, (lc, key, did, dv, modf, indel, exp) in enumerate(rec[1]):
        if lc == 2:
            if key not in W:
                return "%s: object %d is persistent with identity %s but there is no such row" % (where, o, key)
            if did != [] and not modf and did != key:
                return "%s: object %d loaded id %s != identity %s" % (where, o, did, key)
            if dv != [] and not modf and dv != W[key]:
                return "%s: object %d loaded v %s != row value %s" % (where, o, dv, W[key])
        elif lc == 3:
            if key in W and not any(x[0] == 2 and x[1] == key for x in rec[1]):
                return "%s: object %d is in the deleted state but row %s exists" % (where, o, key)
        elif lc == 1:
            return "%s: object %d still pending" % (where, o)
    return None


def oracle(c, obs):
    """C32 on the implementation.  (1) rows visible to a second connection change only by Session.commit -
    in particular not by a failing flush nor by the rollback after it.  (2) after a flush failed inside
    its subtransaction and the session (or the savepoint it happened in) was rolled back, the rows are
    the ones from before the transaction (savepoint), every persistent object agrees with them, no object
    is pending, and every object that was pending when the flush failed is transient again.  (3) a
    successful flush makes the connection's rows equal the user-visible table before it (also when it is
    the re-run after a failure); for re-run cases the final observation equals the one of the
    failure-free reference run executed on the implementation."""
    if obs is None:
        return None
    eoc, ops = c["in"]
    prev = None
    failed_at = None          # step of the last flush failure not yet rolled back
    pending_then = []
    saved = {}
    nh = 0
    begin_lc = []             # lifecycle of every object when the current outer transaction began
    hstack = []               # begin_nested handles on the transaction stack, outermost first
    for i, (op, rec) in enumerate(zip(ops, obs)):
        k = op[0]
        code = rec[0]
        W = B._W(rec)
        comm = {r[0]: r[1] for r in rec[3]}
        pcomm = {r[0]: r[1] for r in prev[3]} if prev is not None else {}
        name = "step %d (%s)" % (i, OPNAMES[k])
        if comm != pcomm and k != COMMIT:
            return "%s: committed data changed outside Session.commit: %s -> %s" % (name, sorted(pcomm.items()), sorted(comm.items()))
        if code in (B.E_ILLEGAL, B.E_ASSERT, 99):
            return "%s: internal error class %d" % (name, code)
        if k == NESTED:
            if code == 0:
                saved[nh] = dict(W)
                hstack.append(nh)
            nh += 1
        if k in (FLUSH, FLUSHF) and code in _FAILS and prev is not None and not (k == FLUSHF and op[1] == K_PRE and code == E_EVENT):
            # the flush ran into an error inside its subtransaction
            failed_at = i
            pending_then = [o for o, x in enumerate(prev[1]) if x[0] == 1]
            if rec[2][0] != 1:
                return "%s: no transaction after the failed flush" % name
            # the partial effects are gone from the connection at once: rows as at the innermost savepoint
            # (as committed, without savepoint)
            if rec[4][0]:
                exp_rows = saved[hstack[-1]] if hstack else pcomm
                if W != exp_rows:
                    return "%s: rows on the connection after the failed flush %s != rows at the %s %s" % (
                        name, sorted(W.items()), "savepoint" if hstack else "start of the transaction", sorted(exp_rows.items()))
        if failed_at is not None and failed_at != i and code == 0 and (k == COMMIT or k == TCOMMIT and op[1] in hstack):
            return "%s: commit succeeded although the flush failure of step %d was not rolled back" % (name, failed_at)
        if failed_at is not None and failed_at != i and k in (FLUSH, FLUSHF, NESTED) and code == 0 and any(x[0] == 1 or x[0] == 2 and (x[4] or x[5]) for x in prev[1]):
            return "%s: flush succeeded although the flush failure of step %d was not rolled back" % (name, failed_at)
        if k in (FLUSH, FLUSHF) and code == 0 and prev is not None and failed_at is None:
            L = B._logical(prev)
            if rec[4][0] and W != L:
                return "%s: rows after the flush %s != user-visible table before it %s" % (name, sorted(W.items()), sorted(L.items()))
        if k == ROLLBACK and code == 0:
            if rec[2][0] != 0:
                return "%s: still in a transaction" % name
            if W != pcomm:
                return "%s: rows %s != committed rows %s" % (name, sorted(W.items()), sorted(pcomm.items()))
            for o, x in enumerate(rec[1]):
                if x[0] in (1, 2) and (x[4] or x[5]):
                    return "%s: object %d still modified / marked deleted after the rollback" % (name, o)
            if failed_at is not None:
                r = _agree(rec, W, name + " after the failed flush of step %d" % failed_at)
                if r:
                    return r
                for o in pending_then:
                    if rec[1][o][0] != 0:
                        return "%s: object %d was pending when the flush of step %d failed and is not transient after the rollback (lifecycle %d, key %s)" % (
                            name, o, failed_at, rec[1][o][0], rec[1][o][1])
                for o, x in enumerate(rec[1]):
                    if (o >= len(begin_lc) or begin_lc[o] == 0) and x[0] != 0:
                        return "%s: object %d was added in the rolled back transaction (flush of step %d failed) and is not transient after the rollback (lifecycle %d, key %s)" % (
                            name, o, failed_at, x[0], x[1])
            failed_at = None
        if k == TROLLBACK and code == 0 and op[1] in hstack:
            if failed_at is not None:
                if op[1] == hstack[-1] and rec[4][0] and W != saved[op[1]]:
                    return "%s: rows %s != rows when the savepoint was taken %s" % (name, sorted(W.items()), sorted(saved[op[1]].items()))
                r = _agree(rec, W, name + " after the failed flush of step %d" % failed_at)
                if r:
                    return r
                failed_at = None
            del hstack[hstack.index(op[1]):]
        if k == TCOMMIT and code == 0 and op[1] in hstack:
            del hstack[hstack.index(op[1]):]
        if k in (COMMIT, ROLLBACK, CLOSE) and code == 0:
            hstack = []
        if k in (COMMIT, CLOSE) and code == 0:
            failed_at = None
        if k in (COMMIT, ROLLBACK, CLOSE) and code == 0:
            begin_lc = [x[0] for x in rec[1]]
        prev = rec
    if c.get("ref") is not None:
        ref = B.impl({"in": [eoc, c["ref"]]})
        a, b = obs[-1], ref[-1]
        if a[0] != b[0] or a[1] != b[1] or a[3] != b[3]:
            return "re-run after the failure differs from the failure-free run: %s vs %s" % (a, b)
    return None


_FINDING_OF_GUARD = {
    "g1": "C32-inherits-C33-outer-savepoint-rollback",
    "g5": "C32-inherits-C33-delete-of-deleted",
    "g6": "C32-inherits-C33-deleted-stays-attached",
}


def match_finding(c, what):
    import re

    m = re.match(r"step (\d+)", what)
    if not m:
        return None
    i = int(m.group(1))
    eoc, ops = c["in"]
    try:
        out, flags = B.py_run(eoc, ops)
    except B.OutOfScope:
        return None
    m2 = re.search(r"object (\d+) was (?:pending|added) .* is not transient after the rollback \(lifecycle 4", what)
    if m2:
        # known only where the transcription of _restore_snapshot reproduces it: the expunged object is in
        # _key_switches and gets its old key back
        o = int(m2.group(1))
        if out[i][1][o][0] == 4:
            return "C32-expunged-object-with-key-switch-left-detached"
        return None
    return _FINDING_OF_GUARD.get(flags[i])


LEVEL_TEXT = (
    "Machine-checked proofs (Coq) over the executable session model of C33 extended with a crash oracle "
    "inside Session.flush (failure reported by the driver after the k-th INSERT/UPDATE/DELETE ran, for every "
    "k; exceptions from before_flush / after_flush / after_flush_postexec; real IntegrityError / "
    "StaleDataError), for EVERY history of guarded C33 operations and faulty flushes (any number of failures, "
    "also inside savepoints): nothing_committed - neither the failing flush nor the rollback after it changes "
    "what other connections see, and after Session.rollback() the connection shows exactly the committed "
    "rows; after_rollback_objects_agree_with_db - the rollback succeeds and leaves every persistent object "
    "equal to its row, nothing pending/modified/marked deleted; the failing flush keeps the C33 invariant "
    "(the transaction is untouched or DEACTIVE with its snapshot restored), so the re-run is covered by the "
    "C33 theorems. Tied to the code by a source pin and by comparison with the implementation after every "
    "operation with failures injected at every statement position."
)
LEVEL_NOTE = (
    "partial. rerun_equals_failure_free_run is proved only as 'the states after the failing flush and after the "
    "rollback are states of guarded histories again (same objects and handles, clean, no transaction)'; that the "
    "re-run writes the same rows as a failure-free run is checked on the implementation against reference runs "
    "(oracle), not proved. The claim 'objects added in the rolled-back transaction are transient again' is "
    "checked by the oracle only (its former counterexample, finding C32-expunged-object-with-key-switch-left-"
    "detached, is repaired in 6d10bc4 and kept as a positive Example). The histories are the guarded ones of "
    "C33 (guard clauses g1 g5 g6 = the open C33 findings, and no object operation while a failed flush waits "
    "for rollback). Crash oracle: the driver failure is reported AFTER the statement took effect and positions "
    "count INSERT/UPDATE/DELETE only; a failure inside a savepoint while later statements of the flush still "
    "have to SELECT an expired primary key is outside the model (batch parameters are collected first). Not "
    "covered: failures of ROLLBACK / ROLLBACK TO themselves, disconnects (connection invalidation), failures in "
    "SELECTs or SAVEPOINT commands, exceptions from mapper-level events (before_insert...), relationships and "
    "cascades, bulk operations, other databases than SQLite. Trusted: as C33. No axioms."
)
TECHNIQUE = "Coq invariant proofs over the executable session model of C33 with a crash oracle; source pin; model/impl correspondence after every operation on SQLite with failures injected at every statement position; direct oracle incl. failure-free reference runs"
