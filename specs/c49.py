"""C49 - mutable column values propagate in-place changes to the database.

Case format (tree):  [kind, [init0, init1], ops]      kind 0 = MutableDict, 1 = MutableList, 2 = MutableSet
  init  = [] (NULL) | cont          cont = [0, pairs] | [1, items] | [2, items]
  tgt   = [0, r] session instance of row r | [1, r] the unpickled copy of row r | [2] the saved reference h
  ops   = [0, tgt, cop]  getattr(tgt, "data").<method>(...)
          [1, tgt, init] tgt.data = <plain dict/list/set> | None
          [2, tgt] h = tgt.data      [3, tgt] tgt.data = h
          [4] flush [5] commit [6] rollback [7, r] expire [8, r] refresh
          [9, r] copy[r] = pickle.loads(pickle.dumps(obj r))      [10, r] session.merge(copy[r])
  cop   = [0, <dict op of specs/c38.py>] | [0, [8, k]] d.get(k)
          [1, <list op of specs/c38.py>] | [1, [14, rev]] l.sort(reverse=rev)
          [2, <set op of specs/c38.py>]  | [2, [13, x]] x in s
  re-attach family (oracle only): [4 + kind, init, [cop..]]  load, pickle round trip, add() to a new session, mutate, flush
  composite family (oracle only, "model": False): [3, [x, y], ops]
          ops = [0, which, z] p.pt.x|y = z  [1, x, y] p.pt = Point(x, y)  [4] flush [5] commit [6] rollback [7] expire
                [8] refresh [9] p = unpickled copy merged back
Observation: see coq/orm/MutableRun.v (one entry per operation).
"""
import ast
import json
import os
import zlib

ID = "C49"
LEVEL = "proof"
PROPS = "props/C49.v"
RUNNER = ("Gen.Gen_C49", "run_case")
STATIC_MODULES = ["SAV.orm.MutableRun", "SAV.orm.MutableProofs", "SAV.orm.MutableWitness"]
RULE = (
    "histories over two persistent rows of a class with one MutableDict/MutableList/MutableSet column (JSON and "
    "PickleType, chosen per case): every method of the builtin type (each in-place mutator with several argument "
    "shapes, plus reads) applied through the attribute, through a saved reference and through an unpickled copy, "
    "followed by each of flush / commit / rollback / expire / refresh / pickle+merge continuations (method x continuation "
    "grid: thorough exhaustive, quick a seeded twelfth plus every method once with flush+commit), pickle/merge templates "
    "and the unpickle-add()-mutate-flush family also from containers that are EMPTY at pickle time, the scenario templates "
    "of the known defects, and seeded random histories of "
    "3..12 operations over the whole alphabet (assignment of plain values / None / a saved value object shared between "
    "rows, detached copies, merge). non-trivial = the history contains an in-place mutation and a flush/commit. "
    "MutableComposite: oracle-only random histories on a two-column composite."
)
TRUSTED = [
    "T1: the set of methods of MutableDict/MutableList/MutableSet that (transitively) call self.changed() is "
    "extracted from the current source by ast on every run into Gen_C49.v; the reflective obligation "
    "covers_all gen_ov = true is discharged by vm_compute; the model is evaluated with the regenerated table",
    "the list of in-place mutators of dict/list/set (33 names, Python data model) in coq/orm/Mutable.v",
    "hand-written Gallina transcription of the Mutable listeners, flag_modified, ScalarAttributeImpl.set, "
    "_modified_event and the UPDATE decision of _collect_update_commands (pinned normalised source + step-by-step "
    "correspondence incl. _parents, committed_state, modified flags and in_transaction())",
    "reference semantics of the builtin containers: coq/base/PySlice.v and py_*_op of coq/orm/Coll*.v (C38)",
]
ASSUMPTIONS = [
    "one mutable column per class; values inside the containers are ints (nested values are documented as untracked)",
    "Session(autoflush=False, expire_on_commit=True); parent objects and value objects stay referenced (no garbage "
    "collection of _parents keys)",
    "set.pop() on sets with >= 2 members is compared through the oracle only (which member is the builtin's choice)",
]
ANCHORS = [
    ("lib/sqlalchemy/ext/mutable.py", "MutableBase._parents"),
    ("lib/sqlalchemy/ext/mutable.py", "MutableBase.coerce"),
    ("lib/sqlalchemy/ext/mutable.py", "MutableBase._listen_on_attribute"),
    ("lib/sqlalchemy/ext/mutable.py", "Mutable.changed"),
    ("lib/sqlalchemy/ext/mutable.py", "MutableComposite.changed"),
    ("lib/sqlalchemy/ext/mutable.py", "MutableDict"),
    ("lib/sqlalchemy/ext/mutable.py", "MutableList"),
    ("lib/sqlalchemy/ext/mutable.py", "MutableSet"),
    ("lib/sqlalchemy/orm/attributes.py", "flag_modified"),
    ("lib/sqlalchemy/orm/attributes.py", "_ScalarAttributeImpl.set"),
    ("lib/sqlalchemy/orm/state.py", "InstanceState._modified_event"),
]

METHS = {
    "__setitem__": "M_setitem", "__delitem__": "M_delitem", "clear": "M_clear", "pop": "M_pop",
    "popitem": "M_popitem", "setdefault": "M_setdefault", "update": "M_update", "__ior__": "M_ior",
    "append": "M_append", "extend": "M_extend", "insert": "M_insert", "remove": "M_remove", "sort": "M_sort",
    "reverse": "M_reverse", "__iadd__": "M_iadd", "__imul__": "M_imul", "add": "M_add", "discard": "M_discard",
    "difference_update": "M_difference_update", "intersection_update": "M_intersection_update",
    "symmetric_difference_update": "M_symmetric_difference_update", "__iand__": "M_iand", "__isub__": "M_isub",
    "__ixor__": "M_ixor", "__getitem__": "M_getitem", "get": "M_get", "__contains__": "M_contains",
}
# methods that notify but are not part of the operation alphabet (unpickling hooks)
IGNORED_NOTIFIERS = {"__setstate__"}


def pin_check(repo):
    from translate import fingerprint

    fingerprint.check(repo, ANCHORS, "C49")


# --------------------------------------------------------------------------------------------
# T1: which methods call self.changed()
def _methods(cls):
    """name -> FunctionDef, descending into `if TYPE_CHECKING: ... else: ...` (the else branch is the runtime one)"""
    out = {}

    def walk(body):
        for n in body:
            if isinstance(n, ast.FunctionDef):
                out[n.name] = n
            elif isinstance(n, ast.If):
                t = n.test
                if isinstance(t, ast.Name) and t.id == "TYPE_CHECKING":
                    walk(n.orelse)
                else:
                    raise ValueError("unexpected conditional definition in class %s" % cls.name)

    walk(cls.body)
    return out


def _self_calls(fn):
    """names m such that the body calls self.m(...), plus __setitem__/__delitem__ for self[..] = / del self[..]"""
    names = set()
    for n in ast.walk(fn):
        if isinstance(n, ast.Call) and isinstance(n.func, ast.Attribute) and isinstance(n.func.value, ast.Name) and n.func.value.id == "self":
            names.add(n.func.attr)
        if isinstance(n, (ast.Assign, ast.AugAssign)):
            tg = n.targets if isinstance(n, ast.Assign) else [n.target]
            for t in tg:
                if isinstance(t, ast.Subscript) and isinstance(t.value, ast.Name) and t.value.id == "self":
                    names.add("__setitem__")
        if isinstance(n, ast.Delete):
            for t in n.targets:
                if isinstance(t, ast.Subscript) and isinstance(t.value, ast.Name) and t.value.id == "self":
                    names.add("__delitem__")
    return names


def notifying_methods(repo):
    path = os.path.join(repo, "lib/sqlalchemy/ext/mutable.py")
    with open(path) as f:
        tree = ast.parse(f.read())
    res = {}
    for cname in ("MutableDict", "MutableList", "MutableSet"):
        cls = next((n for n in tree.body if isinstance(n, ast.ClassDef) and n.name == cname), None)
        if cls is None:
            raise ValueError("class %s not found in ext/mutable.py" % cname)
        meths = _methods(cls)
        calls = {m: _self_calls(fn) for m, fn in meths.items() if not any(
            isinstance(d, ast.Name) and d.id in ("classmethod", "staticmethod") for d in fn.decorator_list)}
        notif = {m for m, c in calls.items() if "changed" in c}
        grew = True
        while grew:
            grew = False
            for m, c in calls.items():
                if m not in notif and c & notif:
                    notif.add(m)
                    grew = True
        unknown = sorted(m for m in notif if m not in METHS and m not in IGNORED_NOTIFIERS)
        if unknown:
            raise ValueError("%s: notifying methods outside the modelled vocabulary: %s" % (cname, unknown))
        res[cname] = sorted(m for m in notif if m in METHS)
    return res


def translate(repo, outdir):
    nm = notifying_methods(repo)
    tab = lambda c: "[" + "; ".join(METHS[m] for m in nm[c]) + "]"  # noqa: E731
    src = (
        "(* generated on every run from lib/sqlalchemy/ext/mutable.py (methods that call self.changed()) - do not edit *)\n"
        "From Coq Require Import List ZArith Bool.\nImport ListNotations.\n"
        "From SAV.base Require Import Tree.\nFrom SAV.orm Require Import Mutable MutableRun.\n\n"
        "Definition gen_ov (k : kind) : list meth :=\n  match k with\n"
        "  | KDict => %s\n  | KList => %s\n  | KSet => %s\n  end.\n\n"
        "Definition run_case : tree -> tree := run_with gen_ov.\n"
        % (tab("MutableDict"), tab("MutableList"), tab("MutableSet"))
    )
    obl = (
        "(* generated on every run - per-run obligations about the regenerated override tables *)\n"
        "From Coq Require Import List ZArith Bool.\nImport ListNotations.\n"
        "From SAV.orm Require Import Mutable MutableRun MutableProofs.\nFrom SAV.props Require Import C49.\n"
        "Require Import Gen.Gen_C49.\n\n"
        "(* T1: every in-place mutator of dict / list / set is overridden by a method that calls self.changed() *)\n"
        "Lemma gen_covers_dict : covers KDict (gen_ov KDict) = true.\nProof. vm_compute; reflexivity. Qed.\n"
        "Lemma gen_covers_list : covers KList (gen_ov KList) = true.\nProof. vm_compute; reflexivity. Qed.\n"
        "Lemma gen_covers_set : covers KSet (gen_ov KSet) = true.\nProof. vm_compute; reflexivity. Qed.\n"
        "Lemma gen_covers : covers_all gen_ov = true.\nProof. vm_compute; reflexivity. Qed.\n"
        "(* the property theorems instantiated with the tables the code has NOW *)\n"
        "Theorem gen_c49_unflagged_holds_database_value : forall ord d0 d1 ops,\n"
        "  guarded ord gen_ov ops (init_world d0 d1) = true ->\n"
        "  forall r, r < 2 -> in_sync (run ord gen_ov ops (init_world d0 d1)) r.\n"
        "Proof. exact (fun ord => c49_covers_all_mutators_guarded ord gen_ov gen_covers). Qed.\n"
        "Theorem gen_c49_flush_stores_in_memory_value : forall ord d0 d1 ops,\n"
        "  guarded ord gen_ov (ops ++ [Flush]) (init_world d0 d1) = true ->\n"
        "  forall r, r < 2 -> stored (run ord gen_ov (ops ++ [Flush]) (init_world d0 d1)) r.\n"
        "Proof. exact (fun ord => c49_flush_stores_in_memory_value_guarded ord gen_ov gen_covers). Qed.\n"
        "Print Assumptions gen_c49_unflagged_holds_database_value.\n"
        "Print Assumptions gen_c49_flush_stores_in_memory_value.\n"
    )
    p = os.path.join(outdir, "Gen_C49.v")
    with open(p, "w") as fh:
        fh.write(src)
    p2 = os.path.join(outdir, "Gen_C49_obl.v")
    with open(p2, "w") as fh:
        fh.write(obl)
    return [p, p2]


# --------------------------------------------------------------------------------------------
# known-finding fragment (vlib.main reads only the merged known_findings.json)
def _install_fragment_loader():
    import sys

    m = sys.modules.get("__main__")
    orig = getattr(m, "load_findings", None)
    if orig is None or getattr(orig, "_c49", False):
        return

    def load_findings(pid):
        out = orig(pid)
        if pid == ID:
            p = os.path.join(os.path.dirname(os.path.dirname(os.path.abspath(__file__))), "findings", "C49.json")
            try:
                with open(p) as f:
                    frag = json.load(f)
            except OSError:
                frag = []
            have = {e.get("id") for e in out}
            out = out + [e for e in frag if e.get("id") not in have]
        return out

    load_findings._c49 = True
    m.load_findings = load_findings


_install_fragment_loader()


# vlib.coqrun.run_cases writes 400 cases into ONE list literal per cases_k.v; coqc's cost for such a literal
# is superlinear in its size (measured: 78 s for 400 of these cases in one definition, 11 s for the same
# cases in ten definitions).  Work-around local to this check: smaller shards.
def _install_small_shards():
    try:
        from vlib import coqrun
    except Exception:
        return
    if getattr(coqrun.run_cases, "_small_shards", False):
        return
    orig = coqrun.run_cases

    def run_cases(bdir, mod, fn, pairs, shard=50, jobs=12, timeout=900):
        return orig(bdir, mod, fn, pairs, shard=shard, jobs=jobs, timeout=timeout)

    run_cases._small_shards = True
    coqrun.run_cases = run_cases


_install_small_shards()

# --------------------------------------------------------------------------------------------
# generators
S0, S1 = [0, 0], [0, 1]
C0 = [1, 0]
H = [2]


def _conts(kind):
    if kind == 0:
        return [[0, []], [0, [[0, 1]]], [0, [[0, 1], [1, 2]]], [0, [[2, 0], [0, 5], [1, 1]]]]
    if kind == 1:
        return [[1, []], [1, [3]], [1, [2, 1]], [1, [3, 1, 2]], [1, [1, 1, 0, 2]]]
    return [[2, []], [2, [1]], [2, [1, 2]], [2, [0, 2, 3]]]


def _mutators(kind):
    """(method name, cop) - at least one representative per in-place mutator, chosen to change a 2-3 element value"""
    if kind == 0:
        ops = [
            ("__setitem__", [0, 7, 7]), ("__setitem__", [0, 0, 9]), ("__delitem__", [1, 0]), ("clear", [2]),
            ("pop", [3, 0, None]), ("pop", [3, 0, 4]), ("pop", [3, 1, 2]), ("pop", [3, 0, 1]), ("popitem", [4]), ("setdefault", [5, 7, 3]),
            ("update", [6, [1, [[0, 8], [5, 5]]], []]), ("update", [6, [2, [[6, 1]]], [[7, 2]]]), ("update", [6, [0], [[8, 8]]]),
            ("__ior__", [7, [[0, 6], [9, 9]]]),
            ("-setdefault-existing", [5, 0, 3]), ("-pop-default-absent", [3, 8, 4]), ("-delitem-absent", [1, 8]),
            ("-get", [8, 0]),
        ]
    elif kind == 1:
        ops = [
            ("__setitem__", [3, 0, 9]), ("__setitem__", [4, [0, 1, None], [0, [7, 8]]]), ("__setitem__", [4, [None, None, -1], [2]]),
            ("__setitem__", [4, [None, None, 2], [0, [9]]]), ("__setitem__", [4, [1, None, None], [2]]),
            ("__delitem__", [5, 0]), ("__delitem__", [6, [0, 1, None]]), ("__delitem__", [6, [None, None, 2]]),
            ("append", [0, 7]), ("extend", [7, [0, [7, 8]]]), ("extend", [7, [1, [7]]]), ("extend", [7, [2]]),
            ("insert", [2, 0, 7]), ("insert", [2, -1, 7]), ("pop", [9, None]), ("pop", [9, 0]), ("remove", [1, 1]),
            ("clear", [10]), ("sort", [14, 0]), ("sort", [14, 1]), ("reverse", [12]),
            ("__iadd__", [8, [0, [7]]]), ("__iadd__", [8, [2]]), ("__imul__", [11, 2]), ("__imul__", [11, 0]),
            ("-remove-absent", [1, 9]), ("-pop-out-of-range", [9, 7]), ("-setitem-out-of-range", [3, 9, 1]),
            ("-iadd-noniterable", [8, [3]]), ("-getslice", [13, [0, 1, None]]),
        ]
    else:
        ops = [
            ("add", [0, 7]), ("discard", [1, 1]), ("remove", [2, 1]), ("clear", [4]),
            ("update", [5, [0, [7, 8]]]), ("update", [5, [1, [7, 7]]]), ("difference_update", [6, [0, [1, 7]]]),
            ("difference_update", [6, [2]]), ("intersection_update", [7, [1, [1, 7]]]),
            ("symmetric_difference_update", [8, [0, [1, 7]]]), ("symmetric_difference_update", [8, [2]]),
            ("__ior__", [9, [0, [7]]]), ("__ior__", [9, [1, [8]]]), ("__isub__", [10, [0, [1]]]), ("__isub__", [10, [2]]),
            ("__iand__", [11, [0, [1]]]), ("__iand__", [11, [2]]), ("__ixor__", [12, [0, [1, 7]]]), ("__ixor__", [12, [2]]),
            ("-add-existing", [0, 1]), ("-remove-absent", [2, 9]), ("-update-noniterable", [5, [3]]), ("-contains", [13, 1]),
        ]
    return [(n, [kind, o]) for n, o in ops]


def _continuations():
    """what follows the mutation `M` (placeholder) before the final observation"""
    M = "M"
    return [
        ("flush", [M, [4]]),
        ("commit", [M, [5]]),
        ("flush-rollback", [M, [4], [6]]),
        ("expire", [M, [7, 0], [4]]),
        ("refresh", [M, [8, 0], [4]]),
        ("loaded-flush-flush", [[2, S0], M, [4], M, [4]]),
        ("handle", [[2, S0], ("H",), [4], [5]]),
        ("handle-after-expire", [[2, S0], [7, 0], ("H",), [4]]),
        ("handle-after-reload", [[2, S0], [5], [2, S1], ("H",), [4]]),
        ("pickle-merge", [M, [9, 0], [10, 0], [4]]),
        ("copy-mutate-merge", [[9, 0], ("C",), [10, 0], [4], [5]]),
        ("copy-mutate-merge-expired", [[2, S0], [9, 0], [5], ("C",), [10, 0], [4]]),
        ("merge-then-mutate", [[9, 0], [10, 0], M, [4]]),
        ("merge-flush-mutate", [[9, 0], [10, 0], [4], M, [4], [5]]),
        ("merge-commit-mutate-copy", [[2, S0], [9, 0], [10, 0], [4], ("C",), [4], [5]]),
        ("merge-then-mutate-copy", [[9, 0], [10, 0], ("C",), [4]]),
        ("set-then-mutate", [[1, S0, "P"], M, [4]]),
        ("mutate-then-set", [M, [1, S0, "P"], [4]]),
        ("mutate-set-none", [M, [1, S0, None], [4], [5]]),
        ("shared", [[2, S0], [3, S1], M, [4]]),
        ("shared-flush-mutate", [[2, S0], [3, S1], [4], ("M1",), [4]]),
        ("shared-expire-other", [[2, S0], [3, S1], [4], [7, 1], M, [4]]),
        ("shared-expire-self", [[2, S0], [3, S1], [4], [7, 0], ("M1",), [4]]),
        ("takeout-putback", [[2, S0], [1, S0, None], ("H",), [3, S0], [4], [5]]),
        ("replace-then-mutate-old", [[2, S0], [1, S0, "P"], ("H",), [4], [5]]),
        ("takeout-flush-putback", [[2, S0], [1, S0, None], [4], ("H",), [3, S0], [4]]),
        ("rollback-no-transaction", [[2, S0], [5], [1, S0, "P"], [6], M, [4]]),
        ("pickle-modified", [M, [9, 0], ("C",), [10, 0], [4]]),
        ("pickle-takeout", [[2, S0], [1, S0, None], ("H",), [3, S0], [9, 0], [10, 0], [4]]),
    ]


def _instantiate(tmpl, mop, plain):
    out = []
    for o in tmpl:
        if o == "M":
            out.append([0, S0, mop])
        elif o == ("M1",):
            out.append([0, S1, mop])
        elif o == ("H",):
            out.append([0, H, mop])
        elif o == ("C",):
            out.append([0, C0, mop])
        elif isinstance(o, list) and len(o) == 3 and o[0] == 1 and o[2] == "P":
            out.append([1, o[1], plain])
        else:
            out.append(o)
    return out


def _rand_cop(rng, kind):
    from specs import c38

    if rng.random() < 0.12:
        if kind == 0:
            return [0, [8, rng.randint(0, 4)]]
        if kind == 1:
            return [1, [14, rng.randint(0, 1)]]
        return [2, [13, rng.randint(0, 5)]]
    if kind == 0:
        c = c38._rand_dict_case(rng)
    elif kind == 1:
        c = c38._rand_list_case(rng)
    else:
        c = c38._rand_set_case(rng)
    return [kind, rng.choice(c["in"][2])]


def _rand_plain(rng, kind):
    if rng.random() < 0.15:
        return None
    if kind == 0:
        return [0, [[rng.randint(0, 4), rng.randint(0, 5)] for _ in range(rng.randint(0, 3))]]
    if kind == 1:
        return [1, [rng.randint(0, 5) for _ in range(rng.randint(0, 4))]]
    return [2, sorted(set(rng.randint(0, 5) for _ in range(rng.randint(0, 4))))]


def _rand_tgt(rng, copies=True, handle=True):
    k = rng.random()
    if handle and k < 0.2:
        return [2]
    if copies and k < 0.35:
        return [1, rng.randint(0, 1)]
    return [0, rng.randint(0, 1)]


def _rand_case(rng, kind):
    init = [_rand_plain(rng, kind), _rand_plain(rng, kind)]
    ops = []
    for _ in range(rng.randint(3, 12)):
        t = rng.choice([0, 0, 0, 0, 0, 1, 2, 2, 3, 3, 4, 4, 4, 5, 6, 7, 8, 9, 10])
        if t == 0:
            ops.append([0, _rand_tgt(rng), _rand_cop(rng, kind)])
        elif t == 1:
            ops.append([1, _rand_tgt(rng, handle=False), _rand_plain(rng, kind)])
        elif t == 2:
            ops.append([2, _rand_tgt(rng, handle=False)])
        elif t == 3:
            ops.append([3, _rand_tgt(rng, handle=False)])
        elif t in (4, 5, 6):
            ops.append([t])
        else:
            ops.append([t, rng.randint(0, 1)])
    return {"in": [kind, init, ops], "kind": "random-" + ("dict", "list", "set")[kind]}


def _rand_composite(rng):
    ops = []
    for _ in range(rng.randint(3, 10)):
        t = rng.choice([0, 0, 0, 0, 1, 4, 4, 5, 6, 7, 8, 9])
        if t == 0:
            ops.append([0, rng.randint(0, 1), rng.randint(0, 9)])
        elif t == 1:
            ops.append([1, rng.randint(0, 9), rng.randint(0, 9)])
        else:
            ops.append([t])
    ops.append([4])
    return {"in": [3, [rng.randint(0, 9), rng.randint(0, 9)], ops], "kind": "composite", "model": False}


def _has_set_pop(ops):
    return any(o[0] == 0 and o[2][0] == 2 and o[2][1][0] == 3 for o in ops)


def _adders(kind):
    """mutators that change an EMPTY container"""
    if kind == 0:
        return [[0, [0, 7, 7]], [0, [6, [1, [[0, 8], [5, 5]]], []]], [0, [5, 3, 4]], [0, [7, [[9, 9]]]]]
    if kind == 1:
        return [[1, [0, 7]], [1, [7, [0, [7, 8]]]], [1, [2, 0, 7]], [1, [8, [0, [7]]]]]
    return [[2, [0, 7]], [2, [5, [0, [7, 8]]]], [2, [9, [0, [7]]]], [2, [8, [0, [1, 7]]]]]


# continuations instantiated in every quick run with several methods (they carry the seeded / known defects)
ALWAYS_TEMPLATES = ("merge-flush-mutate", "merge-commit-mutate-copy", "takeout-putback", "shared-expire-self", "pickle-merge")
PICKLE_TEMPLATES = ("pickle-merge", "copy-mutate-merge", "copy-mutate-merge-expired", "merge-then-mutate",
                    "merge-then-mutate-copy", "pickle-modified", "merge-flush-mutate")


def gen_cases(rng, tier):
    cases = []
    quick = tier != "thorough"
    pick = rng.randint(0, 11)
    for kind in (0, 1, 2):
        conts = _conts(kind)
        plain = conts[1]
        main = conts[2] if kind != 1 else conts[3]
        for mi, (name, mop) in enumerate(_mutators(kind)):
            for ci, (cname, tmpl) in enumerate(_continuations()):
                if quick and (mi + ci + pick) % 12 and not (cname in ALWAYS_TEMPLATES and mi % 8 == pick % 8):
                    continue  # quick tier: a twelfth of the method x continuation grid (seeded rotation)
                ops = _instantiate(tmpl, mop, plain)
                cases.append({"in": [kind, [main, conts[1]], ops], "kind": "tmpl-" + cname})
            # the same method from small pre-states, then flush (quick: one pre-state, all methods)
            for c in ([main] if quick else conts):
                cases.append({"in": [kind, [c, None], [[0, S0, mop], [4], [5]]], "kind": "method-x-state"})
        # pickling / merging an object whose container is EMPTY at pickle time
        for ai, mop in enumerate(_adders(kind)):
            for ci, (cname, tmpl) in enumerate(_continuations()):
                if cname in PICKLE_TEMPLATES and (not quick or (ai + ci + pick) % 2 == 0):
                    cases.append({"in": [kind, [conts[0], conts[1]], _instantiate(tmpl, mop, plain)], "kind": "tmpl-empty-" + cname})
        # set.pop (which member: the builtin's choice) - oracle only
        if kind == 2:
            for c in conts:
                cases.append({"in": [kind, [c, None], [[0, S0, [2, [3]]], [4], [5]]], "kind": "method-x-state"})
    # unpickled object re-attached to a NEW session with session.add(), then mutated and flushed (oracle only):
    # every mutator on a non-empty value, the adding ones on a value that is empty at pickle time
    for kind in (0, 1, 2):
        conts = _conts(kind)
        for name, mop in _mutators(kind):
            if not name.startswith("-"):
                cases.append({"in": [4 + kind, conts[2] if kind != 1 else conts[3], [mop]], "kind": "reattach", "model": False})
        for mop in _adders(kind):
            cases.append({"in": [4 + kind, conts[0], [mop]], "kind": "reattach-empty", "model": False})
            cases.append({"in": [4 + kind, conts[0], [mop, mop]], "kind": "reattach-empty", "model": False})
    nrand = 6000 if tier == "thorough" else 90
    for i in range(nrand):
        cases.append(_rand_case(rng, i % 3))
    for i in range(max(nrand // 5, 24)):
        cases.append(_rand_composite(rng))
    seen, out = set(), []
    for c in cases:
        k = json.dumps(c["in"])
        if k in seen:
            continue
        seen.add(k)
        if c["in"][0] == 2 and _has_set_pop(c["in"][2]):
            c["model"] = False
        out.append(c)
    return out


def nontrivial(c):
    kind, _init, ops = c["in"]
    if kind == 3:
        return any(o[0] in (0, 1) for o in ops) and any(o[0] in (4, 5) for o in ops)
    if kind >= 4:
        return True
    return any(o[0] == 0 for o in ops) and any(o[0] in (4, 5) for o in ops)


# --------------------------------------------------------------------------------------------
# implementation side
_ENV = {}
EXN = {"IndexError": 10, "ValueError": 11, "KeyError": 12, "TypeError": 13, "RuntimeError": 14,
       "InvalidRequestError": 5, "DetachedInstanceError": 6, "AttributeError": 7}


def impl_setup():
    import dataclasses

    from sqlalchemy import JSON, Column, Integer, PickleType, create_engine
    from sqlalchemy.ext.mutable import MutableComposite, MutableDict, MutableList, MutableSet
    from sqlalchemy.orm import composite, configure_mappers, declarative_base
    from sqlalchemy.pool import StaticPool

    Base = declarative_base()

    def mk(name, typ):
        return type(name, (Base,), {"__tablename__": name.lower(), "id": Column(Integer, primary_key=True), "data": Column(typ)})

    classes = {
        (0, 0): mk("DJ", MutableDict.as_mutable(JSON)),
        (0, 1): mk("DP", MutableDict.as_mutable(PickleType)),
        (1, 0): mk("LJ", MutableList.as_mutable(JSON)),
        (1, 1): mk("LP", MutableList.as_mutable(PickleType)),
        (2, 0): mk("SP", MutableSet.as_mutable(PickleType)),
        (2, 1): mk("SP2", MutableSet.as_mutable(PickleType())),
    }

    @dataclasses.dataclass
    class Point(MutableComposite):
        x: int
        y: int

        def __setattr__(self, key, value):
            object.__setattr__(self, key, value)
            self.changed()

        def __getstate__(self):
            return self.x, self.y

        def __setstate__(self, state):
            object.__setattr__(self, "x", state[0])
            object.__setattr__(self, "y", state[1])

    class Vertex(Base):
        __tablename__ = "vertex"
        id = Column(Integer, primary_key=True)
        x1 = Column(Integer)
        y1 = Column(Integer)
        pt = composite(Point, x1, y1)

    configure_mappers()
    eng = create_engine("sqlite://", poolclass=StaticPool, connect_args={"autocommit": False})
    Base.metadata.create_all(eng)
    # the classes must be importable for pickle
    g = globals()
    for c in list(classes.values()) + [Point, Vertex]:
        c.__module__ = __name__
        c.__qualname__ = c.__name__
        g[c.__name__] = c
    _ENV.update(classes=classes, eng=eng, Point=Point, Vertex=Vertex)


def _key(k):
    return "k%d" % k


def _plain(c):
    if c is None or c == []:
        return None
    if c[0] == 0:
        return {_key(k): v for k, v in c[1]}
    if c[0] == 1:
        return list(c[1])
    return set(c[1])


def _cont(v):
    if v is None:
        return []
    if isinstance(v, dict):
        return [0, [[int(k[1:]), x] for k, x in v.items()]]
    if isinstance(v, (set, frozenset)):
        return [2, sorted(v)]
    return [1, list(v)]


def _apply_cop(v, cop):
    """run one container method on the (Mutable or builtin) value v"""
    from specs import c38

    k, o = cop
    if k == 0 and o[0] == 8:
        return v.get(_key(o[1]))
    if k == 1 and o[0] == 14:
        return v.sort(reverse=bool(o[1]))
    if k == 2 and o[0] == 13:
        return o[1] in v
    ck = {0: 2, 1: 0, 2: 1}[k]
    if ck == 0:
        o = c38._norm_op(o)
    return c38._apply(ck, v, o, lambda x: x, c38._py_value, c38._py_sarg, _key)


class _World:
    pass


def _db_value(w, r):
    import pickle

    from sqlalchemy import text

    sql = text("select data from %s where id = %d" % (w.cls.__tablename__, r))
    if w.sess.in_transaction():
        raw = w.sess.connection().execute(sql).scalar()
    else:
        with _ENV["eng"].connect() as conn:
            raw = conn.execute(sql).scalar()
    if raw is None:
        return None
    if isinstance(raw, (bytes, memoryview)):
        return pickle.loads(bytes(raw))
    return json.loads(raw)


def _obs_value(w, v):
    return [_cont(v), [w.pid.get(id(st), -1) for st in list(v._parents.keys())]]


def _obs_obj(w, obj):
    from sqlalchemy import inspect
    from sqlalchemy.orm.base import NO_VALUE

    st = inspect(obj)
    missing = object()
    cur = st.dict.get("data", missing)
    if cur is missing:
        slot = []
    elif cur is None:
        slot = [0]
    else:
        slot = [1] + _obs_value(w, cur)
    og = st.committed_state.get("data", missing)
    if og is missing:
        cst = [0]
    elif og is NO_VALUE:
        cst = [1]
    elif og is None:
        cst = [2]
    elif og is cur:
        cst = [3]
    else:
        cst = [4, _cont(og)]
    return [slot, int(bool(st.modified)), cst, int("id" in st.dict)]


def _observe(w, rc):
    return [
        rc,
        [_obs_obj(w, x) for x in w.sess_objs],
        [[] if c is None else _obs_obj(w, c) for c in w.copies],
        [] if w.h is None else _obs_value(w, w.h),
        [_cont(_db_value(w, r)) for r in (0, 1)],
        int(w.sess.in_transaction()),
    ]


def _target(w, t):
    if t[0] == 0:
        return w.sess_objs[t[1]]
    if t[0] == 1:
        return w.copies[t[1]]
    return None


def _step(w, op):
    import pickle

    from sqlalchemy import inspect

    t = op[0]
    if t == 0:
        tg = op[1]
        if tg[0] == 2:
            if w.h is None:
                return 9
            v = w.h
        else:
            obj = _target(w, tg)
            if obj is None:
                return 9
            v = obj.data
        if v is None:
            return 7
        _apply_cop(v, op[2])
        return 0
    if t == 1:
        obj = _target(w, op[1])
        if obj is None:
            return 9
        obj.data = _plain(op[2])
        return 0
    if t == 2:
        if op[1][0] == 2:
            return 0 if w.h is not None else 9
        obj = _target(w, op[1])
        if obj is None:
            return 9
        w.h = obj.data
        if w.h is not None:
            w.keep.append(w.h)
        return 0
    if t == 3:
        obj = _target(w, op[1])
        if obj is None or w.h is None:
            return 9
        obj.data = w.h
        return 0
    if t == 4:
        w.sess.flush()
    elif t == 5:
        w.sess.commit()
    elif t == 6:
        w.sess.rollback()
    elif t == 7:
        w.sess.expire(w.sess_objs[op[1]])
    elif t == 8:
        w.sess.refresh(w.sess_objs[op[1]])
    elif t == 9:
        c = pickle.loads(pickle.dumps(w.sess_objs[op[1]]))
        w.copies[op[1]] = c
        w.pid[id(inspect(c))] = len(w.all_objs)
        w.all_objs.append(c)
    elif t == 10:
        c = w.copies[op[1]]
        if c is None:
            return 9
        m = w.sess.merge(c)
        assert m is w.sess_objs[op[1]]
    else:
        raise AssertionError("bad op %r" % (op,))
    return 0


def _run_mutable(case):
    from sqlalchemy import inspect, text
    from sqlalchemy.orm import Session

    kind, init, ops = case["in"]
    variant = zlib.crc32(json.dumps(case["in"]).encode()) & 1
    cls = _ENV["classes"][(kind, variant)]
    eng = _ENV["eng"]
    with eng.begin() as conn:
        conn.execute(text("delete from %s" % cls.__tablename__))
    s0 = Session(eng)
    s0.add_all([cls(id=r, data=_plain(init[r])) for r in (0, 1)])
    s0.commit()
    s0.close()
    w = _World()
    w.cls = cls
    w.sess = Session(eng, autoflush=False)
    w.sess_objs = [w.sess.get(cls, 0), w.sess.get(cls, 1)]
    w.sess.commit()  # both instances persistent and expired, no transaction
    w.all_objs = list(w.sess_objs)
    w.pid = {id(inspect(x)): i for i, x in enumerate(w.all_objs)}
    w.copies = [None, None]
    w.h = None
    w.keep = []
    obs = []
    full = []
    diag = []
    for k, op in enumerate(ops):
        pre = None
        if op[0] in (4, 5):
            pre = _flush_diag(w)
        try:
            rc = _step(w, op)
        except AssertionError:
            raise
        except Exception as e:
            rc = EXN.get(type(e).__name__, 90)
        o = _observe(w, rc)
        # session.dirty must agree with the modified flags
        o_dirty = [int(x in w.sess.dirty) for x in w.sess_objs]
        diag.append({"pre": pre, "dirty": o_dirty})
        full.append(o)
        obs.append(o if (op[0] in (4, 5) or k == len(ops) - 1) else _small(o))
    _ENV["diag"] = diag
    _ENV["full"] = full
    w.sess.close()
    return obs


def _small(o):
    """compact form of an observation (see coq/orm/MutableRun.v)"""
    def ps(x):
        if x == []:
            return []
        slot, mod, cst, idp = x
        return [0 if slot == [] else (1 if slot == [0] else 2), mod, cst[0], idp]

    rc, sess, copies, h, _db, tr = o
    return [rc, [ps(x) for x in sess], [ps(x) for x in copies], int(h != []), tr]


def _flush_diag(w):
    """before a flush: per session instance, is the recorded original a mutable value object that compares
    equal to the current value (so the UPDATE is going to be skipped)?"""
    from sqlalchemy import inspect
    from sqlalchemy.ext.mutable import Mutable

    out = []
    for x in w.sess_objs:
        st = inspect(x)
        og = st.committed_state.get("data", None)
        cur = st.dict.get("data", None)
        out.append(int(isinstance(og, Mutable) and cur is not None and og == cur))
    return out


def _run_composite(case):
    import pickle

    from sqlalchemy import text
    from sqlalchemy.orm import Session

    _k, (x0, y0), ops = case["in"]
    V, Point, eng = _ENV["Vertex"], _ENV["Point"], _ENV["eng"]
    with eng.begin() as conn:
        conn.execute(text("delete from vertex"))
    s0 = Session(eng)
    s0.add(V(id=0, pt=Point(x0, y0)))
    s0.commit()
    s0.close()
    sess = Session(eng, autoflush=False)
    p = sess.get(V, 0)
    obs = []
    for op in ops:
        t = op[0]
        rc = 0
        try:
            if t == 0:
                setattr(p.pt, "xy"[op[1]], op[2])
            elif t == 1:
                p.pt = Point(op[1], op[2])
            elif t == 4:
                sess.flush()
            elif t == 5:
                sess.commit()
            elif t == 6:
                sess.rollback()
            elif t == 7:
                sess.expire(p)
            elif t == 8:
                sess.refresh(p)
            elif t == 9:
                c = pickle.loads(pickle.dumps(p))
                p2 = sess.merge(c)
                assert p2 is p
        except AssertionError:
            raise
        except Exception as e:
            rc = EXN.get(type(e).__name__, 90)
        sql = text("select x1, y1 from vertex where id = 0")
        if sess.in_transaction():
            row = sess.connection().execute(sql).one()
        else:
            with eng.connect() as conn:
                row = conn.execute(sql).one()
        d = sess.get(V, 0).__dict__
        mem = [] if "pt" not in d and "x1" not in d else [p.pt.x, p.pt.y]
        from sqlalchemy import inspect

        obs.append([rc, mem, [row[0], row[1]], int(inspect(p).modified)])
    sess.close()
    return obs


def _run_reattach(case):
    """load in session A, pickle round trip, close A; session B: add(copy); copy.data.<method>; flush"""
    import pickle

    from sqlalchemy import inspect, text
    from sqlalchemy.orm import Session

    k4, init, ops = case["in"]
    kind = k4 - 4
    variant = zlib.crc32(json.dumps(case["in"]).encode()) & 1
    cls = _ENV["classes"][(kind, variant)]
    eng = _ENV["eng"]
    with eng.begin() as conn:
        conn.execute(text("delete from %s" % cls.__tablename__))
    s0 = Session(eng)
    s0.add(cls(id=0, data=_plain(init)))
    s0.commit()
    obj = s0.get(cls, 0)
    obj.data  # loaded
    copy = pickle.loads(pickle.dumps(obj))
    s0.close()
    sb = Session(eng, autoflush=False)
    sb.add(copy)
    obs = []
    for cop in ops:
        rc = 0
        try:
            _apply_cop(copy.data, cop)
        except AssertionError:
            raise
        except Exception as e:
            rc = EXN.get(type(e).__name__, 90)
        mod = int(inspect(copy).modified)
        sb.flush()
        raw = sb.connection().execute(text("select data from %s where id = 0" % cls.__tablename__)).scalar()
        if raw is None:
            dbv = None
        elif isinstance(raw, (bytes, memoryview)):
            dbv = pickle.loads(bytes(raw))
        else:
            dbv = json.loads(raw)
        obs.append([rc, _cont(copy.data), _cont(dbv), mod])
    sb.rollback()
    sb.close()
    return obs


def impl(case):
    if not _ENV:
        impl_setup()
    if case["in"][0] == 3:
        return _run_composite(case)
    if case["in"][0] >= 4:
        return _run_reattach(case)
    return _run_mutable(case)


# --------------------------------------------------------------------------------------------
# the property itself on the implementation's observation
def _pyval(c):
    """observation -> Python value for == comparison"""
    if c == []:
        return None
    if c[0] == 0:
        return {k: v for k, v in c[1]}
    if c[0] == 1:
        return list(c[1])
    return set(c[1])


def _fail(why, **blob):
    return "%s ##%s" % (why, json.dumps(blob))


def oracle(case, obs):
    kind, init, ops = case["in"]
    if kind == 3:
        for k, (op, o) in enumerate(zip(ops, obs)):
            rc, mem, dbv, mod = o
            if rc != 0:
                return _fail("composite op %s raised (code %d)" % (op, rc), fail="exc", k=k)
            if op[0] in (4, 5) and mem and mem != dbv:
                return _fail("after flush the composite in memory is %s, the row holds %s" % (mem, dbv), fail="flush", k=k)
            if mem and not mod and mem != dbv:
                return _fail("composite in memory is %s, the row holds %s, and the parent is not flagged modified"
                             % (mem, dbv), fail="unflagged", k=k)
        return None
    if kind >= 4:
        for k, (op, o) in enumerate(zip(ops, obs)):
            rc, mem, dbv, mod = o
            if _pyval(mem) != _pyval(dbv):
                return _fail("unpickled object added to a new session: after %s and flush the in-memory value is %r, the "
                             "database holds %r (modified flag before the flush: %d)" % (op, _pyval(mem), _pyval(dbv), mod),
                             fail="reattach", k=k)
        return None
    diag = _ENV.get("diag") or [{}] * len(obs)
    full = _ENV.get("full")
    if not full or len(full) != len(obs) or [f[0] for f in full] != [o[0] for o in obs]:
        full = [o for o in obs if len(o) == 6]  # only the full-form entries can be judged
        ops = [op for op, o in zip(ops, obs) if len(o) == 6]
        diag = [{}] * len(full)
    for k, (op, o) in enumerate(zip(ops, full)):
        rc, sess, _copies, _h, dbs, _tr = o
        dg = diag[k] if k < len(diag) else {}
        for r in (0, 1):
            slot, mod, _cst, _idp = sess[r]
            if dg.get("dirty") is not None and dg["dirty"][r] != mod:
                return _fail("row %d: inspect(obj).modified=%d but (obj in session.dirty)=%d" % (r, mod, dg["dirty"][r]),
                             fail="dirty", k=k, r=r)
            if slot == []:
                continue
            mem = None if slot == [0] else _pyval(slot[1])
            dbv = _pyval(dbs[r])
            if op[0] in (4, 5) and rc == 0 and mem != dbv:
                return _fail(
                    "after %s the in-memory value of row %d is %r but the database holds %r"
                    % ("flush" if op[0] == 4 else "commit", r, mem, dbv),
                    fail="flush", k=k, r=r, skipped=(dg.get("pre") or [0, 0])[r], rc=rc)
            if not mod and mem != dbv:
                return _fail(
                    "row %d: in-memory value %r differs from the database value %r and the parent is not flagged "
                    "modified (after op %s, result code %d)" % (r, mem, dbv, op, rc),
                    fail="unflagged", k=k, r=r, rc=rc, op=op)
        # "any in-place mutation marks the parent object modified" - also for an unpickled (detached) copy
        if op[0] == 0 and op[1][0] == 1 and rc == 0 and k > 0:
            r = op[1][1]
            before, after = full[k - 1][2][r], o[2][r]
            if before != [] and after != [] and before[0] != after[0] and not after[1]:
                return _fail(
                    "the unpickled copy of row %d was mutated in place by %s (%r -> %r) and is not flagged modified"
                    % (r, op[2], before[0], after[0]), fail="copy-unflagged", k=k, r=r, rc=rc, op=op)
    return None


def match_finding(case, what):
    if "##" not in what:
        return None
    try:
        b = json.loads(what.split("##", 1)[1])
    except Exception:
        return None
    if case["in"][0] >= 3:
        return None
    if b.get("fail") == "flush" and b.get("skipped") == 1:
        # the UPDATE was skipped because the recorded original is a mutable object that was mutated after
        # it was recorded and now compares equal to the current value
        return "C49-original-value-aliased"
    if b.get("fail") == "unflagged" and b.get("rc") == 5:
        # self.changed() raised InvalidRequestError at an expired co-parent after the mutation was applied
        return "C49-changed-stops-at-expired-parent"
    return None


LEVEL_TEXT = (
    "Machine-checked proof (Coq) over a Gallina state machine of the Mutable extension and the attribute/flush "
    "mechanics it relies on (value objects with _parents, committed_state, modified flags, load/refresh/set/pickle/"
    "unpickle listeners, flush/commit/rollback/expire/refresh/pickle/merge): for EVERY override table that covers the "
    "33 in-place mutators of dict/list/set and every operation history, a session instance that is not flagged "
    "modified holds the database's value, and after a flush the stored value equals the in-memory value - outside two "
    "delimited regions (mutation of a value object recorded as the original in committed_state; changed() reaching "
    "an expired co-parent), each with a _refuted witness reproduced on the implementation. Conversely every missing "
    "override yields a counterexample history (covers is necessary). The override tables are regenerated from the "
    "source on every run (T1) and the side condition is discharged by reflection."
)
LEVEL_NOTE = (
    "partial: MutableComposite is checked by the direct oracle only (not in the Coq model); one mutable column, two "
    "rows, no pending/deleted parents, no autoflush, no partial expire (expire(obj, [names])), no garbage collection of "
    "parents; contents semantics of the builtin containers are the trusted reference semantics of C38. No axioms."
)
TECHNIQUE = (
    "Coq invariant proof by induction over operation histories (parent-tracking, freshness, flag and sync invariants); "
    "T1 table regeneration with reflective side condition; source pin; step-by-step model/impl correspondence; "
    "direct oracle (DB value vs in-memory value, modified flag)"
)
