"""C54 - utility collections conform to their reference models
(OrderedSet, IdentitySet, immutabledict, LRUCache)."""
import itertools
from fractions import Fraction

ID = "C54"
LEVEL = "proof"
PROPS = "props/C54.v"
RUNNER = ("SAV.util.OrderedSetC54Run", "run_case")
STATIC_MODULES = ["SAV.util.OrderedSetC54Run"]
RULE = (
    "a case is a whole history on one object: constructor argument + operation list, every step "
    "reporting return value / exception code and the full state (OrderedSet: _list and the underlying "
    "set; IdentitySet: _members keys and values; immutabledict: items; LRUCache: (key, value, counter) "
    "triples and _counter). OrderedSet and IdentitySet: every binary method and operator alias x every "
    "argument kind (set, dict, list with duplicates, iterator, other OrderedSet/IdentitySet, the receiver "
    "itself) x all argument sequences of length <= 3 over 3 elements x 3-4 receivers; all histories of "
    "length <= 3 over an 11-14-letter alphabet (quick: a seeded fifth of the length-3 ones); random histories "
    "of length 4-8. immutabledict: all argument tuples of length <= 2 (8 argument shapes) x 3 receivers "
    "for union/merge_with, all 9 mutators, |, reflected |, random histories. LRUCache: all histories of "
    "length <= 3 over 9 operations for 2 configurations, random histories of length <= 10 for capacities "
    "0-4 and thresholds 0, 1/4, 1/2, 1, with size_alert and with a held mutex. non-trivial = the history "
    "has an operation that changes or combines state with a non-empty argument (or evicts)"
)
TRUSTED = [
    "hand-written Gallina transcription of OrderedSet, IdentitySet, unique_list "
    "(util/_collections_cy.py), immutabledict (util/_immutabledict_cy.py) and LRUCache "
    "(util/_collections.py), pinned to the current normalised source by translate/fingerprint.py and "
    "compared behaviourally step by step",
    "builtin set/dict/list semantics as modelled in OrderedSet.v (set = duplicate-free list whose order "
    "is never observed; dict = association list in insertion order)",
    "Python set iteration order enters as the order in which the elements of a set argument are given "
    "(the theorems hold for every duplicate-free order); the harness checks list(set(v)) == v",
]
ASSUMPTIONS = [
    "elements / keys are hashable with a lawful ==/hash, modelled as integers; IdentitySet members are "
    "arbitrary objects (identity = integer, value separate)",
    "LRUCache: capacity >= 0, threshold a non-negative rational (for a negative threshold the while loop "
    "of _manage_size need not terminate; outside the property); single-threaded except that the mutex "
    "may be held by somebody else during __setitem__; size_alert does not touch the cache",
    "a history acts on one object; results of non-mutating methods are observed once (and checked "
    "for later aliasing by the harness), not used as arguments of later steps",
]
ANCHORS = [
    ("lib/sqlalchemy/util/_collections_cy.py", "unique_list"),
    ("lib/sqlalchemy/util/_collections_cy.py", "OrderedSet"),
    ("lib/sqlalchemy/util/_collections_cy.py", "IdentitySet"),
    ("lib/sqlalchemy/util/_immutabledict_cy.py", "_immutable_fn"),
    ("lib/sqlalchemy/util/_immutabledict_cy.py", "immutabledict"),
    ("lib/sqlalchemy/util/_collections.py", "LRUCache"),
]


def translate(repo, outdir):
    from translate import fingerprint

    fingerprint.check(repo, ANCHORS, "C54")
    return []


# ------------------------------------------------------------------ case construction helpers
OSET, ISET, IDICT, LRU = 0, 1, 2, 3
K_SET, K_DICT, K_LIST, K_ITER, K_OSET, K_SELF = range(6)
IK_ISET, IK_LIST, IK_ITER, IK_SELF = range(4)
O_UPD, O_IUPD, O_DUPD, O_SUPD = 9, 10, 11, 12
O_COPY, O_UNION, O_INTER, O_DIFF, O_SYM = 13, 14, 15, 16, 17


def _seqs(alphabet, maxlen):
    for n in range(maxlen + 1):
        for t in itertools.product(alphabet, repeat=n):
            yield list(t)


def _oargs(alphabet, maxlen, with_self=True):
    """all OrderedSet arguments: every kind x every sequence"""
    out = []
    seen_sets = set()
    for s in _seqs(alphabet, maxlen):
        u = tuple(sorted(set(s)))
        if u not in seen_sets:
            seen_sets.add(u)
            out.append([K_SET, list(u)])
        if len(set(s)) == len(s):
            out.append([K_DICT, s])
        out.append([K_LIST, s])
        out.append([K_ITER, s])
        out.append([K_OSET, s])
    if with_self:
        out.append([K_SELF, []])
    return out


def _ocase(init, ops, kind):
    return {"in": [OSET, [init, ops]], "kind": kind}


def _icase(vals, init, ops, kind):
    return {"in": [ISET, [vals, init, ops]], "kind": kind}


_O_ALPHA = [
    [0, 1],
    [0, 4],
    [1, 2],
    [4, 3],
    [2],
    [3, 0, 4],
    [3, -1, 2],
    [O_UPD, [[K_LIST, [2, 2, 4]]], 0],
    [O_SUPD, [K_LIST, [3, 4, 4]], 0],
    [O_IUPD, [[K_SET, [1, 2]], [K_ITER, [2, 1, 4]]], 0],
    [O_DUPD, [[K_ITER, [2]]], 0],
    [O_UNION, 1, [[K_OSET, [4, 1, 4]]], 1],
    [O_SYM, 1, [K_SET, [1, 4]], 1],
    [O_SUPD, [K_SELF, []], 1],
]
_I_ALPHA = [
    [0, 3],
    [0, 1],
    [2, 0],
    [3, 2],
    [4],
    [8, 0, 2, 0, [IK_LIST, [3, 3, 1]]],
    [8, 3, 2, 0, [IK_LIST, [1, 3, 3]]],
    [8, 3, 3, 0, [IK_ISET, [2, 3]]],
    [8, 1, 0, 1, [IK_ITER, [0]]],
    [8, 2, 1, 1, [IK_ISET, [1, 0, 3]]],
    [8, 3, 3, 0, [IK_SELF, []]],
]
_IVALS = [0, 0, 1, 1]  # objects 0,1 are equal but not identical; so are 2,3
_D_ARGS = [
    [0, []],
    [1, []],
    [2, []],
    [1, [[1, 9]]],
    [2, [[1, 9]]],
    [2, [[3, 3], [1, 7]]],
    [3, [[1, 5], [4, 4], [1, 6]]],
    [3, []],
]
_L_ALPHA = [
    [0, 1, 10, 0],
    [0, 2, 20, 0],
    [0, 3, 30, 0],
    [0, 1, 11, 1],
    [1, 1, -1],
    [1, 2, -1],
    [2, 3],
    [3, 2],
    [4, 1],
]


def _rand_oarg(rng, allow_self=True):
    k = rng.choice([K_SET, K_DICT, K_LIST, K_LIST, K_ITER, K_OSET, K_SELF] if allow_self else [K_SET, K_DICT, K_LIST, K_ITER, K_OSET])
    n = rng.randint(0, 5)
    s = [rng.randint(0, 6) for _ in range(n)]
    if k == K_SET:
        s = sorted(set(s))
    elif k == K_DICT:
        s = list(dict.fromkeys(s))
    elif k == K_SELF:
        s = []
    return [k, s]


def _rand_oop(rng):
    c = rng.choice([0, 0, 1, 2, 3, 4, 5, 6, 7, 8, 9, 9, 10, 11, 12, 12, 13, 14, 15, 16, 17, 17])
    x = rng.randint(0, 6)
    if c in (0, 1, 4, 7):
        return [c, x]
    if c in (2, 5, 8):
        return [c]
    if c == 3:
        return [3, rng.randint(-8, 8), x]
    if c == 6:
        return [6, rng.randint(-7, 7)]
    if c == O_COPY:
        return [c, rng.randint(0, 1)]
    form = rng.randint(0, 1)
    if c in (O_SUPD,):
        return [c, _rand_oarg(rng), form]
    if c == O_SYM:
        return [c, rng.randint(0, 1), _rand_oarg(rng), form]
    nargs = 1 if form else rng.choice([0, 1, 1, 2, 3])
    args = [_rand_oarg(rng) for _ in range(nargs)]
    if c == O_UNION and form and rng.random() < 0.5:
        form = 2  # __add__
    if c in (O_UPD, O_IUPD, O_DUPD):
        return [c, args, form]
    return [c, rng.randint(0, 1), args, form]


def _rand_iarg(rng):
    k = rng.choice([IK_ISET, IK_ISET, IK_LIST, IK_ITER, IK_SELF])
    s = [] if k == IK_SELF else [rng.randint(0, 5) for _ in range(rng.randint(0, 4))]
    return [k, s]


def _rand_iop(rng):
    c = rng.choice([0, 0, 1, 2, 3, 4, 5, 6, 7, 8, 8, 8, 8, 9, 9])
    if c in (0, 1, 2, 3):
        return [c, rng.randint(0, 5)]
    if c in (4, 5, 6):
        return [c]
    if c == 7:
        return [7, rng.randint(0, 1)]
    if c == 8:
        return [8, rng.randint(0, 3), rng.randint(0, 3), rng.randint(0, 1), _rand_iarg(rng)]
    return [9, rng.randint(0, 7), _rand_iarg(rng)]


def _rand_darg(rng):
    k = rng.randint(0, 3)
    p = [] if k == 0 else [[rng.randint(0, 4), rng.randint(0, 9)] for _ in range(rng.choice([0, 0, 1, 2, 3]))]
    return [k, p]


def _rand_dop(rng):
    c = rng.choice([0, 0, 1, 1, 1, 2, 3, 4, 5, 6])
    if c == 0:
        return [0, rng.randint(0, 8), rng.randint(0, 4), rng.randint(0, 9)]
    if c == 1:
        return [1, rng.randint(0, 1), rng.randint(0, 1), [_rand_darg(rng) for _ in range(rng.randint(0, 3))]]
    if c in (2, 3):
        return [c, rng.randint(0, 1), _rand_darg(rng)]
    if c == 5:
        return [5, rng.randint(0, 4)]
    return [c]


def _rand_lop(rng, nkeys):
    c = rng.choice([0, 0, 0, 0, 1, 1, 2, 3, 4, 5])
    k = rng.randint(0, nkeys)
    if c == 0:
        return [0, k, rng.randint(0, 99), 1 if rng.random() < 0.12 else 0]
    if c == 1:
        return [1, k, -1]
    if c == 5:
        return [5]
    return [c, k]


# the two repaired defects (commit 3021dc0): they are run on every check so a regression is caught
REGRESSION_CASES = [
    _ocase([K_LIST, [1, 2, 3]], [[O_SUPD, [K_LIST, [3, 4, 4, 5]], 0]], "regress"),
    _icase(_IVALS, [0, 1], [[8, 3, 3, 0, [IK_ISET, [1, 2]]]], "regress"),
]


def gen_cases(rng, tier):
    thorough = tier == "thorough"
    cases = [dict(c) for c in REGRESSION_CASES]

    # ---- OrderedSet: every binary method/operator x every argument kind and sequence
    inits = [[], [K_LIST, [1, 2, 3]], [K_OSET, [3, 1, 2, 1]]]
    if thorough:
        inits += [[K_SET, [1, 2, 3]], [K_DICT, [2, 1]], [K_ITER, [2, 2, 3]]]
    for init in inits:
        for a in _oargs([2, 3, 4], 3):
            op_ok = a[0] in (K_SET, K_OSET, K_DICT, K_SELF)  # operator aliases are typed for AbstractSet
            f = 1 if op_ok else 0
            cases.append(
                _ocase(
                    init,
                    [[O_UNION, 0, [a], f], [O_INTER, 0, [a], f], [O_DIFF, 0, [a], f], [O_SYM, 0, a, f], [O_SUPD, a, f]],
                    "oset-binary",
                )
            )
            cases.append(_ocase(init, [[O_IUPD, [a], f], [O_UPD, [a], f]], "oset-binary"))
            cases.append(_ocase(init, [[O_DUPD, [a], f], [O_SYM, 1, a, 0]], "oset-binary"))
    # constructor with every argument
    for a in _oargs([1, 2, 3], 3, with_self=False):
        cases.append(_ocase(a, [[8], [2]], "oset-init"))
    # several arguments at once
    two = [[K_LIST, [2, 4, 2]], [K_SET, [1, 4]], [K_ITER, [3, 3]], [K_OSET, [5, 1]], [K_SELF, []], [K_LIST, []]]
    for a in two:
        for b in two:
            cases.append(
                _ocase(
                    [K_LIST, [1, 2, 3]],
                    [[O_UNION, 0, [a, b], 0], [O_INTER, 0, [a, b], 0], [O_DIFF, 0, [a, b], 0], [O_UPD, [a, b], 0]],
                    "oset-multi",
                )
            )
            cases.append(_ocase([K_LIST, [1, 2, 3]], [[O_IUPD, [a, b], 0]], "oset-multi"))
            cases.append(_ocase([K_LIST, [1, 2, 3]], [[O_DUPD, [a, b], 0]], "oset-multi"))
    # all short histories
    for n in (1, 2, 3):
        for ops in itertools.product(_O_ALPHA, repeat=n):
            if n == 3 and not thorough and rng.random() < 0.8:
                continue
            cases.append(_ocase([K_LIST, [1, 2]], [list(o) for o in ops] + [[8]], "oset-hist"))
    for _ in range(12000 if thorough else 250):
        init = rng.choice([[], _rand_oarg(rng, False)])
        ops = [_rand_oop(rng) for _ in range(rng.randint(4, 8))]
        cases.append(_ocase(init, ops, "oset-random"))

    # ---- IdentitySet
    bases = [[], [0], [0, 1, 2], [2, 0, 1, 0]]
    iargs = [[k, s] for s in _seqs([1, 2, 3], 3) for k in (IK_ISET, IK_LIST, IK_ITER)] + [[IK_SELF, []]]
    iargs_small = [a for a in iargs if len(a[1]) <= (3 if thorough else 2)]
    for base in bases:
        for a in iargs:
            cases.append(_icase(_IVALS, base, [[8, b, f, 0, a] for f in (0, 1) for b in range(4)], "iset-binary"))
            cases.append(_icase(_IVALS, base, [[9, c, a] for c in range(8)], "iset-compare"))
        for a in iargs_small:
            for b in range(4):
                for f in (2, 3):
                    if not thorough and (f == 3 and a[0] in (IK_LIST, IK_ITER) and len(a[1]) > 1 or rng.random() < 0.4):
                        continue  # (operator with a non-IdentitySet: TypeError whatever the content)
                    cases.append(_icase(_IVALS, base, [[8, b, f, 0, a], [6]], "iset-inplace"))
    for n in (1, 2, 3):
        for ops in itertools.product(_I_ALPHA, repeat=n):
            if n == 3 and not thorough and rng.random() < 0.8:
                continue
            cases.append(_icase(_IVALS, [0, 2], [list(o) for o in ops] + [[6]], "iset-hist"))
    for _ in range(8000 if thorough else 200):
        vals = [rng.randint(0, 1) for _ in range(6)]
        init = [rng.randint(0, 5) for _ in range(rng.randint(0, 4))]
        cases.append(_icase(vals, init, [_rand_iop(rng) for _ in range(rng.randint(4, 8))], "iset-random"))

    # ---- immutabledict
    selves = [[], [[1, 1]], [[2, 2], [1, 1]]]
    for s in selves:
        for n in (0, 1, 2, 3):
            for others in itertools.product(_D_ARGS, repeat=n):
                if n == 3 and not thorough and rng.random() < 0.88:
                    continue
                cases.append({"in": [IDICT, [s, [[1, 0, n % 2, [list(o) for o in others]], [6]]]], "kind": "idict-union"})
        for w in range(9):
            cases.append({"in": [IDICT, [s, [[0, w, 1, 5], [0, w, 7, 5], [5, 1]]]], "kind": "idict-mutator"})
        for a in _D_ARGS:
            cases.append({"in": [IDICT, [s, [[2, 0, a], [3, 0, a], [4], [2, 1, a], [3, 1, a]]]], "kind": "idict-or"})
    for _ in range(4000 if thorough else 150):
        s = [[rng.randint(0, 4), rng.randint(0, 9)] for _ in range(rng.randint(0, 3))]
        cases.append({"in": [IDICT, [s, [_rand_dop(rng) for _ in range(rng.randint(2, 6))]]], "kind": "idict-random"})

    # ---- LRUCache
    for cap, tn, td in ((1, 1, 2), (2, 0, 1)):
        for n in (1, 2, 3):
            for ops in itertools.product(_L_ALPHA, repeat=n):
                if n == 3 and not thorough and rng.random() < 0.8:
                    continue
                cases.append({"in": [LRU, [cap, tn, td, 1, [list(o) for o in ops] + [[5]]]], "kind": "lru-hist"})
    for _ in range(8000 if thorough else 250):
        cap = rng.randint(0, 4)
        tn, td = rng.choice([(0, 1), (1, 4), (1, 2), (1, 1), (3, 4)])
        nkeys = rng.choice([3, 5, 8])
        ops = [_rand_lop(rng, nkeys) for _ in range(rng.randint(4, 10))]
        cases.append({"in": [LRU, [cap, tn, td, rng.randint(0, 1), ops]], "kind": "lru-random"})
    return cases


def nontrivial(c):
    fam, p = c["in"]
    if fam == OSET:
        return any(o[0] >= 9 and o[0] != O_COPY for o in p[1])
    if fam == ISET:
        return any(o[0] >= 8 and o[-1][1] for o in p[2])
    if fam == IDICT:
        return any(o[0] in (1, 2, 3) for o in p[1])
    return sum(1 for o in p[4] if o[0] == 0) >= 2


# ------------------------------------------------------------------ implementation side
_EXC = {KeyError: 1, IndexError: 2, ValueError: 3, TypeError: 4}


def _exc_code(e):
    for cls, code in _EXC.items():
        if type(e) is cls:
            return code
    raise e


def _impl_oset(p):
    import operator

    from sqlalchemy.util import OrderedSet

    init, ops = p
    watched = []  # (object, snapshot) of everything that must not change any more

    def snap(o):
        if isinstance(o, OrderedSet):
            return ("os", list(o), sorted(set.__iter__(o)))
        if isinstance(o, (set, dict)):
            return ("s", sorted(o))
        if isinstance(o, list):
            return ("l", list(o))
        return None

    def mk(a, recv):
        k, v = a
        if k == K_SET:
            s = set(v)
            if list(s) != list(v):
                raise AssertionError("set iteration order differs from the order given in the case")
            r = s
        elif k == K_DICT:
            r = dict.fromkeys(v)
        elif k == K_LIST:
            r = list(v)
        elif k == K_ITER:
            return iter(list(v))
        elif k == K_OSET:
            r = OrderedSet(list(v))
        else:
            return recv
        watched.append((r, snap(r)))
        return r

    def dump(o):
        return [list(o), sorted(set.__iter__(o))]

    cur = OrderedSet() if init == [] else OrderedSet(mk(init, None))
    out0 = dump(cur)
    trace = []
    inplace_ops = {O_UPD: operator.ior, O_IUPD: operator.iand, O_DUPD: operator.isub, O_SUPD: operator.ixor}
    inplace_m = {O_UPD: "update", O_IUPD: "intersection_update", O_DUPD: "difference_update", O_SUPD: "symmetric_difference_update"}
    pure_ops = {O_UNION: operator.or_, O_INTER: operator.and_, O_DIFF: operator.sub, O_SYM: operator.xor}
    pure_m = {O_UNION: "union", O_INTER: "intersection", O_DIFF: "difference", O_SYM: "symmetric_difference"}
    for op in ops:
        c = op[0]
        try:
            if c == 0:
                r = cur.add(op[1])
                ret = [0] if r is None else [9]
            elif c == 1:
                r = cur.remove(op[1])
                ret = [0] if r is None else [9]
            elif c == 2:
                ret = [1, cur.pop()]
            elif c == 3:
                r = cur.insert(op[1], op[2])
                ret = [0] if r is None else [9]
            elif c == 4:
                r = cur.discard(op[1])
                ret = [0] if r is None else [9]
            elif c == 5:
                r = cur.clear()
                ret = [0] if r is None else [9]
            elif c == 6:
                ret = [1, cur[op[1]]]
            elif c == 7:
                ret = [2, 1 if op[1] in cur else 0]
            elif c == 8:
                ret = [1, len(cur)]
            elif c in inplace_m:
                form = op[2]
                args = [mk(op[1], cur)] if c == O_SUPD else [mk(a, cur) for a in op[1]]
                if form == 0:
                    r = getattr(cur, inplace_m[c])(*args)
                    ret = [0] if r is None else [9]
                else:
                    r = inplace_ops[c](cur, *args)
                    ret = [0] if r is cur else [9]
            elif c == O_COPY:
                r = cur.copy()
                ret = [4, dump(r)] if type(r) is OrderedSet and r is not cur else [9]
                if op[1]:
                    watched.append((cur, snap(cur)))
                    cur = r
                else:
                    watched.append((r, snap(r)))
            else:
                adopt, form = op[1], op[3]
                args = [mk(op[2], cur)] if c == O_SYM else [mk(a, cur) for a in op[2]]
                if form == 0:
                    r = getattr(cur, pure_m[c])(*args)
                elif form == 2:
                    r = operator.add(cur, *args)
                else:
                    r = pure_ops[c](cur, *args)
                ret = [4, dump(r)] if type(r) is OrderedSet and r is not cur else [9]
                if adopt:
                    watched.append((cur, snap(cur)))
                    cur = r
                else:
                    watched.append((r, snap(r)))
        except (KeyError, IndexError, ValueError, TypeError) as e:
            ret = [3, _exc_code(e)]
        trace.append([ret, dump(cur)])
    ok = all(o is cur or snap(o) == s for o, s in watched)
    return [out0, trace, 1 if ok else 0]


class _Obj:
    """adversarial member: equality and hash look at the value only"""

    __slots__ = ("n", "val")

    def __init__(self, n, val):
        self.n, self.val = n, val

    def __eq__(self, other):
        return isinstance(other, _Obj) and self.val == other.val

    def __hash__(self):
        return hash(self.val)


def _impl_iset(p):
    import operator

    from sqlalchemy.util import IdentitySet

    vals, init, ops = p
    objs = [_Obj(i, v) for i, v in enumerate(vals)]
    byid = {id(o): i for i, o in enumerate(objs)}
    watched = []

    def dump(s):
        keys = [byid.get(k, -7) for k in s._members.keys()]
        members = [byid.get(id(o), -7) for o in s]
        if len(s) != len(members):
            members.append(-8)
        return [keys, members]

    def mk(a, recv):
        k, v = a
        if k == IK_ISET:
            r = IdentitySet([objs[i] for i in v])
            watched.append((r, dump(r)))
            return r
        if k == IK_LIST:
            return [objs[i] for i in v]
        if k == IK_ITER:
            return iter([objs[i] for i in v])
        return recv

    cur = IdentitySet([objs[i] for i in init])
    out0 = dump(cur)
    trace = []
    meth = ["union", "difference", "intersection", "symmetric_difference"]
    meth_in = ["update", "difference_update", "intersection_update", "symmetric_difference_update"]
    oper = [operator.or_, operator.sub, operator.and_, operator.xor]
    oper_in = [operator.ior, operator.isub, operator.iand, operator.ixor]
    cmps = [None, None, operator.le, operator.lt, operator.ge, operator.gt, operator.eq, operator.ne]
    for op in ops:
        c = op[0]
        try:
            if c == 0:
                r = cur.add(objs[op[1]])
                ret = [0] if r is None else [9]
            elif c == 1:
                ret = [2, 1 if objs[op[1]] in cur else 0]
            elif c == 2:
                r = cur.remove(objs[op[1]])
                ret = [0] if r is None else [9]
            elif c == 3:
                r = cur.discard(objs[op[1]])
                ret = [0] if r is None else [9]
            elif c == 4:
                ret = [1, cur.pop().n]
            elif c == 5:
                r = cur.clear()
                ret = [0] if r is None else [9]
            elif c == 6:
                ret = [5, len(cur)]
            elif c == 7:
                r = cur.copy()
                ret = [4, dump(r)] if type(r) is IdentitySet and r is not cur else [9]
                if op[1]:
                    watched.append((cur, dump(cur)))
                    cur = r
                else:
                    watched.append((r, dump(r)))
            elif c == 8:
                b, f, adopt = op[1], op[2], op[3]
                arg = mk(op[4], cur)
                if f in (0, 1):
                    r = getattr(cur, meth[b])(arg) if f == 0 else oper[b](cur, arg)
                    ret = [4, dump(r)] if type(r) is IdentitySet and r is not cur else [9]
                    if adopt:
                        watched.append((cur, dump(cur)))
                        cur = r
                    else:
                        watched.append((r, dump(r)))
                elif f == 2:
                    r = getattr(cur, meth_in[b])(arg)
                    ret = [0] if r is None else [9]
                else:
                    r = oper_in[b](cur, arg)
                    ret = [0] if r is cur else [9]
            else:
                cc = op[1]
                arg = mk(op[2], cur)
                if cc == 0:
                    r = cur.issubset(arg)
                elif cc == 1:
                    r = cur.issuperset(arg)
                else:
                    r = cmps[cc](cur, arg)
                ret = [2, 1 if r else 0] if r in (True, False, 0, 1) else [9]
        except (KeyError, IndexError, ValueError, TypeError) as e:
            ret = [3, _exc_code(e)]
        trace.append([ret, dump(cur)])
    ok = all(o is cur or dump(o) == s for o, s in watched)
    return [out0, trace, 1 if ok else 0]


def _impl_idict(p):
    import operator

    from sqlalchemy.util import immutabledict

    pairs, ops = p
    watched = []

    def items(d):
        return [[k, v] for k, v in dict.items(d)]

    def mk(a):
        k, v = a
        if k == 0:
            return None
        if k == 1:
            r = dict([tuple(e) for e in v])
        elif k == 2:
            r = immutabledict([tuple(e) for e in v])
        else:
            r = [tuple(e) for e in v]
        watched.append((r, list(r) if k == 3 else items(r)))
        return r

    cur = immutabledict([tuple(e) for e in pairs])
    out0 = items(cur)
    trace = []
    for op in ops:
        c = op[0]
        try:
            if c == 0:
                w, k, v = op[1], op[2], op[3]
                if w == 0:
                    del cur[k]
                elif w == 1:
                    cur[k] = v
                elif w == 2:
                    setattr(cur, "attr", v)
                elif w == 3:
                    cur.clear()
                elif w == 4:
                    cur.pop(k)
                elif w == 5:
                    cur.popitem()
                elif w == 6:
                    cur.setdefault(k, v)
                elif w == 7:
                    cur.update({k: v})
                else:
                    operator.ior(cur, {k: v})
                ret = [0]
            elif c == 1:
                others = [mk(a) for a in op[3]]
                r = cur.merge_with(*others) if op[2] else cur.union(*others)
                if r is cur:
                    who = 0
                else:
                    who = next((i + 1 for i, o in enumerate(others) if o is r), -1)
                if type(r) is not immutabledict:
                    who = -2
                ret = [4, items(r), who]
                if op[1]:
                    watched.append((cur, items(cur)))
                    cur = r
                elif who == -1:
                    watched.append((r, items(r)))
            elif c in (2, 3):
                a = mk(op[2])
                r = (cur | a) if c == 2 else (a | cur)
                ret = [4, items(r), -1 if type(r) is immutabledict and r is not cur and r is not a else -2]
                if op[1]:
                    watched.append((cur, items(cur)))
                    cur = r
                else:
                    watched.append((r, items(r)))
            elif c == 4:
                r = cur.copy()
                ret = [4, items(r), 0 if r is cur else -2]
            elif c == 5:
                ret = [1, cur[op[1]]]
            else:
                ret = [1, len(cur)]
        except (KeyError, IndexError, ValueError, TypeError) as e:
            ret = [3, _exc_code(e)]
        trace.append([ret, items(cur)])
    ok = all(o is cur or (list(o) if isinstance(o, list) else items(o)) == s for o, s in watched)
    return [out0, trace, 1 if ok else 0]


def _impl_lru(p):
    from sqlalchemy.util import LRUCache

    cap, tn, td, alert, ops = p
    fired = [0]

    def cb(cache):
        fired[0] += 1

    c = LRUCache(cap, threshold=tn / td, size_alert=cb if alert else None)

    def dump():
        rows = []
        for k, item in c._data.items():
            rows.append([k if item[0] == k else -1000, item[1], item[2][0]])
        return [rows, c._counter]

    trace = []
    for op in ops:
        t = op[0]
        try:
            if t == 0:
                before = fired[0]
                if op[3]:
                    c._mutex.acquire()
                    try:
                        c[op[1]] = op[2]
                    finally:
                        c._mutex.release()
                else:
                    c[op[1]] = op[2]
                ret = [6, min(fired[0] - before, 2)]
            elif t == 1:
                ret = [1, c.get(op[1], op[2])]
            elif t == 2:
                ret = [1, c[op[1]]]
            elif t == 3:
                ret = [2, 1 if op[1] in c else 0]
            elif t == 4:
                del c[op[1]]
                ret = [0]
            else:
                ret = [1, len(c)]
        except (KeyError, IndexError, ValueError, TypeError) as e:
            ret = [3, _exc_code(e)]
        except _Hang:
            import signal

            signal.setitimer(signal.ITIMER_VIRTUAL, 0)
            trace.append([[7], dump()])  # the while loop of _manage_size did not terminate
            break
        trace.append([ret, dump()])
    return trace


class _Hang(Exception):
    pass


_HANGS = [0]


def _alarm(signum, frame):
    _HANGS[0] += 1
    raise _Hang("operation did not finish within the step time limit")


def impl(c):
    import signal

    import sqlalchemy.util  # noqa: F401  (imported before the timer is armed)

    fam, p = c["in"]
    # a mutated loop must not hang the whole check: CPU-time limit per case (a case needs < 1 ms)
    signal.signal(signal.SIGVTALRM, _alarm)
    signal.setitimer(signal.ITIMER_VIRTUAL, 1.0 if _HANGS[0] < 3 else 0.1)
    try:
        return [_impl_oset, _impl_iset, _impl_idict, _impl_lru][fam](p)
    finally:
        signal.setitimer(signal.ITIMER_VIRTUAL, 0)


# ------------------------------------------------------------------ direct property oracle
# The reference is Python's builtin set / dict / list themselves, plus the order rule
# ("survivors keep their relative order, new elements follow in order of first occurrence").
def _append_new(lst, seq):
    out = list(lst)
    seen = set(lst)
    for x in seq:
        if x not in seen:
            seen.add(x)
            out.append(x)
    return out


def _set_like_step(cur, code, seqs):
    """expected content (ordered) of the four binary operations, computed with builtin sets"""
    s = set(cur)
    if code == "union":
        want = s.union(*seqs)
        new = _append_new(cur, [x for q in seqs for x in q])
    elif code == "inter":
        want = s.intersection(*seqs)
        new = [x for x in cur if x in want]
    elif code == "diff":
        want = s.difference(*seqs)
        new = [x for x in cur if x in want]
    else:
        want = s.symmetric_difference(seqs[0])
        new = [x for x in cur if x in want] + _append_new([], [x for x in seqs[0] if x in want and x not in s])
    assert set(new) == want and len(new) == len(want)
    return new


def _oracle_oset(p, obs):
    init, ops = p

    def seq(a, cur):
        k, v = a
        if k == K_OSET:
            return list(dict.fromkeys(v))
        if k == K_SELF:
            return list(cur)
        return list(v)

    def bad(i, msg):
        return "OrderedSet step %d (%s): %s" % (i, ops[i] if i >= 0 else init, msg)

    def chk(i, dump, want):
        lst, st = dump
        if len(set(lst)) != len(lst):
            return bad(i, "iteration order %s contains a duplicate" % (lst,))
        if sorted(lst) != st:
            return bad(i, "_list %s and the underlying set %s differ" % (lst, st))
        if want is not None and lst != want:
            return bad(i, "content/order %s, a set with first-insertion order gives %s" % (lst, want))
        return None

    out0, trace, flag = obs
    cur = [] if init == [] else list(dict.fromkeys(seq(init, [])))
    v = chk(-1, out0, cur)
    if v:
        return v
    names = {O_UPD: "union", O_IUPD: "inter", O_DUPD: "diff", O_SUPD: "sym", O_UNION: "union", O_INTER: "inter", O_DIFF: "diff", O_SYM: "sym"}
    for i, (op, (ret, dump)) in enumerate(zip(ops, trace)):
        c = op[0]
        want_ret = [0]
        if c == 0:
            cur = _append_new(cur, [op[1]])
        elif c == 1:
            if op[1] in cur:
                cur = [x for x in cur if x != op[1]]
            else:
                want_ret = [3, 1]
        elif c == 2:
            if not cur:
                want_ret = [3, 1]
            else:
                if ret[0] != 1 or ret[1] not in cur:
                    return bad(i, "pop returned %s from %s" % (ret, cur))
                cur = [x for x in cur if x != ret[1]]
                want_ret = ret
        elif c == 3:
            if op[2] not in cur:
                cur = list(cur)
                cur.insert(op[1], op[2])
        elif c == 4:
            cur = [x for x in cur if x != op[1]]
        elif c == 5:
            cur = []
        elif c == 6:
            try:
                want_ret = [1, cur[op[1]]]
            except IndexError:
                want_ret = [3, 2]
        elif c == 7:
            want_ret = [2, 1 if op[1] in set(cur) else 0]
        elif c == 8:
            want_ret = [1, len(set(cur))]
        elif c in (O_UPD, O_IUPD, O_DUPD, O_SUPD):
            args = [op[1]] if c == O_SUPD else op[1]
            cur = _set_like_step(cur, names[c], [seq(a, cur) for a in args])
        elif c == O_COPY:
            want_ret = [4, [list(cur), sorted(cur)]]
        else:
            args = [op[2]] if c == O_SYM else op[2]
            r = _set_like_step(cur, names[c], [seq(a, cur) for a in args])
            want_ret = [4, [r, sorted(r)]]
            if ret[0] == 4:
                v = chk(i, ret[1], r)
                if v:
                    return v + " (returned set)"
            if op[1]:
                cur = r
        if ret != want_ret:
            return bad(i, "returned %s, expected %s" % (ret, want_ret))
        v = chk(i, dump, cur)
        if v:
            return v
    if flag != 1:
        return "OrderedSet: an argument or an earlier result was modified by a later operation"
    return None


def _oracle_iset(p, obs):
    vals, init, ops = p

    def seq(a, cur):
        k, v = a
        return list(cur) if k == IK_SELF else list(v)

    def bad(i, msg):
        return "IdentitySet step %d (%s): %s" % (i, ops[i] if i >= 0 else init, msg)

    def chk(i, dump, want):
        keys, members = dump
        if keys != members:
            return bad(i, "a member is not stored under its own identity: keys %s members %s" % (keys, members))
        if len(set(members)) != len(members):
            return bad(i, "identity %s occurs twice" % (members,))
        if set(members) != want:
            return bad(i, "members %s, a set keyed on identity gives %s" % (sorted(members), sorted(want)))
        return None

    out0, trace, flag = obs
    cur = set(init)
    v = chk(-1, out0, cur)
    if v:
        return v
    for i, (op, (ret, dump)) in enumerate(zip(ops, trace)):
        c = op[0]
        want_ret = [0]
        if c == 0:
            cur = cur | {op[1]}
        elif c == 1:
            want_ret = [2, 1 if op[1] in cur else 0]
        elif c == 2:
            if op[1] in cur:
                cur = cur - {op[1]}
            else:
                want_ret = [3, 1]
        elif c == 3:
            cur = cur - {op[1]}
        elif c == 4:
            if not cur:
                want_ret = [3, 1]
            else:
                if ret[0] != 1 or ret[1] not in cur:
                    return bad(i, "pop returned %s from %s" % (ret, sorted(cur)))
                cur = cur - {ret[1]}
                want_ret = ret
        elif c == 5:
            cur = set()
        elif c == 6:
            want_ret = [5, len(cur)]
        elif c == 7:
            want_ret = None
            v = chk(i, ret[1], cur) if ret[0] == 4 else bad(i, "copy returned %s" % (ret,))
            if v:
                return v
        elif c == 8:
            b, f, adopt, a = op[1], op[2], op[3], op[4]
            other = set(seq(a, cur))
            r = [cur | other, cur - other, cur & other, cur ^ other][b]
            is_set = a[0] in (IK_ISET, IK_SELF)
            if f in (1, 3) and not is_set:
                want_ret = [3, 4]  # like builtin set: operators need a set on both sides
            elif f in (0, 1):
                want_ret = None
                v = chk(i, ret[1], r) if ret[0] == 4 else bad(i, "returned %s, expected a new IdentitySet" % (ret,))
                if v:
                    return v + " (returned set)"
                if adopt:
                    cur = r
            else:
                cur = r
        else:
            cc, a = op[1], op[2]
            other = set(seq(a, cur))
            is_set = a[0] in (IK_ISET, IK_SELF)
            if cc == 0:
                want_ret = [2, int(cur <= other)]
            elif cc == 1:
                want_ret = [2, int(cur >= other)]
            elif cc == 6:
                want_ret = [2, int(is_set and cur == other)]
            elif cc == 7:
                want_ret = [2, int(not (is_set and cur == other))]
            elif not is_set:
                want_ret = [3, 4]
            else:
                want_ret = [2, int([cur <= other, cur < other, cur >= other, cur > other][cc - 2])]
        if want_ret is not None and ret != want_ret:
            return bad(i, "returned %s, expected %s" % (ret, want_ret))
        v = chk(i, dump, cur)
        if v:
            return v
    if flag != 1:
        return "IdentitySet: an argument or an earlier result was modified by a later operation"
    return None


def _oracle_idict(p, obs):
    pairs, ops = p
    out0, trace, flag = obs

    def asdict(a):
        return dict([tuple(e) for e in a[1]])

    cur = dict([tuple(e) for e in pairs])
    if dict(map(tuple, out0)) != cur or len(out0) != len(cur):
        return "immutabledict(%s) has items %s" % (pairs, out0)
    for i, (op, (ret, after)) in enumerate(zip(ops, trace)):
        c = op[0]
        want_ret = None
        new = None
        if c == 0:
            want_ret = [3, 4]
        elif c == 1:
            new = dict(cur)
            for a in op[3]:
                if a[0] != 0:
                    new.update(asdict(a))
        elif c in (2, 3):
            a = op[2]
            if a[0] in (1, 2):
                new = (cur | asdict(a)) if c == 2 else (asdict(a) | cur)
            else:
                want_ret = [3, 4]
        elif c == 4:
            new = dict(cur)
        elif c == 5:
            want_ret = [1, cur[op[1]]] if op[1] in cur else [3, 1]
        else:
            want_ret = [1, len(cur)]
        if new is not None:
            if ret[0] != 4 or ret[2] == -2 or dict(map(tuple, ret[1])) != new or len(ret[1]) != len(new):
                return "immutabledict step %d (%s): returned %s, the right-biased merge is %s" % (i, op, ret, new)
            if c in (1, 2, 3) and op[1]:
                cur = new
        elif ret != want_ret:
            return "immutabledict step %d (%s): returned %s, expected %s" % (i, op, ret, want_ret)
        if dict(map(tuple, after)) != cur or len(after) != len(cur):
            return "immutabledict step %d (%s): the dict changed from %s to %s" % (i, op, cur, after)
    if flag != 1:
        return "immutabledict: an argument or an earlier result was modified by a later operation"
    return None


def _oracle_lru(p, trace):
    cap, tn, td, alert, ops = p
    bound = cap + cap * Fraction(tn, td)
    stored = {}  # what a plain dict would hold
    present = []  # keys the cache may still hold, least recently used first
    for i, (op, (ret, (rows, counter))) in enumerate(zip(ops, trace)):
        t = op[0]
        if ret == [7]:
            return "LRUCache step %d (%s): _manage_size did not terminate" % (i, op)
        keys = [r[0] for r in rows]
        if len(set(keys)) != len(keys):
            return "LRUCache step %d: key stored twice %s" % (i, keys)
        if t == 0:
            k, v, locked = op[1], op[2], op[3]
            stored[k] = v
            present = [x for x in present if x != k] + [k]
            if ret[0] != 6:
                return "LRUCache step %d (%s): __setitem__ gave %s" % (i, op, ret)
            if not locked and len(rows) > bound:
                return "LRUCache step %d (%s): size %d exceeds capacity + capacity*threshold = %s" % (i, op, len(rows), bound)
            if set(keys) != set(present):
                # an eviction happened: it must keep exactly the `capacity` most recently used
                want = present[len(present) - cap :] if cap else []
                if set(keys) != set(want):
                    return "LRUCache step %d (%s): after the trim the keys are %s, the %d most recently used are %s" % (i, op, sorted(keys), cap, want)
                present = want
        elif t in (1, 2, 3):
            k = op[1]
            hit = k in present
            if t == 1:
                ok = ret == [1, stored[k]] if hit else ret == [1, op[2]]
                if ret[0] == 1 and ret[1] != op[2] and ret[1] != stored.get(k, object()):
                    return "LRUCache step %d (%s): get returned %s which was not stored under the key (stored: %s)" % (i, op, ret[1], stored.get(k))
            elif t == 2:
                ok = ret == [1, stored[k]] if hit else ret == [3, 1]
                if ret[0] == 1 and ret[1] != stored.get(k, object()):
                    return "LRUCache step %d (%s): [] returned %s which was not stored under the key (stored: %s)" % (i, op, ret[1], stored.get(k))
            else:
                ok = ret == [2, int(hit)]
            if not ok:
                return "LRUCache step %d (%s): returned %s with keys %s present" % (i, op, ret, present)
            if hit:
                present = [x for x in present if x != k] + [k]
            if set(keys) != set(present):
                return "LRUCache step %d (%s): a lookup changed the keys to %s" % (i, op, sorted(keys))
        elif t == 4:
            k = op[1]
            want = [0] if k in present else [3, 1]
            stored.pop(k, None)
            present = [x for x in present if x != k]
            if ret != want or set(keys) != set(present):
                return "LRUCache step %d (%s): del returned %s, keys %s" % (i, op, ret, sorted(keys))
        else:
            if ret != [1, len(present)]:
                return "LRUCache step %d: len() = %s with keys %s" % (i, ret, present)
        for k, v, _ in rows:
            if stored.get(k, object()) != v:
                return "LRUCache step %d (%s): holds %s under key %s, stored was %s" % (i, op, v, k, stored.get(k))
    return None


def oracle(c, obs):
    fam, p = c["in"]
    return [_oracle_oset, _oracle_iset, _oracle_idict, _oracle_lru][fam](p, obs)


def match_finding(case, what):
    fam, p = case["in"]
    if fam == OSET and any(o[0] == O_SUPD for o in p[1]) and ("duplicate" in what or "first-insertion" in what):
        return "C54-oset-symdiff-update-duplicates"
    if fam == ISET and any(o[0] == 8 and o[1] == 3 and o[2] == 3 for o in p[2]):
        return "C54-iset-ixor-noop"
    return None


LEVEL_TEXT = (
    "Machine-checked proof (Coq) over Gallina transcriptions of the four classes, for unbounded histories "
    "(induction over operation lists): OrderedSet's (_list, set) pair keeps NoDup/same-elements and refines "
    "a duplicate-free list with Python set contents and first-insertion order for every method, operator "
    "alias and argument kind; IdentitySet's id-keyed dict refines the same reference model over identities "
    "and never consults member values; immutabledict.union/merge_with/| equal the right-biased merge on "
    "every path of _union_other and no operation changes the receiver; LRUCache lookups return only stored "
    "values, every unskipped __setitem__ restores len <= capacity*(1+threshold), the trim loop terminates "
    "and keeps exactly the `capacity` most recently used entries."
)
LEVEL_NOTE = (
    "Trusted: Coq kernel; the hand transcription (source pin + step-by-step correspondence on exhaustive "
    "small histories and random ones); builtin set/dict/list semantics as modelled. No axioms. Not covered: "
    "concurrent writers of LRUCache beyond a held mutex, unhashable / ill-behaved __eq__ members, pickling."
)
TECHNIQUE = "Coq refinement proof (model -> reference) by induction over histories; source pin; exhaustive small-scope + random step-wise correspondence; builtin set/dict oracle"
